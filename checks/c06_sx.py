"""c06_sx: a small symbolic executor over the IR JSON, specialised for the output-layout functions of
igris/util/printf_impl.c (shared by the checks C06 and C13).

What it is: path enumeration with integer values as linear forms (lin.Lin) under a conjunction of
linear constraints (lin.Cons, Fourier-Motzkin entailment), pointers as (base, linear offset), every
value it cannot express (floats, division, bit twiddling on non-flag words, loads from unmodelled
memory) as an opaque symbol that is named deterministically by the computation that produced it.
States that agree on all live values are merged.  The *ghost counter* E counts calls of the output
callback (parameter 0 of every function of the unit); emission is additionally logged as a list of
segments so that the layout can be compared with a closed-form model of ISO C.

Loops are never unrolled:
  * count-down emission loops  `while (n--) handler(c|*p++)`  are summarised (n calls, n >= 0 is an
    obligation, since a negative n wraps around 2^32 calls);
  * the digit generation loop  `do { *--p = digit(u % b); u /= b; } while (u)`  is summarised by its
    trip count nd (1 <= nd <= number of digits of 2^64-1 in base b);
  * every other loop is closed by a Houdini-style invariant over its header phis and E (candidates:
    x - E constant, x monotone, x bounded by a loop-invariant compare operand).

Nothing of igris is executed; integers are mathematical (the no-overflow side conditions are listed as
assumptions by the checks that use this module).
"""
from irlib import AnalysisBroken, V
from lin import Lin, Cons, cone, _fm_unsat, TooHard

MAX_STATES = 4000


class P:
    """pointer: base is a hashable tag, off a Lin byte offset"""
    __slots__ = ('base', 'off')

    def __init__(self, base, off=None):
        self.base = base
        self.off = Lin(0) if off is None else off

    def key(self):
        return ('P', self.base, self.off.key())

    def __eq__(self, o):
        return isinstance(o, P) and self.base == o.base and self.off == o.off

    def __hash__(self):
        return hash(self.key())

    def __repr__(self):
        return '&%s%s' % (self.base, '' if self.off == Lin(0) else '+(%r)' % self.off)


class Fv:
    """float: a known constant or unknown"""
    __slots__ = ('c',)

    def __init__(self, c=None):
        self.c = c

    def __repr__(self):
        return 'F(%r)' % (self.c,)


class Sel:
    """lazy select between two pointers (resolved only when the pointer is used)"""
    __slots__ = ('c', 'a', 'b')

    def __init__(self, c, a, b):
        self.c, self.a, self.b = c, a, b

    def key(self):
        return ('Sel', vkey(self.c), vkey(self.a), vkey(self.b))

    def __repr__(self):
        return 'Sel(%r ? %r : %r)' % (self.c, self.a, self.b)


def vkey(v):
    if isinstance(v, Sel):
        return v.key()
    if isinstance(v, Lin):
        return ('L', v.key())
    if isinstance(v, P):
        return v.key()
    if isinstance(v, Fv):
        return ('F', v.c)
    if isinstance(v, tuple):
        return tuple(vkey(x) for x in v)
    return v


def K(b):
    return ('k', bool(b))


class St:
    __slots__ = ('env', 'cons', 'E', 'segs', 'events', 'notes', 'mem', 'pins')

    def __init__(self):
        self.env = {}
        self.cons = Cons()
        self.E = Lin(0)
        self.segs = ()
        self.events = ()
        self.notes = ()
        self.mem = {}
        self.pins = frozenset()

    def fork(self):
        s = St()
        s.env = dict(self.env)
        s.cons = self.cons.copy()
        s.E = self.E
        s.segs = self.segs
        s.events = self.events
        s.notes = self.notes
        s.mem = dict(self.mem)
        s.pins = self.pins
        return s


class Infeasible(Exception):
    pass


def lin_syms(v, out):
    if isinstance(v, Lin):
        out.update(v.t.keys())
    elif isinstance(v, P):
        out.update(v.off.t.keys())
    elif isinstance(v, Sel):
        lin_syms(v.c, out)
        lin_syms(v.a, out)
        lin_syms(v.b, out)
    elif isinstance(v, tuple):
        for x in v:
            lin_syms(x, out)


PURE_EXTERNALS = {
    'atoi', 'isdigit', 'isupper', 'islower', 'isalpha', 'isspace', 'tolower', 'toupper', '__ctype_b_loc',
    '__ctype_tolower_loc', '__ctype_toupper_loc', 'modf', 'modfl', 'fmod', 'fmodl', 'log10', 'log10l', 'ceil',
    'ceill', 'floor', 'floorl', 'round', 'roundl', 'pow', 'powl', 'fabs', 'fabsl', 'abs', 'labs', 'llabs',
    'memchr', 'strchr',
}


class SX:
    def __init__(self, mod, handler_arg=0, emitters=(), inline=(), fork_selects=True, bit_args=(),
                 cstr_args=(), fmt_base=None, join_at=None, wide_syms=(), nonneg_args=None, cut_blocks=(),
                 bitword_phis=None, static_exit=None, pure_by_args=(), models=None):
        self.mod = mod
        self.handler_arg = handler_arg
        self.emitters = set(emitters)        # defined callees summarised as "emits ret characters"
        self.inline = set(inline)            # defined callees executed in the caller's state
        self.fork_selects = fork_selects
        self.bit_syms = set(bit_args)        # symbols whose single bits are tracked (flag words)
        self.cstr = dict(cstr_args)          # pointer base -> symbol of the string length
        self.fmt_base = fmt_base             # base whose bytes are read-only: loads named by location
        self.join_at = join_at               # merge (hull) the states at a block when there are more than this
        self.wide = set(wide_syms)           # 64-bit symbols: trunc below 64 bits yields an unknown value
        self.nonneg_args = nonneg_args or {} # emitter callee -> argument positions that must be >= 0 at the call
        self.cut_blocks = set(cut_blocks)    # (fn name, block name): execution stops before the terminator of the block
        self.cut_states = {}                 # block name -> states collected there (final passes only)
        self.bitword_phis = bitword_phis or {}   # (fn name, phi id) -> mask of the bits that may be set: loop-head value
                                             # is a word of separate 0/1 symbols instead of one unknown
        self.static_exit = static_exit       # callable(fn, loop) -> every exit test of the loop is loop-invariant
        self.pure_by_args = set(pure_by_args)    # pure externals whose result symbol is named by the argument values
        self.models = models or {}           # callee -> f(sx, st, fn, inst, args) -> value | None
        self.table_loads = {}                # symbol -> (constant global, index form) for loads from constant tables
        self.load_hook = None                # f(sx, st, fn, inst, pointer, value) called for loads from fmt_base
        self.prune = True                    # drop constraints that no live value depends on (set False to keep the
                                             # whole path condition, e.g. facts about bytes already consumed)
        self.alloca_size = {}
        self.digit_probes = []               # (fn name, stored value, remainder value, state) from the digit loop body
        self.store_log = None
        self.joins = 0
        self.obligs = {}
        self.recording = 0
        self.unknown_calls = {}
        self.intern = {}
        self.loopinfo = {}
        self.iter_states = {}                # (fn, header) -> latch states of the final pass
        self.dropped = {}                    # (fn, header) -> [(candidate description, latch notes)]
        self.live = {}
        self.npaths = 0
        self.depth = 0

    # ------------------------------------------------------------------ helpers
    def oblige(self, kind, fn, key, ok, where, detail=None):
        if self.recording:
            return
        k = (kind, fn.name, key)
        o = self.obligs.get(k)
        if o is None:
            o = self.obligs[k] = {'kind': kind, 'fn': fn.name, 'key': key, 'ok': True, 'where': where,
                                  'detail': None, 'n': 0}
        o['n'] += 1
        if not ok and o['ok']:
            o['ok'] = False
            o['detail'] = detail

    def opq(self, *desc):
        n = self.intern.get(desc)
        if n is None:
            n = self.intern[desc] = len(self.intern)
        return 'q%d' % n

    def opq_lin(self, *desc):
        return Lin.sym(self.opq(*desc))

    def feasible(self, st, syms):
        try:
            return not _fm_unsat(cone(st.cons.items, syms))
        except TooHard:
            return True

    def liveness(self, fn):
        r = self.live.get(fn.name)
        if r is not None:
            return r
        use, defs, phiuse = {}, {}, {}
        for b in fn.blocks:
            u, d = set(), set()
            for i in b.insts:
                if i.op == 'dbg':
                    continue
                if i.op == 'phi':
                    for (bb, v) in i.incoming:
                        if v.k in ('inst', 'arg'):
                            phiuse.setdefault(bb, set()).add(v.key())
                else:
                    ops = list(i.ops)
                    if i.op in ('call', 'invoke') and i.d.get('callee', {}).get('k') in ('inst', 'arg'):
                        ops.append(i.callee_v)
                    for o in ops:
                        if o.k in ('inst', 'arg') and o.key() not in d:
                            u.add(o.key())
                d.add(('i', i.id))
            use[b], defs[b] = u, d
        lin = {b: set(use[b]) for b in fn.blocks}
        changed = True
        while changed:
            changed = False
            for b in reversed(fn.blocks):
                out = set(phiuse.get(b.name, ()))
                for s in b.succs:
                    out |= lin[s]
                new = use[b] | (out - defs[b])
                if new != lin[b]:
                    lin[b] = new
                    changed = True
        phid = {b: set(('i', i.id) for i in b.insts if i.op == 'phi') for b in fn.blocks}
        r = {b: lin[b] | phid[b] for b in fn.blocks}
        self.live[fn.name] = r
        return r

    # ------------------------------------------------------------------ values
    def val(self, st, v, fn):
        k = v.k
        if k in ('inst', 'arg'):
            r = st.env.get(v.key())
            if r is None and v.key() not in st.env:
                raise AnalysisBroken('c06_sx: use of unevaluated value %r in %s' % (v, fn.name))
            return r
        if k == 'ci':
            if v.width == 1:
                return K(v.uval)
            return Lin(v.ival)
        if k == 'null':
            return P(('null',))
        if k == 'cf':
            try:
                return Fv(float(v.d['v']))
            except (ValueError, KeyError):
                return Fv(None)
        if k == 'global':
            return P(('g', v.name))
        if k == 'func':
            return P(('fn', v.name))
        if k == 'cexpr':
            return self.cexpr(st, v, fn)
        return None

    def cexpr(self, st, v, fn):
        op = v.d.get('op')
        ops = [V(x) for x in v.d.get('ops', [])]
        if op == 'getelementptr':
            return self.gep(st, self.val(st, ops[0], fn), v.d['gep'], fn)
        if op in ('bitcast', 'addrspacecast'):
            return self.val(st, ops[0], fn)
        return None

    def gep(self, st, base, g, fn):
        if not isinstance(base, P):
            return None
        off = base.off
        for s in g['steps']:
            if s['k'] == 'field':
                off = off + s['off']
            else:
                iv = self.val(st, V(s['v']), fn)
                if not isinstance(iv, Lin):
                    return P(('o', self.opq('gep', base.key(), vkey(iv))))
                off = off + iv * s['stride']
        return P(base.base, off)

    def global_bytes(self, name):
        g = self.mod.globals.get(name)
        if g is None or not g.get('const'):
            return None
        init = g.get('init')
        if isinstance(init, list) and all(isinstance(x, int) for x in init):
            return [x & 0xff for x in init]
        if isinstance(init, dict) and init.get('k') == 'zero':
            return [0] * init.get('size', 0)
        return None

    def const_strlen(self, p):
        if isinstance(p, P) and p.base[0] == 'g' and p.off.is_const():
            b = self.global_bytes(p.base[1])
            if b is not None and 0 <= p.off.c < len(b) and 0 in b[p.off.c:]:
                return b[p.off.c:].index(0)
        return None

    # ------------------------------------------------------------------ conditions
    def mk_cmp(self, pred, a, b):
        if isinstance(a, P) and isinstance(b, P):
            if a.base == b.base:
                a, b = a.off, b.off
            elif pred in ('eq', 'ne') and a.base[0] in ('g', 'a') and b.base[0] == 'null':
                return K(pred == 'ne')
            else:
                return ('opq', self.opq('pcmp', pred, a.key(), b.key()))
        if isinstance(a, Lin) and isinstance(b, Lin):
            if a.is_const() and b.is_const() and (pred[0] != 'u' or (a.c >= 0 and b.c >= 0)):
                x, y = a.c, b.c
                return K({'eq': x == y, 'ne': x != y, 'lt': x < y, 'le': x <= y, 'gt': x > y, 'ge': x >= y}
                         [pred if pred in ('eq', 'ne') else pred[1:]])
            if pred in ('ult', 'ule', 'ugt', 'uge'):
                pred = 's' + pred[1:]      # offsets / counts: callers guarantee non-negative operands
            return ('cmp', pred, a, b)
        return ('opq', self.opq('cmp', pred, vkey(a), vkey(b)))

    def decide(self, st, c):
        t = c[0]
        if t == 'k':
            return c[1]
        if t == 'opq':
            return None
        if t == 'not':
            d = self.decide(st, c[1])
            return None if d is None else (not d)
        if t in ('and', 'or'):
            a, b = self.decide(st, c[1]), self.decide(st, c[2])
            if t == 'and':
                if a is False or b is False:
                    return False
                if a is True and b is True:
                    return True
            else:
                if a is True or b is True:
                    return True
                if a is False and b is False:
                    return False
            return None
        pred, a, b = c[1], c[2], c[3]
        cs = st.cons
        if pred == 'eq' or pred == 'ne':
            if cs.entails_eq(a, b):
                return pred == 'eq'
            if cs.entails_lt(a, b) or cs.entails_lt(b, a):
                return pred == 'ne'
            return None
        if pred in ('sgt', 'sge'):
            a, b = b, a
            pred = 'slt' if pred == 'sgt' else 'sle'
        if pred == 'slt':
            if cs.entails_lt(a, b):
                return True
            if cs.entails_le(b, a):
                return False
            return None
        if pred == 'sle':
            if cs.entails_le(a, b):
                return True
            if cs.entails_lt(b, a):
                return False
            return None
        return None

    def assume(self, st, c, truth):
        """list of states refining st in which condition c has the given truth value (st itself is consumed)"""
        t = c[0]
        if t == 'k':
            return [st] if c[1] == truth else []
        if t == 'opq':
            return [st]
        if t == 'not':
            return self.assume(st, c[1], not truth)
        if t == 'and' or t == 'or':
            conj = (t == 'and') == truth       # and-true / or-false: both sides constrained
            want = truth
            if conj:
                out = []
                for s in self.assume(st, c[1], want):
                    out.extend(self.assume(s, c[2], want))
                return out
            # and-false: !a  |  a & !b        or-true: a | !a & b
            s2 = st.fork()
            out = self.assume(st, c[1], want)
            for s in self.assume(s2, c[1], not want):
                out.extend(self.assume(s, c[2], want))
            return out
        pred, a, b = c[1], c[2], c[3]
        d = self.decide(st, c)
        if d is not None:
            # already decided (in particular: a comparison of two constants, which the feasibility test below would
            # not see because it looks only at constraints that mention a symbol)
            return [st] if d == truth else []
        if not truth:
            pred = {'eq': 'ne', 'ne': 'eq', 'slt': 'sge', 'sge': 'slt', 'sgt': 'sle', 'sle': 'sgt'}[pred]
        syms = set(a.t.keys()) | set(b.t.keys())
        if pred == 'ne':
            s2 = st.fork()
            st.cons.add_lt(a, b)
            s2.cons.add_lt(b, a)
            return [s for s in (st, s2) if self.feasible(s, syms)]
        if pred == 'eq':
            st.cons.add_eq(a, b)
        elif pred == 'slt':
            st.cons.add_lt(a, b)
        elif pred == 'sle':
            st.cons.add_le(a, b)
        elif pred == 'sgt':
            st.cons.add_lt(b, a)
        elif pred == 'sge':
            st.cons.add_le(b, a)
        return [st] if self.feasible(st, syms) else []

    def branch(self, st, c):
        """[(state, truth)]"""
        d = self.decide(st, c)
        if d is not None:
            return [(st, d)]
        s2 = st.fork()
        return [(s, True) for s in self.assume(st, c, True)] + [(s, False) for s in self.assume(s2, c, False)]

    def force(self, st, v):
        """resolve a lazy pointer select: [(state, pointer)]"""
        if not isinstance(v, Sel):
            return [(st, v)]
        out = []
        for s, t in self.branch(st, v.c):
            out.extend(self.force(s, v.a if t else v.b))
        return out

    def force_key(self, st, fn, v):
        """states in which the SSA operand v holds a resolved pointer"""
        if v.k not in ('inst', 'arg'):
            return [st]
        cur = st.env.get(v.key())
        if not isinstance(cur, Sel):
            return [st]
        out = []
        for s, p in self.force(st, cur):
            s.env[v.key()] = p
            out.append(s)
        return out

    # ------------------------------------------------------------------ instructions
    def bits_of(self, st, sym, mask):
        r = Lin(0)
        i = 0
        while (1 << i) <= mask:
            if mask & (1 << i):
                b = (sym, 'bit', i)
                st.cons.add_le(0, Lin.sym(b))
                st.cons.add_le(Lin.sym(b), 1)
                r = r + Lin.sym(b) * (1 << i)
            i += 1
        return r

    @staticmethod
    def bw_decode(a):
        """Lin -> (constant part, {bit index: symbol}) when a is a word whose unknown bits are separate 0/1 symbols"""
        if not isinstance(a, Lin) or a.c < 0:
            return None
        bits = {}
        for s, c in a.t.items():
            if not (isinstance(s, tuple) and len(s) == 3 and s[1] == 'bit' and c == (1 << s[2])):
                return None
            bits[s[2]] = s
        if any((a.c >> n) & 1 for n in bits):
            return None
        return a.c, bits

    @staticmethod
    def bw_encode(c, bits):
        r = Lin(c)
        for n, s in bits.items():
            r = r + Lin.sym(s) * (1 << n)
        return r

    def bw_op(self, op, a, b, width):
        """and / or of a bit-decomposed word with a constant, else None"""
        for (x, y) in ((a, b), (b, a)):
            if not (isinstance(y, Lin) and y.is_const()) or not x.t:
                continue
            d = self.bw_decode(x)
            if d is None:
                continue
            c, bits = d
            k = y.c & ((1 << width) - 1)
            if op == 'and':
                return self.bw_encode(c & k, {n: s for n, s in bits.items() if (k >> n) & 1})
            if op == 'or':
                return self.bw_encode(c | k, {n: s for n, s in bits.items() if not (k >> n) & 1})
        return None

    def tracked_sym(self, a):
        if isinstance(a, Lin) and a.c == 0 and len(a.t) == 1:
            (s, c), = a.t.items()
            if c == 1 and s in self.bit_syms:
                return s
        return None

    def binop(self, st, i, a, b):
        op = i.op
        if isinstance(a, tuple) and isinstance(b, tuple) and i.bits == 1:
            if op == 'and':
                return ('and', a, b)
            if op == 'or':
                return ('or', a, b)
            if op == 'xor':
                if b[0] == 'k':
                    return ('not', a) if b[1] else a
                if a[0] == 'k':
                    return ('not', b) if a[1] else b
            return ('opq', self.opq(op, vkey(a), vkey(b)))
        if isinstance(a, P) and isinstance(b, P) and op == 'sub' and a.base == b.base:
            return a.off - b.off
        if isinstance(a, Lin) and isinstance(b, Lin):
            if op == 'add':
                return a + b
            if op == 'sub':
                return a - b
            if op == 'mul' and (a.is_const() or b.is_const()):
                return a * b
            if op == 'shl' and b.is_const() and 0 <= b.c < 62:
                return a * (1 << b.c)
            if a.is_const() and b.is_const():
                x, y = a.c, b.c
                w = i.bits or 64
                m = (1 << w) - 1
                if op == 'and':
                    return Lin((x & m) & (y & m))
                if op == 'or':
                    return Lin((x & m) | (y & m))
                if op == 'xor':
                    return Lin((x & m) ^ (y & m))
                if op in ('udiv', 'sdiv') and y > 0 and x >= 0:
                    return Lin(x // y)
                if op in ('urem', 'srem') and y > 0 and x >= 0:
                    return Lin(x % y)
            if op in ('and', 'or'):
                r = self.bw_op(op, a, b, i.bits or 32)
                if r is not None:
                    return r
            if op == 'and':
                for (x, y) in ((a, b), (b, a)):
                    s = self.tracked_sym(x)
                    if s is not None and y.is_const() and y.c >= 0:
                        return self.bits_of(st, s, y.c)
                r = self.opq_lin('and', vkey(a), vkey(b))
                for y in (a, b):
                    if y.is_const() and y.c >= 0:
                        st.cons.add_le(0, r)
                        st.cons.add_le(r, y.c)
                return r
            if op == 'urem' and b.is_const() and b.c > 0:
                r = self.opq_lin('urem', vkey(a), vkey(b))
                st.cons.add_le(0, r)
                st.cons.add_le(r, b.c - 1)
                return r
        if i.ty.get('k') == 'fp':
            return Fv(None)
        return self.opq_lin(op, vkey(a), vkey(b))

    def emit(self, st, seg, n):
        st.E = st.E + n
        st.segs = st.segs + (seg,)

    def handler_seg(self, st, fn, i):
        """segment for one callback call: constant character, a byte read through a pointer, or unknown"""
        a = i.ops[1] if len(i.ops) > 1 else None
        if a is None:
            return ('v', None, Lin(1))
        if a.k == 'ci':
            return ('c', a.ival & 0xff, Lin(1))
        src = fn.inst_of(a)
        while src is not None and src.op in ('sext', 'zext', 'trunc'):
            src = fn.inst_of(src.ops[0])
        if src is not None and src.op == 'load':
            p = st.env.get(src.ops[0].key()) if src.ops[0].k in ('inst', 'arg') else self.val(st, src.ops[0], fn)
            if isinstance(p, P):
                return ('m', p, Lin(1))
        return ('v', None, Lin(1))

    def is_handler_call(self, i):
        c = i.d.get('callee')
        return i.op == 'call' and c is not None and c.get('k') == 'arg' and c.get('i') == self.handler_arg

    def exec_call(self, fn, i, st):
        key = ('i', i.id)
        if self.is_handler_call(i):
            self.emit(st, self.handler_seg(st, fn, i), 1)
            return [st]
        callee = i.callee
        args = [self.val(st, a, fn) for a in i.ops]
        isvoid = i.ty.get('k') == 'void'
        if callee is None:
            self.unknown_calls.setdefault('<indirect>', i.where())
            if not isvoid:
                st.env[key] = self.top(i, fn)
            return [st]
        if callee.startswith('llvm.'):
            if not isvoid:
                st.env[key] = self.top(i, fn)
            return [st]
        if callee == 'strlen':
            p = args[0]
            st.events = st.events + (('scan', 'strlen', vkey(p), fn.name),)
            n = self.const_strlen(p)
            if n is not None:
                st.env[key] = Lin(n)
            elif isinstance(p, P) and p.base in self.cstr:
                st.env[key] = Lin.sym(self.cstr[p.base]) - p.off
            else:
                r = self.opq_lin('strlen', vkey(p))
                st.cons.add_le(0, r)
                st.env[key] = r
            return [st]
        if callee == 'strnlen':
            p, n = args[0], args[1]
            st.events = st.events + (('scan', 'strnlen', vkey(p), fn.name, vkey(n), n if isinstance(n, Lin) else None),)
            cn = self.const_strlen(p)
            if cn is not None:
                ln = Lin(cn)
            elif isinstance(p, P) and p.base in self.cstr:
                ln = Lin.sym(self.cstr[p.base]) - p.off
            else:
                ln = None
            if ln is not None and isinstance(n, Lin):
                out = []
                for s, t in self.branch(st, ('cmp', 'sle', ln, n)):
                    s.env[key] = ln if t else n
                    out.append(s)
                return out
            r = self.opq_lin('strnlen', vkey(p), vkey(n))
            st.cons.add_le(0, r)
            if isinstance(n, Lin):
                st.cons.add_le(r, n)
            st.env[key] = r
            return [st]
        if callee in self.models:
            r = self.models[callee](self, st, fn, i, args)
            if r is not None:
                st.env[key] = r
                return [st]
        target = self.mod.functions.get(callee)
        if target is not None and not target.decl:
            if callee in self.inline:
                return self.inline_call(fn, i, st, target, args)
            if callee in self.emitters:
                r = self.opq_lin('ret', fn.name, i.id)
                st.cons.add_le(0, r)
                for pos in self.nonneg_args.get(callee, ()):
                    a = args[pos] if pos < len(args) else None
                    ok = isinstance(a, Lin) and st.cons.entails_le(0, a)
                    self.oblige('arg-nonneg', fn, '%s:arg%d' % (callee, pos), ok, i.where(),
                                None if ok else 'argument %d of %s (%r) is not proven non-negative at this call' % (pos, callee, a))
                st.events = st.events + (('call', i.id, callee, tuple(vkey(a) for a in args)),)
                self.emit(st, ('call', callee, r), r)
                st.env[key] = r
                return [st]
            raise AnalysisBroken('c06_sx: call of %s from %s has no summary' % (callee, fn.name))
        if callee not in PURE_EXTERNALS:
            self.unknown_calls.setdefault(callee, i.where())
        for a in args:
            if isinstance(a, P) and a.base in self.cstr:
                st.events = st.events + (('scan', callee, vkey(a), fn.name),)
        # pure external: the result is a function of the arguments; out-parameters into allocas are forgotten
        for a in args:
            if isinstance(a, P) and a.base[0] == 'a':
                for k in [k for k in st.mem if k[0] == a.base]:
                    del st.mem[k]
        if not isvoid:
            if i.ty.get('k') == 'int' and callee in self.pure_by_args:
                st.env[key] = Lin.sym(self.opq('ext', callee, tuple(vkey(a) for a in args)))
            elif i.ty.get('k') == 'int':
                st.env[key] = Lin.sym(self.opq('ext', callee, fn.name, i.id))
            else:
                st.env[key] = self.top(i, fn)
        return [st]

    def inline_call(self, fn, i, st, target, args):
        if self.depth > 6:
            raise AnalysisBroken('c06_sx: call depth exceeded at %s' % target.name)
        caller_env = st.env
        st.env = {('a', n): a for n, a in enumerate(args)}
        self.depth += 1
        try:
            rets = self.run_function(target, st)
        finally:
            self.depth -= 1
        out = []
        for s, rv in rets:
            s.env = dict(caller_env)
            if i.ty.get('k') != 'void':
                s.env[('i', i.id)] = rv
            out.append(s)
        return out

    def top(self, i, fn):
        k = i.ty.get('k')
        if k == 'int':
            if i.bits == 1:
                return ('opq', self.opq('b', fn.name, i.id))
            return Lin.sym(self.opq('t', fn.name, i.id))
        if k == 'ptr':
            return P(('o', self.opq('p', fn.name, i.id)))
        if k == 'fp':
            return Fv(None)
        return None

    def exec_inst(self, fn, i, st):
        """returns list of states"""
        op = i.op
        key = ('i', i.id)
        if op == 'alloca':
            st.env[key] = P(('a', fn.name, i.id))
            self.alloca_size[('a', fn.name, i.id)] = i.d.get('alloc_ty', {}).get('size')
            return [st]
        if op in ('call', 'invoke', 'load', 'store', 'getelementptr', 'icmp', 'ptrtoint') and \
                any(o.k in ('inst', 'arg') and isinstance(st.env.get(o.key()), Sel) for o in i.ops):
            states = [st]
            for o in i.ops:
                nxt = []
                for s in states:
                    nxt.extend(self.force_key(s, fn, o))
                states = nxt
            out = []
            for s in states:
                out.extend(self.exec_inst(fn, i, s))
            return out
        if op in ('call', 'invoke'):
            return self.exec_call(fn, i, st)
        if op == 'load':
            p = self.val(st, i.ops[0], fn)
            st.env[key] = self.load(st, fn, i, p)
            return [st]
        if op == 'store':
            v = self.val(st, i.ops[0], fn)
            p = self.val(st, i.ops[1], fn)
            if self.store_log is not None:
                self.store_log.append((i, p, v, st))
            if isinstance(p, P) and p.base[0] == 'a':
                sz = i.d.get('store_size', 0)
                tot = self.alloca_size.get(p.base)
                if tot is not None and sz:
                    ok = st.cons.entails_le(0, p.off) and st.cons.entails_le(p.off + sz, tot)
                    self.oblige('local-store', fn, 'store into the %d-byte local buffer stays inside' % tot, ok, i.where(),
                                None if ok else 'a %d-byte store at offset %r of a %d-byte local object' % (sz, p.off, tot))
                if p.off.is_const():
                    c = p.off.c
                    for k in [k for k in st.mem if k[0] == p.base and k[1] < c + sz and c < k[1] + k[2]]:
                        del st.mem[k]
                    st.mem[(p.base, c, sz)] = v
                else:
                    for k in [k for k in st.mem if k[0] == p.base]:
                        del st.mem[k]
            return [st]
        if op == 'getelementptr':
            st.env[key] = self.gep(st, self.val(st, i.ops[0], fn), i.d['gep'], fn)
            return [st]
        if op in ('bitcast', 'addrspacecast'):
            a = self.val(st, i.ops[0], fn)
            if i.ty.get('k') == 'ptr' and isinstance(a, P):
                st.env[key] = a
            elif i.ty.get('k') == 'int':
                st.env[key] = self.opq_lin('bitcast', vkey(a), fn.name, i.id)
            else:
                st.env[key] = self.top(i, fn)
            return [st]
        if op in ('zext', 'sext', 'trunc'):
            a = self.val(st, i.ops[0], fn)
            if isinstance(a, Lin):
                if op == 'trunc' and i.bits < 64 and any(sy in self.wide for sy in a.t):
                    a = self.opq_lin('trunc', i.bits, vkey(a))
                st.env[key] = a
                return [st]
            if isinstance(a, tuple):
                if i.bits == 1:
                    st.env[key] = a
                    return [st]
                d = self.decide(st, a)
                if d is not None:
                    st.env[key] = Lin(1 if d else 0)
                    return [st]
                out = []
                for s, t in self.branch(st, a):
                    s.env[key] = Lin(1 if t else 0)
                    out.append(s)
                return out
            st.env[key] = self.top(i, fn)
            return [st]
        if op == 'ptrtoint':
            st.env[key] = self.val(st, i.ops[0], fn)
            return [st]
        if op == 'inttoptr':
            a = self.val(st, i.ops[0], fn)
            st.env[key] = a if isinstance(a, P) else P(('o', self.opq('i2p', vkey(a))))
            return [st]
        if op == 'icmp':
            a = self.val(st, i.ops[0], fn)
            b = self.val(st, i.ops[1], fn)
            st.env[key] = self.mk_cmp(i.pred, a, b)
            return [st]
        if op == 'fcmp':
            st.env[key] = ('opq', self.opq('fcmp', fn.name, i.id))
            return [st]
        if op == 'select':
            return self.exec_select(fn, i, st)
        if op == 'fptosi' or op == 'fptoui':
            a = self.val(st, i.ops[0], fn)
            if isinstance(a, Fv) and a.c is not None and a.c == int(a.c):
                st.env[key] = Lin(int(a.c))
            else:
                st.env[key] = Lin.sym(self.opq('fptosi', fn.name, i.id))
            return [st]
        if op in ('sitofp', 'uitofp', 'fpext', 'fptrunc', 'fneg', 'fadd', 'fsub', 'fmul', 'fdiv', 'frem'):
            a = self.val(st, i.ops[0], fn)
            if op in ('fpext', 'fptrunc') and isinstance(a, Fv):
                st.env[key] = a
            elif op == 'sitofp' and isinstance(a, Lin) and a.is_const():
                st.env[key] = Fv(float(a.c))
            else:
                st.env[key] = Fv(None)
            return [st]
        if op in ('add', 'sub', 'mul', 'and', 'or', 'xor', 'shl', 'lshr', 'ashr', 'udiv', 'sdiv', 'urem', 'srem'):
            a = self.val(st, i.ops[0], fn)
            b = self.val(st, i.ops[1], fn)
            st.env[key] = self.binop(st, i, a, b)
            return [st]
        if op in ('extractvalue', 'insertvalue', 'freeze'):
            st.env[key] = self.top(i, fn)
            return [st]
        raise AnalysisBroken('c06_sx: unsupported instruction %s in %s' % (op, fn.name))

    def load(self, st, fn, i, p):
        ty = i.ty
        if isinstance(p, P):
            if p.base[0] == 'g' and p.off.is_const() and ty.get('k') == 'int' and ty.get('bits') == 8:
                b = self.global_bytes(p.base[1])
                if b is not None and 0 <= p.off.c < len(b):
                    v = b[p.off.c]
                    return Lin(v - 256 if v >= 128 else v)
            if p.base[0] == 'g' and not p.off.is_const() and ty.get('k') == 'int' and ty.get('bits') == 8 and \
                    self.global_bytes(p.base[1]) is not None:
                # constant byte table indexed by a symbolic value: an opaque symbol that remembers table and index
                v = Lin.sym(self.opq('tab', p.base[1], p.off.key()))
                self.table_loads[next(iter(v.t))] = (p.base[1], p.off)
                return v
            if p.base[0] == 'a' and p.off.is_const():
                v = st.mem.get((p.base, p.off.c, ty.get('size')))
                if v is not None:
                    return v
            if self.fmt_base is not None and p.base == self.fmt_base and ty.get('k') == 'int':
                v = Lin.sym(self.opq('byte', p.key()))
                if self.load_hook is not None:
                    self.load_hook(self, st, fn, i, p, v)
                return v
        return self.top(i, fn)

    def exec_select(self, fn, i, st):
        key = ('i', i.id)
        c = self.val(st, i.ops[0], fn)
        a = self.val(st, i.ops[1], fn)
        b = self.val(st, i.ops[2], fn)
        if not isinstance(c, tuple):
            st.env[key] = self.top(i, fn)
            return [st]
        d = self.decide(st, c)
        if d is not None:
            st.env[key] = a if d else b
            return [st]
        if isinstance(a, tuple) and isinstance(b, tuple) and i.bits == 1:
            st.env[key] = ('or', ('and', c, a), ('and', ('not', c), b))
            return [st]
        if vkey(a) == vkey(b):
            st.env[key] = a
            return [st]
        if isinstance(a, (P, Sel)) and isinstance(b, (P, Sel)):
            st.env[key] = Sel(c, a, b)
            return [st]
        if self.fork_selects or not (isinstance(a, Lin) and isinstance(b, Lin)):
            if c[0] == 'opq' and not (isinstance(a, (Lin, P)) and isinstance(b, (Lin, P))):
                st.env[key] = self.top(i, fn)
                return [st]
            out = []
            for s, t in self.branch(st, c):
                s.env[key] = a if t else b
                out.append(s)
            return out
        # join: a fresh symbol with the relations that hold in both cases
        r = Lin.sym(self.opq('sel', fn.name, i.id))
        s1 = self.assume(st.fork(), c, True)
        s2 = self.assume(st.fork(), c, False)
        for cand in (a, b):
            for sign in (1, -1):
                # sign*(r - cand) <= 0 ?
                ok = all(s.cons.entails((a - cand) * sign) for s in s1) and \
                    all(s.cons.entails((b - cand) * sign) for s in s2)
                if ok:
                    st.cons.add((r - cand) * sign)
        st.env[key] = r
        return [st]

    # ------------------------------------------------------------------ control flow
    def start(self, fn, args, pre=()):
        """initial state: args is a list of values (Lin / P / Fv / None) per parameter"""
        st = St()
        pins = set()
        for n, a in enumerate(args):
            st.env[('a', n)] = a
            lin_syms(a, pins)
        pins.update(self.cstr.values())
        st.pins = frozenset(pins)
        for c in pre:
            st.cons.add(c)
        return st

    def run_function(self, fn, st):
        rets = []
        self.run_region(fn, None, [(st, None)], rets)
        return rets

    def signature(self, st, live):
        env = st.env
        items = []
        syms = set(st.pins)
        for k in live:
            if k in env:
                v = env[k]
                items.append((k, vkey(v)))
                lin_syms(v, syms)
        for l in st.cons.items:
            for sy in l.t:
                if isinstance(sy, tuple) and len(sy) == 3 and sy[1] == 'bit' and sy[0] in self.bit_syms:
                    syms.add(sy)
        lin_syms(st.E, syms)
        for sg in st.segs:
            lin_syms(sg, syms)
        for (_, v) in st.mem.items():
            lin_syms(v, syms)
        items.sort(key=repr)
        if self.prune:
            c = cone(st.cons.items, syms)
            if len(c) != len(st.cons.items):
                st.cons = Cons(c)
        return (tuple(items), frozenset(st.cons.keys), st.E.key(), vkey(st.segs), st.events, st.notes,
                tuple(sorted(((k, vkey(v)) for k, v in st.mem.items()), key=repr)))

    def entry_keys(self, fn, b, frm):
        """values that matter when block b is entered from frm, before its phis are evaluated"""
        keys = set(self.liveness(fn)[b])
        for i in b.insts:
            if i.op == 'phi':
                keys.discard(('i', i.id))
                for (bb, v) in i.incoming:
                    if bb == frm.name and v.k in ('inst', 'arg'):
                        keys.add(v.key())
        return keys

    # ------------------------------------------------------------------ join (hull of several states)
    @staticmethod
    def keep_distinct(v):
        return (isinstance(v, P) and v.base[0] in ('g', 'fn', 'null')) or isinstance(v, Sel)

    def join(self, fn, b, states, live):
        groups = {}
        order = []
        forced = []
        for s in states:
            cur = [s]
            for k in sorted(live, key=repr):
                if isinstance(s.env.get(k), Sel):
                    nxt = []
                    for c in cur:
                        for (c2, p) in self.force(c, c.env[k]):
                            c2.env[k] = p
                            nxt.append(c2)
                    cur = nxt
            forced.extend(cur)
        states = forced
        for s in states:
            gk = (vkey(s.segs), s.events,
                  tuple(sorted(((k, vkey(s.env[k])) for k in live if k in s.env and self.keep_distinct(s.env[k])),
                               key=repr)))
            if gk not in groups:
                groups[gk] = []
                order.append(gk)
            groups[gk].append(s)
        out = []
        for gk in order:
            g = groups[gk]
            out.append(g[0] if len(g) == 1 else self.join_group(fn, b, g, live))
        return out

    def type_top(self, fn, k, name):
        ty = fn.insts[k[1]].ty if k[0] == 'i' else fn.params[k[1]]['ty']
        kind = ty.get('k')
        if kind == 'int':
            return ('opq', name) if ty.get('bits') == 1 else Lin.sym(name)
        if kind == 'ptr':
            return P(('o', name))
        if kind == 'fp':
            return Fv(None)
        return None

    def join_group(self, fn, b, g, live):
        self.joins += 1
        s0 = g[0]
        j = St()
        j.segs, j.events, j.pins = s0.segs, s0.events, s0.pins
        j.notes = tuple(n for n in s0.notes if all(n in s.notes for s in g[1:]))
        n = len(g)
        quant = []        # (joined Lin, [per-state Lin], kind)
        jsyms = []        # indices into quant that are join symbols
        for k in sorted(live, key=repr):
            if any(k not in s.env for s in g):
                continue
            vals = [s.env[k] for s in g]
            k0 = vkey(vals[0])
            name = self.opq('j', fn.name, b.name, k)
            if all(vkey(v) == k0 for v in vals[1:]):
                j.env[k] = vals[0]
                if isinstance(vals[0], Lin) and vals[0].t:
                    quant.append((vals[0], vals, 'i'))
                elif isinstance(vals[0], P) and vals[0].base[0] not in ('g', 'fn', 'null'):
                    quant.append((vals[0].off, [v.off for v in vals], vals[0].base))
            elif all(isinstance(v, Lin) for v in vals):
                j.env[k] = Lin.sym(name)
                jsyms.append(len(quant))
                quant.append((j.env[k], vals, 'i'))
            elif all(isinstance(v, P) and v.base == vals[0].base for v in vals):
                j.env[k] = P(vals[0].base, Lin.sym(name))
                jsyms.append(len(quant))
                quant.append((Lin.sym(name), [v.off for v in vals], vals[0].base))
            else:
                j.env[k] = self.type_top(fn, k, name)
        e0 = s0.E.key()
        if all(s.E.key() == e0 for s in g[1:]):
            j.E = s0.E
        else:
            j.E = Lin.sym(self.opq('jE', fn.name, b.name))
            jsyms.append(len(quant))
            quant.append((j.E, [s.E for s in g], 'i'))
        if s0.E.t:
            pass
        for mk, mv in s0.mem.items():
            if all(mk in s.mem and vkey(s.mem[mk]) == vkey(mv) for s in g[1:]):
                j.mem[mk] = mv
        cand = {}
        for s in g:
            for c in s.cons.items:
                cand.setdefault(c.key(), c)
        for ck, c in cand.items():
            if all((ck in s.cons.keys) or s.cons.entails(c) for s in g):
                j.cons.add(c)
        zero = (Lin(0), [Lin(0)] * n, 'i')
        for xi in jsyms:
            x, xv, xk = quant[xi]
            others = [q for qi, q in enumerate(quant) if qi != xi and q[2] == xk]
            if xk == 'i':
                others = others + [zero]
            for (y, yv, _) in others:
                for sign in (1, -1):
                    for d in (-1, 0, 1):
                        # sign*(x - y) <= d in every state?
                        if all(g[i].cons.entails((xv[i] - yv[i]) * sign - d) for i in range(n)):
                            j.cons.add((x - y) * sign - d)
                            break
        pins = set(j.pins)
        j.pins = frozenset(pins)
        return j

    def eval_phis(self, fn, b, st, frm):
        vals = []
        for i in b.insts:
            if i.op == 'dbg':
                continue
            if i.op != 'phi':
                break
            for (bb, v) in i.incoming:
                if bb == frm.name:
                    vals.append((i, self.val(st, v, fn)))
                    break
            else:
                raise AnalysisBroken('c06_sx: phi without incoming for %s in %s' % (frm.name, fn.name))
        for i, v in vals:
            st.env[('i', i.id)] = v

    def loops_by_header(self, fn):
        m = getattr(fn, '_sx_loops', None)
        if m is None:
            m = {L['header']: L for L in fn.loops}
            fn._sx_loops = m
        return m

    def run_region(self, fn, loop, entries, rets):
        lb = self.loops_by_header(fn)
        live = self.liveness(fn)
        region = set(fn.blocks) if loop is None else loop['blocks']
        header = None if loop is None else loop['header']
        pending = {}
        latches, exits = [], []
        start = fn.entry if loop is None else header
        pending[start] = list(entries)
        skip = set()

        def deliver(s, frm, to):
            if to is header:
                latches.append((s, frm))
            elif to not in region:
                exits.append((s, frm, to))
            else:
                pending.setdefault(to, []).append((s, frm))
        for b in fn.rpo:
            if b not in region or b in skip:
                continue
            ins = pending.pop(b, None)
            if not ins:
                continue
            if b in lb and b is not header:
                L = lb[b]
                # group entries by predecessor; merge identical ones
                seen = set()
                for (s, frm) in ins:
                    sg = (frm.name, self.signature(s, self.entry_keys(fn, b, frm)))
                    if sg in seen:
                        continue
                    seen.add(sg)
                    for (s2, f2, t2) in self.run_loop(fn, L, s, frm, rets):
                        deliver(s2, f2, t2)
                skip |= L['blocks']
                continue
            states = []
            seen = set()
            for (s, frm) in ins:
                if not (b is header and loop is not None) and frm is not None:
                    self.eval_phis(fn, b, s, frm)
                sg = self.signature(s, live[b])
                if sg in seen:
                    continue
                seen.add(sg)
                states.append(s)
            if self.join_at is not None and len(states) > self.join_at:
                states = self.join(fn, b, states, live[b])
            if len(states) > MAX_STATES:
                raise AnalysisBroken('c06_sx: path explosion (%d states) at block %s of %s' % (len(states), b.name, fn.name))
            for s in states:
                for (s2, to) in self.exec_block(fn, b, s, rets):
                    deliver(s2, b, to)
        return latches, exits

    def exec_block(self, fn, b, st, rets):
        states = [st]
        for i in b.insts:
            if i.op in ('dbg', 'phi'):
                continue
            if i is b.term:
                break
            nxt = []
            for s in states:
                nxt.extend(self.exec_inst(fn, i, s))
            states = nxt
            if not states:
                return []
        if (fn.name, b.name) in self.cut_blocks:
            if not self.recording:
                self.cut_states.setdefault(b.name, []).extend(states)
            return []
        out = []
        for s in states:
            out.extend(self.exec_term(fn, b.term, s, rets))
        return out

    def exec_term(self, fn, t, st, rets):
        if t.op == 'ret':
            rv = self.val(st, t.ops[0], fn) if t.ops else None
            self.npaths += 1
            rets.append((st, rv))
            return []
        if t.op == 'unreachable':
            return []
        if t.op == 'br':
            if 'f' not in t.d:
                return [(st, fn.bmap[t.d['t']])]
            c = self.val(st, t.ops[0], fn)
            if not isinstance(c, tuple):
                c = ('opq', self.opq('br', fn.name, t.id))
            return [(s, fn.bmap[t.d['t'] if tr else t.d['f']]) for s, tr in self.branch(st, c)]
        if t.op == 'switch':
            v = self.val(st, t.ops[0], fn)
            out = []
            if not isinstance(v, Lin):
                for name in set([t.d['default']] + [c['bb'] for c in t.d['cases']]):
                    out.append((st.fork(), fn.bmap[name]))
                return out
            if v.is_const():
                for case in t.d['cases']:
                    if case['v'] == v.c:
                        return [(st, fn.bmap[case['bb']])]
                return [(st, fn.bmap[t.d['default']])]
            syms = set(v.t.keys())
            for case in t.d['cases']:
                s = st.fork()
                s.cons.add_eq(v, case['v'])
                if self.feasible(s, syms):
                    s.notes = s.notes + (('case', fn.name, t.id, case['v']),)
                    out.append((s, fn.bmap[case['bb']]))
            st.notes = st.notes + (('case', fn.name, t.id, 'default'),)
            out.append((st, fn.bmap[t.d['default']]))
            return out
        raise AnalysisBroken('c06_sx: unsupported terminator %s in %s' % (t.op, fn.name))

    # ------------------------------------------------------------------ loops
    def classify(self, fn, L):
        k = (fn.name, L['header'].name)
        r = self.loopinfo.get(k)
        if r is None:
            r = self.classify_countdown(fn, L) or self.classify_countup(fn, L) or self.classify_digits(fn, L) or {'kind': 'generic'}
            r['emits'] = any((self.is_handler_call(i) or (i.op == 'call' and (i.callee in self.emitters or i.callee in self.inline)))
                             for b in L['blocks'] for i in b.insts)
            self.loopinfo[k] = r
        return r

    def strip(self, fn, v):
        while True:
            i = fn.inst_of(v)
            if i is not None and i.op in ('sext', 'zext', 'trunc'):
                v = i.ops[0]
                continue
            return v

    def classify_countdown(self, fn, L):
        """while (n--) handler(..) / for (; n; --n) handler(..)"""
        H = L['header']
        insts = [i for b in L['blocks'] for i in b.insts if i.op != 'dbg']
        calls = [i for i in insts if i.op in ('call', 'invoke')]
        if len(calls) != 1 or not self.is_handler_call(calls[0]) or any(i.op == 'store' for i in insts):
            return None
        nul = None
        if len(L['exits']) == 2 and len(L['latches']) == 1 and L['exits'][0][1] is L['exits'][1][1]:
            # `for (; n && *p; --n) handler(.., *p++)`: besides the counter an exit that tests the source byte against NUL
            other_ex = [e for e in L['exits'] if e[0] is not H]
            if len(other_ex) == 1 and any(e[0] is H for e in L['exits']):
                tb = other_ex[0][0].term
                cb = fn.inst_of(tb.ops[0]) if tb.op == 'br' and 'f' in tb.d and tb.ops else None
                if cb is not None and cb.op == 'icmp' and cb.pred in ('ne', 'eq'):
                    z = [o for o in cb.ops if o.k == 'ci' and o.ival == 0]
                    o_ = [o for o in cb.ops if not (o.k == 'ci' and o.ival == 0)]
                    ld = fn.inst_of(self.strip(fn, o_[0])) if len(z) == 1 and len(o_) == 1 else None
                    stay_b = tb.d['t'] if cb.pred == 'ne' else tb.d['f']
                    if ld is not None and ld.op == 'load' and ld.ops[0].k == 'inst' and fn.bmap[stay_b] in L['blocks']:
                        nul = {'block': other_ex[0][0], 'load': ld}
            if nul is None:
                return None
        elif len(L['exits']) != 1 or L['exits'][0][0] is not H or len(L['latches']) != 1:
            return None
        t = H.term
        if t.op != 'br' or 'f' not in t.d or t.ops[0].k != 'inst':
            return None
        c = fn.insts[t.ops[0].id]
        if c.op != 'icmp' or c.pred not in ('ne', 'eq', 'sgt'):
            return None
        zero = [o for o in c.ops if o.k == 'ci' and o.ival == 0]
        other = [o for o in c.ops if not (o.k == 'ci' and o.ival == 0)]
        if len(zero) != 1 or len(other) != 1 or other[0].k != 'inst':
            return None
        if c.pred == 'sgt' and not (c.ops[1].k == 'ci'):
            return None
        stay = t.d['t'] if c.pred in ('ne', 'sgt') else t.d['f']
        if fn.bmap[stay] not in L['blocks']:
            return None
        cnt = fn.insts[other[0].id]
        if cnt.op != 'phi' or cnt.block is not H:
            return None
        latch = L['latches'][0]
        init = step = None
        for (bb, v) in cnt.incoming:
            if bb == latch.name:
                step = v
            else:
                if init is not None:
                    return None
                init = v
        if step is None or init is None or step.k != 'inst':
            return None
        dec = fn.insts[step.id]
        if dec.op != 'add' or dec.ops[0].key() != ('i', cnt.id) or dec.ops[1].k != 'ci' or dec.ops[1].ival != -1:
            return None
        # every other header phi advances by a constant per iteration (a source pointer, a running count)
        call = calls[0]
        srcld = fn.inst_of(self.strip(fn, call.ops[1])) if call.ops[1].k == 'inst' else None
        ptr = pinit = None
        extras = []
        for i in H.insts:
            if i.op != 'phi' or i.id == cnt.id:
                continue
            k = kind = init_v = None
            for (bb, v) in i.incoming:
                if bb == latch.name:
                    g = fn.inst_of(v)
                    if g is None or g.ops[0].key() != ('i', i.id):
                        return None
                    if g.op == 'getelementptr':
                        st_ = g.d['gep']['steps']
                        if len(st_) != 1 or st_[0]['k'] != 'index' or st_[0]['v'].get('k') != 'ci':
                            return None
                        k, kind = int(st_[0]['v'].get('v', 0)) * st_[0]['stride'], 'ptr'
                    elif g.op == 'add' and g.ops[1].k == 'ci':
                        k, kind = g.ops[1].ival, 'int'
                    else:
                        return None
                else:
                    if init_v is not None:
                        return None
                    init_v = v
            if k is None or init_v is None:
                return None
            if srcld is not None and srcld.op == 'load' and srcld.ops[0].key() == ('i', i.id):
                if kind != 'ptr' or k != 1:
                    return None
                ptr, pinit = i, init_v
            else:
                extras.append((i, kind, k))
        if not fn.dominates_block(fn.bmap[stay], call.block):
            return None
        a = call.ops[1]
        src = 'const' if a.k == 'ci' else None
        if src is None:
            li = fn.inst_of(self.strip(fn, a))
            if li is not None and li.op == 'load' and ptr is not None and li.ops[0].key() == ('i', ptr.id):
                src = 'ptr'
            else:
                return None
        if nul is not None and (ptr is None or nul['load'].ops[0].key() != ('i', ptr.id)):
            return None
        return {'kind': 'countdown', 'cnt': cnt, 'dec': dec, 'init': init, 'ptr': ptr, 'pinit': pinit, 'call': call,
                'src': src, 'guard': c.pred, 'exit': L['exits'][0][1], 'extras': extras, 'nulstop': nul}

    def classify_countup(self, fn, L):
        """for (i = a; i < n; ++i) handler(.., c | p[i] | *q++)  -  the counting-up form of an emission loop (the bound is
        loop invariant); summarised like the count-down form with the trip count max(n - a, 0)"""
        H = L['header']
        insts = [i for b in L['blocks'] for i in b.insts if i.op != 'dbg']
        calls = [i for i in insts if i.op in ('call', 'invoke')]
        if len(calls) != 1 or not self.is_handler_call(calls[0]) or any(i.op == 'store' for i in insts):
            return None
        if len(L['exits']) != 1 or L['exits'][0][0] is not H or len(L['latches']) != 1:
            return None
        t = H.term
        if t.op != 'br' or 'f' not in t.d or t.ops[0].k != 'inst':
            return None
        c = fn.insts[t.ops[0].id]
        if c.op != 'icmp' or c.pred not in ('slt', 'sgt'):
            return None
        a, b = (c.ops[0], c.ops[1]) if c.pred == 'slt' else (c.ops[1], c.ops[0])     # a < b
        if fn.bmap[t.d['t']] not in L['blocks']:
            return None
        if a.k != 'inst':
            return None
        cnt = fn.insts[a.id]
        if cnt.op != 'phi' or cnt.block is not H:
            return None
        inl = set(i.id for i in insts)
        if b.k == 'inst' and b.id in inl:
            return None                         # the bound must be loop invariant
        latch = L['latches'][0]
        init = step = None
        for (bb, v) in cnt.incoming:
            if bb == latch.name:
                step = v
            else:
                if init is not None:
                    return None
                init = v
        if step is None or init is None or step.k != 'inst':
            return None
        inc = fn.insts[step.id]
        if inc.op != 'add' or inc.ops[0].key() != ('i', cnt.id) or inc.ops[1].k != 'ci' or inc.ops[1].ival != 1:
            return None
        call = calls[0]
        ptr = pinit = None
        extras = []
        srcld = fn.inst_of(self.strip(fn, call.ops[1])) if call.ops[1].k == 'inst' else None
        for i in H.insts:
            if i.op != 'phi' or i.id == cnt.id:
                continue
            k = kind = init_v = None
            for (bb, v) in i.incoming:
                if bb == latch.name:
                    g = fn.inst_of(v)
                    if g is None or g.ops[0].key() != ('i', i.id):
                        return None
                    if g.op == 'getelementptr':
                        st_ = g.d['gep']['steps']
                        if len(st_) != 1 or st_[0]['k'] != 'index' or st_[0]['v'].get('k') != 'ci':
                            return None
                        k, kind = int(st_[0]['v'].get('v', 0)) * st_[0]['stride'], 'ptr'
                    elif g.op == 'add' and g.ops[1].k == 'ci':
                        k, kind = g.ops[1].ival, 'int'
                    else:
                        return None
                else:
                    if init_v is not None:
                        return None
                    init_v = v
            if k is None or init_v is None:
                return None
            if srcld is not None and srcld.op == 'load' and srcld.ops[0].key() == ('i', i.id):
                if kind != 'ptr' or k != 1:
                    return None
                ptr, pinit = i, init_v
            else:
                extras.append((i, kind, k))
        if not fn.dominates_block(fn.bmap[t.d['t']], call.block):
            return None
        arg = call.ops[1]
        src = 'const' if arg.k == 'ci' else None
        idxbase = None
        if src is None:
            li = fn.inst_of(self.strip(fn, arg))
            if li is not None and li.op == 'load' and ptr is not None and li.ops[0].key() == ('i', ptr.id):
                src = 'ptr'
            elif li is not None and li.op == 'load' and fn.inst_of(li.ops[0]) is not None and \
                    fn.inst_of(li.ops[0]).op == 'getelementptr':
                g = fn.inst_of(li.ops[0])
                st_ = g.d['gep']['steps']
                base = g.ops[0]
                idx = self.strip(fn, V(st_[0]['v'])) if len(st_) == 1 and st_[0]['k'] == 'index' and st_[0]['stride'] == 1 else None
                if idx is not None and idx.key() == ('i', cnt.id) and not (base.k == 'inst' and base.id in inl):
                    src, idxbase = 'idx', base
            if src is None:
                return None
        return {'kind': 'countup', 'cnt': cnt, 'inc': inc, 'init': init, 'bound': b, 'ptr': ptr, 'pinit': pinit,
                'call': call, 'src': src, 'idxbase': idxbase, 'exit': L['exits'][0][1], 'extras': extras}

    def run_countup(self, fn, L, info, st, frm):
        H = L['header']
        inits = self.phi_init(fn, H, st, frm)
        i0 = inits.get(info['cnt'].id)
        bv = self.val(st, info['bound'], fn)
        if not isinstance(i0, Lin) or not isinstance(bv, Lin):
            raise AnalysisBroken('c06_sx: bounds of the counting emission loop %s in %s are not integer forms' % (H.name, fn.name))
        c0 = bv - i0
        out = []
        for s, t in self.branch(st, ('cmp', 'sgt', c0, Lin(0))):
            if not t:
                s.env[('i', info['cnt'].id)] = i0
                if info['ptr'] is not None:
                    s.env[('i', info['ptr'].id)] = inits.get(info['ptr'].id)
                for (ph, kind, k) in info.get('extras', ()):
                    s.env[('i', ph.id)] = inits.get(ph.id)
                out.append((s, H, info['exit']))
                continue
            s.env[('i', info['cnt'].id)] = bv
            if info['src'] == 'const':
                seg = ('c', info['call'].ops[1].ival & 0xff, c0)
            elif info['src'] == 'idx':
                pb = self.val(s, info['idxbase'], fn)
                seg = ('m', P(pb.base, pb.off + i0), c0) if isinstance(pb, P) else ('v', None, c0)
                if isinstance(pb, P) and pb.base[0] == 'a' and self.alloca_size.get(pb.base) is not None:
                    ok = s.cons.entails_le(0, pb.off + i0) and s.cons.entails_le(pb.off + bv, self.alloca_size[pb.base])
                    if not ok:
                        self.loop_opaque(fn, [pb.off + i0, bv])
                    nm = fn.var_name(V({'k': 'inst', 'id': info['cnt'].id})) or info['cnt'].name
                    self.oblige('emit-read', fn, nm, ok, info['call'].where(),
                                None if ok else 'the emission loop reads offsets %r..%r of a %d-byte local buffer'
                                % (pb.off + i0, pb.off + bv, self.alloca_size[pb.base]))
            else:
                p0 = inits.get(info['ptr'].id)
                seg = ('m', p0, c0) if isinstance(p0, P) else ('v', None, c0)
            if info['ptr'] is not None:
                p0 = inits.get(info['ptr'].id)
                s.env[('i', info['ptr'].id)] = P(p0.base, p0.off + c0) if isinstance(p0, P) else None
            for (ph, kind, k) in info.get('extras', ()):
                v0 = inits.get(ph.id)
                if isinstance(v0, Lin):
                    s.env[('i', ph.id)] = v0 + c0 * k
                elif isinstance(v0, P):
                    s.env[('i', ph.id)] = P(v0.base, v0.off + c0 * k)
                else:
                    s.env[('i', ph.id)] = self.top(ph, fn)
            self.emit(s, seg, c0)
            out.append((s, H, info['exit']))
        return out

    def classify_digits(self, fn, L):
        """do { *--p = f(u % b); u /= b; } while (u);   (also the pre-tested while (u) form)"""
        H = L['header']
        insts = [i for b in L['blocks'] for i in b.insts if i.op != 'dbg']
        if any(i.op in ('call', 'invoke') for i in insts):
            return None
        divs = [i for i in insts if i.op == 'udiv']
        rems = [i for i in insts if i.op == 'urem']
        stores = [i for i in insts if i.op == 'store']
        if len(divs) != 1 or len(rems) != 1 or len(stores) != 1 or len(L['exits']) != 1 or len(L['latches']) != 1:
            return None
        div, rem, sto = divs[0], rems[0], stores[0]
        u = fn.inst_of(div.ops[0])
        if u is None or u.op != 'phi' or u.block is not H or rem.ops[0].key() != div.ops[0].key():
            return None
        if self.strip(fn, div.ops[1]).key() != self.strip(fn, rem.ops[1]).key():
            return None
        dv = self.strip(fn, div.ops[1])
        if dv.k == 'inst' and fn.insts[dv.id].block in L['blocks']:
            return None
        latch = L['latches'][0]
        uinit = None
        for (bb, v) in u.incoming:
            if bb == latch.name:
                if v.key() != ('i', div.id):
                    return None
            else:
                uinit = v
        g = fn.inst_of(sto.ops[1])
        if g is None or g.op != 'getelementptr':
            return None
        p = fn.inst_of(g.ops[0])
        st_ = g.d['gep']['steps']
        idx = None
        if p is not None and p.op == 'phi' and p.block is H:
            # pointer form  *--p = c
            if len(st_) != 1 or st_[0]['stride'] != 1 or st_[0]['v'].get('v') != -1:
                return None
            pinit = None
            for (bb, v) in p.incoming:
                if bb == latch.name:
                    if v.key() != ('i', g.id):
                        return None
                else:
                    pinit = v
        else:
            # index form  pos -= 1; buf[pos] = c   with a loop-invariant base
            if p is not None and p.block in L['blocks']:
                return None
            if not st_ or st_[-1]['k'] != 'index' or st_[-1]['stride'] != 1 or st_[-1]['v'].get('k') != 'inst':
                return None
            if any(x['k'] == 'index' and x['v'].get('k') != 'ci' for x in st_[:-1]):
                return None
            cast = None
            dec = fn.insts[st_[-1]['v']['id']]
            if dec.op in ('sext', 'zext'):
                cast, dec = dec, fn.inst_of(dec.ops[0])
            if dec is None or dec.ops[1].k != 'ci' or (dec.op, dec.ops[1].ival) not in (('add', -1), ('sub', 1)):
                return None
            pos = fn.inst_of(dec.ops[0])
            if pos is None or pos.op != 'phi' or pos.block is not H:
                return None
            pinit = None
            for (bb, v) in pos.incoming:
                if bb == latch.name:
                    if v.key() != ('i', dec.id):
                        return None
                else:
                    pinit = v
            idx = {'pos': pos, 'dec': dec, 'cast': cast}
            p = pos
        (eb, et) = L['exits'][0]
        t = eb.term
        if t.op != 'br' or 'f' not in t.d or t.ops[0].k != 'inst':
            return None
        c = fn.insts[t.ops[0].id]
        if c.op != 'icmp' or c.pred not in ('ne', 'eq'):
            return None
        zero = [o for o in c.ops if o.k == 'ci' and o.ival == 0]
        other = [o for o in c.ops if not (o.k == 'ci' and o.ival == 0)]
        if len(zero) != 1 or len(other) != 1:
            return None
        stay = t.d['t'] if c.pred == 'ne' else t.d['f']
        if fn.bmap[stay] not in L['blocks']:
            return None
        if eb is latch and other[0].key() == ('i', div.id):
            form = 'do-while'
        elif eb is H and other[0].key() == ('i', u.id):
            form = 'while'
        else:
            return None
        return {'kind': 'digits', 'u': u, 'uinit': uinit, 'div': div, 'rem': rem, 'store': sto, 'gep': g, 'p': p,
                'pinit': pinit, 'divisor': dv, 'form': form, 'exit': et, 'exit_from': eb, 'idx': idx}

    def run_loop(self, fn, L, st, frm, rets):
        info = self.classify(fn, L)
        if info['kind'] == 'countdown':
            return self.run_countdown(fn, L, info, st, frm)
        if info['kind'] == 'countup':
            return self.run_countup(fn, L, info, st, frm)
        if info['kind'] == 'digits':
            return self.run_digits(fn, L, info, st, frm)
        if self.static_exit is not None and not info['emits'] and self.static_exit(fn, L):
            return self.run_static(fn, L, st, frm, rets)
        if not info['emits']:
            # does the first pass leave the loop on every path?  then that pass is the whole loop
            trial = st.fork()
            for ph, v in self.phi_init(fn, L['header'], trial, frm).items():
                trial.env[('i', ph)] = v
            self.recording += 1
            try:
                latches, exits = self.run_region(fn, L, [(trial, frm)], [])
            except AnalysisBroken:
                latches = [None]
            finally:
                self.recording -= 1
            if not latches:
                return self.run_static(fn, L, st, frm, rets)
        return self.run_generic(fn, L, info, st, frm, rets)

    def run_static(self, fn, L, st, frm, rets):
        """a loop all of whose exit tests are loop-invariant either leaves during its first pass or never: the exit
        states are those of one pass from the entry values (the paths that reach the latch do not return)"""
        for ph, v in self.phi_init(fn, L['header'], st, frm).items():
            st.env[('i', ph)] = v
        latches, exits = self.run_region(fn, L, [(st, frm)], rets)
        return exits

    def phi_init(self, fn, H, st, frm):
        inits = {}
        for i in H.insts:
            if i.op == 'phi':
                for (bb, v) in i.incoming:
                    if bb == frm.name:
                        inits[i.id] = self.val(st, v, fn)
        return inits

    def run_countdown(self, fn, L, info, st, frm):
        H = L['header']
        if info['ptr'] is not None and info['pinit'] is not None and info['pinit'].k in ('inst', 'arg') and \
                isinstance(st.env.get(info['pinit'].key()), Sel):
            out = []
            for s in self.force_key(st, fn, info['pinit']):
                out.extend(self.run_countdown(fn, L, info, s, frm))
            return out
        inits = self.phi_init(fn, H, st, frm)
        c0 = inits.get(info['cnt'].id)
        if not isinstance(c0, Lin):
            raise AnalysisBroken('c06_sx: count of emission loop %s in %s is not an integer form' % (H.name, fn.name))
        name = fn.var_name(V({'k': 'inst', 'id': info['cnt'].id})) or info['cnt'].name
        if info['guard'] == 'sgt':
            out = []
            for s, t in self.branch(st, ('cmp', 'sgt', c0, Lin(0))):
                if t:
                    out.extend(self.finish_countdown(fn, info, s, c0, inits))
                else:
                    s.env[('i', info['cnt'].id)] = c0
                    if info['ptr'] is not None:
                        s.env[('i', info['ptr'].id)] = inits.get(info['ptr'].id)
                    for (ph, kind, k) in info.get('extras', ()):
                        s.env[('i', ph.id)] = inits.get(ph.id)
                    out.append((s, H, info['exit']))
            return out
        name = self.loop_key(fn, L, name)
        ok = st.cons.entails_le(0, c0)
        self.oblige('count-nonneg', fn, name, ok, info['call'].where(),
                    None if ok else 'the emission loop counts %s down to zero; its initial value %r can be negative here '
                    '(then the loop wraps around and calls the output callback about 2^32 times)' % (name, c0))
        if not ok:
            st.cons.add_le(0, c0)
            if not self.feasible(st, set(c0.t.keys())):
                return []
        return self.finish_countdown(fn, info, st, c0, inits)

    def loop_key(self, fn, L, name):
        """stable-ish identity of an emission loop: counter variable name + ordinal among the loops counting the same variable"""
        tab = getattr(fn, '_sx_loopkeys', None)
        if tab is None:
            tab = fn._sx_loopkeys = {}
            seen = {}
            order = {b: n for n, b in enumerate(fn.rpo)}
            for L2 in sorted(fn.loops, key=lambda l: order.get(l['header'], 0)):
                inf = self.classify(fn, L2)
                if inf['kind'] == 'countdown':
                    nm = fn.var_name(V({'k': 'inst', 'id': inf['cnt'].id})) or inf['cnt'].name
                    seen[nm] = seen.get(nm, 0) + 1
                    tab[L2['header'].name] = '%s#%d' % (nm, seen[nm])
        return tab.get(L['header'].name, name)

    def nul_free(self, st, p0, c0):
        """True: no NUL among the c0 bytes at p0 (c0 is the strlen/strnlen of exactly that pointer, or the bytes are known);
        a Lin: c0 == 1 and that is the value of the one byte; None: unknown"""
        if c0.is_const() and c0.c == 0:
            return True
        if isinstance(p0, P):
            if len(c0.t) == 1 and c0.c == 0 and list(c0.t.values()) == [1]:
                d = self.describe_opq(next(iter(c0.t)))
                if d is not None and d[0] in ('strlen', 'strnlen') and d[1] == vkey(p0):
                    return True
            if p0.base in self.cstr:
                if st.cons.entails_le(p0.off + c0, Lin.sym(self.cstr[p0.base])):
                    return True
                return ('first-nul-at', Lin.sym(self.cstr[p0.base]) - p0.off)
            n = self.const_strlen(p0)
            if n is not None and st.cons.entails_le(c0, n):
                return True
            if c0.is_const() and c0.c == 1 and p0.base[0] == 'a' and p0.off.is_const():
                v = st.mem.get((p0.base, p0.off.c, 1))
                if isinstance(v, Lin):
                    return v
        return None

    def loop_opaque(self, fn, lins):
        """a count or offset that is the exit value of a loop the executor only over-approximates (a hand-written copy / scan
        that the summariser does not know) is unknown: an extent computed from it is not a verdict"""
        if self.recording or not getattr(self, 'guard_opaque_reads', True):
            return
        for x in lins:
            if isinstance(x, Lin):
                for sy in x.t:
                    d = self.describe_opq(sy) if isinstance(sy, str) else None
                    if d is not None and d[0] in ('h', 'hE', 'hp', 'j', 'jE'):
                        raise AnalysisBroken('c06_sx: %s: an emission count is the value a loop of %s leaves in %r, which is not '
                                             'summarised' % (fn.name, d[1], d[2:]))

    def describe_opq(self, sym):
        for desc, n in self.intern.items():
            if 'q%d' % n == sym:
                return desc
        return None

    def finish_countdown(self, fn, info, st, c0, inits):
        H = info['cnt'].block
        if info.get('nulstop') and not self.recording:
            nm = fn.var_name(V({'k': 'inst', 'id': info['cnt'].id})) or info['cnt'].name
            key = 'all counted characters are emitted (%s)' % self.loop_key(fn, {'header': H}, nm)
            p0 = inits.get(info['ptr'].id)
            nf = self.nul_free(st, p0, c0)
            if nf is None:
                raise AnalysisBroken('c06_sx: the emission loop %s of %s also stops at a NUL byte of its source and whether one '
                                     'lies among the %r counted bytes is not known here' % (H.name, fn.name, c0))
            if isinstance(nf, tuple):
                # the source is a C string whose terminator is d bytes ahead: the loop emits min(c0, d) characters
                d = nf[1]
                out = []
                for s, t in self.branch(st, ('cmp', 'sle', c0, d)):
                    info2 = dict(info)
                    info2['nulstop'] = None
                    if t:
                        out.extend(self.finish_countdown(fn, info2, s, c0, inits))
                        continue
                    self.oblige('emit-complete', fn, key, False, info['call'].where(),
                                'the emission loop counts %r character(s) but also stops at a NUL byte of its source, which '
                                'lies %r bytes ahead here: the characters from the NUL on are not handed to the output callback '
                                'although they were counted (ISO C: %%c emits the NUL character)' % (c0, d))
                    for (s3, H3, ex3) in self.finish_countdown(fn, info2, s, d, inits):
                        s3.env[('i', info['cnt'].id)] = c0 - d
                        out.append((s3, info['nulstop']['block'], ex3))
                return out
            if nf is not True:
                out = []
                for s, t in self.branch(st, ('cmp', 'eq', nf, Lin(0))):
                    if t:
                        self.oblige('emit-complete', fn, key, False, info['call'].where(),
                                    'the emission loop counts %r character(s) but also stops at a NUL byte of its source: the '
                                    'character with value 0 is not handed to the output callback although it was counted (ISO C: '
                                    '%%c emits the NUL character)' % (c0,))
                        s.env[('i', info['cnt'].id)] = c0
                        s.env[('i', info['ptr'].id)] = p0
                        for (ph, kind, k) in info.get('extras', ()):
                            s.env[('i', ph.id)] = inits.get(ph.id)
                        out.append((s, info['nulstop']['block'], info['exit']))
                    else:
                        info2 = dict(info)
                        info2['nulstop'] = None
                        out.extend(self.finish_countdown(fn, info2, s, c0, inits))
                return out
            self.oblige('emit-complete', fn, key, True, info['call'].where())
        st.env[('i', info['cnt'].id)] = Lin(0)
        if info['dec'].block is H:
            st.env[('i', info['dec'].id)] = Lin(-1)
        if info['src'] == 'const':
            seg = ('c', info['call'].ops[1].ival & 0xff, c0)
        else:
            p0 = inits.get(info['ptr'].id)
            seg = ('m', p0, c0) if isinstance(p0, P) else ('v', None, c0)
        if info['ptr'] is not None:
            p0 = inits.get(info['ptr'].id)
            st.env[('i', info['ptr'].id)] = P(p0.base, p0.off + c0) if isinstance(p0, P) else None
            if isinstance(p0, P) and p0.base[0] == 'a' and self.alloca_size.get(p0.base) is not None:
                ok = st.cons.entails_le(0, p0.off) and st.cons.entails_le(p0.off + c0, self.alloca_size[p0.base])
                if not ok:
                    self.loop_opaque(fn, [c0, p0.off])
                nm = fn.var_name(V({'k': 'inst', 'id': info['cnt'].id})) or info['cnt'].name
                self.oblige('emit-read', fn, self.loop_key(fn, {'header': H}, nm), ok, info['call'].where(),
                            None if ok else 'the emission loop reads %r bytes at offset %r of a %d-byte local buffer'
                            % (c0, p0.off, self.alloca_size[p0.base]))
        for (ph, kind, k) in info.get('extras', ()):
            v0 = inits.get(ph.id)
            if isinstance(v0, Lin):
                st.env[('i', ph.id)] = v0 + c0 * k
            elif isinstance(v0, P):
                st.env[('i', ph.id)] = P(v0.base, v0.off + c0 * k)
            else:
                st.env[('i', ph.id)] = self.top(ph, fn)
        self.emit(st, seg, c0)
        return [(st, H, info['exit'])]

    def run_digits(self, fn, L, info, st, frm):
        H = L['header']
        inits = self.phi_init(fn, H, st, frm)
        p0 = inits.get(info['p'].id)
        u0 = inits.get(info['u'].id)
        d = self.val(st, info['divisor'], fn)
        ix = info.get('idx')
        pos0 = None
        if ix is not None:
            # index form: the address written in the first pass is base[pos0 - 1]; p0 is the address of base[pos0]
            pos0 = p0
            if not isinstance(pos0, Lin):
                raise AnalysisBroken('c06_sx: digit loop of %s is indexed by a value that is not tracked' % fn.name)
            t = st.fork()
            t.env[('i', ix['dec'].id)] = pos0
            if ix['cast'] is not None:
                t.env[('i', ix['cast'].id)] = pos0
            p0 = self.gep(t, self.val(t, info['gep'].ops[0], fn), info['gep'].d['gep'], fn)
        if not isinstance(p0, P):
            raise AnalysisBroken('c06_sx: digit loop of %s does not write through a tracked pointer' % fn.name)
        nd = Lin.sym(self.opq('ndigits', fn.name, H.name))
        maxd = 64
        if isinstance(d, Lin) and d.is_const() and d.c >= 2:
            maxd, x = 0, (1 << 64) - 1
            while x:
                x //= d.c
                maxd += 1
        lo = 1 if info['form'] == 'do-while' else 0
        st.pins = st.pins | frozenset(nd.t.keys())
        st.cons.add_le(lo, nd)
        st.cons.add_le(nd, maxd)
        out = [st]
        if info['form'] == 'while' and isinstance(u0, Lin):
            # zero iterations exactly when the value is zero
            out = []
            for s, t in self.branch(st, ('cmp', 'eq', u0, Lin(0))):
                if t:
                    s.cons.add_eq(nd, 0)
                else:
                    s.cons.add_le(1, nd)
                out.append(s)
        self.probe_digits(fn, L, info, st, frm, p0, d)
        res = []
        for s in out:
            ok = s.cons.entails_le(0, p0.off - nd)
            self.oblige('digit-store', fn, 'lowest digit position >= 0', ok, info['store'].where(),
                        None if ok else 'the digit loop stores up to %d characters below offset %r of its buffer' % (maxd, p0.off))
            s.env[('i', info['gep'].id)] = P(p0.base, p0.off - nd)
            if ix is None:
                s.env[('i', info['p'].id)] = P(p0.base, p0.off - nd + 1)
            else:
                s.env[('i', ix['pos'].id)] = pos0 - nd + 1
                s.env[('i', ix['dec'].id)] = pos0 - nd
                if ix['cast'] is not None:
                    s.env[('i', ix['cast'].id)] = pos0 - nd
            s.env[('i', info['div'].id)] = Lin(0)
            s.env[('i', info['u'].id)] = Lin.sym(self.opq('ulast', fn.name, H.name))
            s.notes = s.notes + (('digits', fn.name, p0, nd, u0 if isinstance(u0, Lin) else None,
                                  d if isinstance(d, Lin) else None),)
            res.append((s, info['exit_from'], info['exit']))
        return res

    def probe_digits(self, fn, L, info, st, frm, p0, d):
        """one symbolic pass through the body of the digit loop: which character is stored for which remainder"""
        if self.recording:
            return
        inits_pos = self.phi_init(fn, L['header'], st, frm).get(info['p'].id) if info.get('idx') is not None else None
        h = st.fork()
        for ph in [i for i in L['header'].insts if i.op == 'phi']:
            if ph.id == info['u'].id:
                h.env[('i', ph.id)] = Lin.sym(self.opq('uprobe', fn.name))
            elif ph.id == info['p'].id:
                h.env[('i', ph.id)] = p0 if info.get('idx') is None else inits_pos
            else:
                h.env[('i', ph.id)] = self.top(ph, fn)
        log, self.store_log = self.store_log, []
        self.recording += 1
        try:
            self.run_region(fn, L, [(h, frm)], [])
            for (i, p, v, s) in self.store_log:
                if i.id == info['store'].id:
                    self.digit_probes.append((fn.name, v, s.env.get(('i', info['rem'].id)), s, vkey(d), d))
        finally:
            self.recording -= 1
            self.store_log = log

    def run_generic(self, fn, L, info, st, frm, rets):
        H = L['header']
        phis = [i for i in H.insts if i.op == 'phi']
        inits = self.phi_init(fn, H, st, frm)
        emits = info['emits']
        tag = (fn.name, H.name)
        # allocas written in the loop are forgotten
        for b in L['blocks']:
            for i in b.insts:
                if i.op == 'store' or i.op == 'call':
                    for o in i.ops:
                        if o.k == 'inst':
                            pv = st.env.get(o.key())
                            if isinstance(pv, P) and pv.base[0] == 'a':
                                for k in [k for k in st.mem if k[0] == pv.base]:
                                    del st.mem[k]
        hs = {}       # phi id -> (symbol Lin, init Lin) for linear-valued phis
        E0 = st.E
        hE = Lin.sym(self.opq('hE', fn.name, H.name))

        def head_state():
            h = st.fork()
            for ph in phis:
                v0 = inits.get(ph.id)
                sym = Lin.sym(self.opq('h', fn.name, ph.id))
                if (fn.name, ph.id) in self.bitword_phis:
                    h.env[('i', ph.id)] = self.bits_of(h, self.opq('h', fn.name, ph.id), self.bitword_phis[(fn.name, ph.id)])
                elif isinstance(v0, Lin):
                    h.env[('i', ph.id)] = sym
                    hs[ph.id] = (sym, v0)
                elif isinstance(v0, P) and ph.id not in badptr:
                    h.env[('i', ph.id)] = P(v0.base, sym)
                    hs[ph.id] = (sym, v0.off)
                elif isinstance(v0, P):
                    h.env[('i', ph.id)] = P(('o', self.opq('hp', fn.name, ph.id)))
                else:
                    h.env[('i', ph.id)] = self.top(ph, fn)
            if emits:
                h.E = hE
                h.cons.add_le(E0, hE)
            pins = set(st.pins)
            for (sym, v0) in hs.values():
                pins.update(sym.t.keys())
                pins.update(v0.t.keys())
            pins.update(E0.t.keys())
            pins.update(hE.t.keys())
            h.pins = frozenset(pins)
            h.segs = st.segs + (('loop', fn.name, H.name),) if emits else st.segs
            return h
        badptr = set()
        cands = None
        havoc = any((fn.name, b.name) in self.cut_blocks for b in L['blocks'])
        for rnd in range(40):
            hs.clear()
            h = head_state()
            if cands is None:
                cands = self.candidates(fn, L, st, h, hs, E0, hE if emits else E0)
                # keep candidates that hold on entry
                sub0 = {next(iter(sym.t)): v0 for (sym, v0) in hs.values()}
                if emits:
                    sub0[next(iter(hE.t))] = E0
                cands = [(d, c) for (d, c) in cands if all(st.cons.entails(x.subst(sub0)) for x in c)]
                if havoc:
                    # the body is cut short: not every latch is reached, so no invariant can be established
                    cands = []
            for (d, c) in cands:
                for x in c:
                    h.cons.add(x)
            self.recording += 1
            try:
                body_rets = []
                latches, exits = self.run_region(fn, L, [(h, frm)], body_rets)
            finally:
                self.recording -= 1
            redo = False
            for (T, lf) in latches:
                for ph in phis:
                    if ph.id in hs and isinstance(inits.get(ph.id), P):
                        for (bb, v) in ph.incoming:
                            if bb == lf.name:
                                lv = self.val(T, v, fn)
                                if not (isinstance(lv, P) and lv.base == inits[ph.id].base) and ph.id not in badptr:
                                    badptr.add(ph.id)
                                    redo = True
            if redo:
                cands = None
                continue
            keep = []
            for (d, c) in cands:
                ok = True
                for (T, lf) in latches:
                    sub = {}
                    miss = False
                    for ph in phis:
                        if ph.id not in hs:
                            continue
                        for (bb, v) in ph.incoming:
                            if bb == lf.name:
                                lv = self.val(T, v, fn)
                                if isinstance(lv, P):
                                    lv = lv.off
                                if not isinstance(lv, Lin):
                                    miss = True
                                else:
                                    sub[next(iter(hs[ph.id][0].t))] = lv
                    if emits:
                        sub[next(iter(hE.t))] = T.E
                    if miss or not all(T.cons.entails(x.subst(sub)) for x in c):
                        ok = False
                        self.dropped.setdefault(tag, []).append((d, T.notes))
                        break
                if ok:
                    keep.append((d, c))
            if len(keep) == len(cands):
                break
            cands = keep
        else:
            raise AnalysisBroken('c06_sx: loop invariant inference did not converge in %s (%s)' % (fn.name, H.name))
        hs.clear()
        h = head_state()
        for (d, c) in cands:
            for x in c:
                h.cons.add(x)
        latches, exits = self.run_region(fn, L, [(h, frm)], rets)
        if not self.recording:
            self.iter_states[tag] = [T for (T, lf) in latches]
        for (s, f, t) in exits:
            s.pins = st.pins
        return exits

    def candidates(self, fn, L, st, h, hs, E0, hE):
        out = []
        invs = []
        for b in L['blocks']:
            for i in b.insts:
                if i.op == 'icmp':
                    for o in i.ops:
                        if o.k == 'arg' or (o.k == 'inst' and fn.insts[o.id].block not in L['blocks']):
                            v = st.env.get(o.key())
                            if isinstance(v, P):
                                invs.append(('p', v.base, v.off))
                            elif isinstance(v, Lin):
                                invs.append(('i', None, v))
        for pid, (sym, v0) in hs.items():
            isptr = isinstance(h.env[('i', pid)], P)
            base = h.env[('i', pid)].base if isptr else None
            if hE is not E0:
                out.append((('tracks-emission', pid), [(sym - hE) - (v0 - E0), (v0 - E0) - (sym - hE)]))
            out.append((('nondecreasing', pid), [v0 - sym]))
            out.append((('nonincreasing', pid), [sym - v0]))
            for (kind, b2, iv) in invs:
                if (kind == 'p') != isptr or (isptr and b2 != base):
                    continue
                out.append((('le-inv', pid, iv.key()), [sym - iv]))
                out.append((('ge-inv', pid, iv.key()), [iv - sym]))
        return out
