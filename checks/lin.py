"""Linear forms over integer symbols and a small constraint domain:
conjunctions of linear inequalities  (sum a_i*x_i + c <= 0)  over integer
valued symbols, with entailment decided *inside the domain* by
Fourier-Motzkin elimination with integer tightening (no external solver).
"""
from math import gcd
from functools import reduce


class Lin:
    """immutable linear form  c + sum coef*sym ; syms are hashable"""
    __slots__ = ('c', 't', '_h', '_fm')

    def __init__(self, c=0, t=None):
        self.c = c
        if t:
            self.t = {k: v for k, v in t.items() if v != 0}
        else:
            self.t = {}
        self._h = None
        self._fm = None

    @staticmethod
    def sym(s):
        return Lin(0, {s: 1})

    @staticmethod
    def const(c):
        return Lin(c)

    def is_const(self):
        return not self.t

    def syms(self):
        return self.t.keys()

    def __add__(self, o):
        if isinstance(o, int):
            return Lin(self.c + o, self.t)
        t = dict(self.t)
        for k, v in o.t.items():
            t[k] = t.get(k, 0) + v
        return Lin(self.c + o.c, t)

    __radd__ = __add__

    def __neg__(self):
        return Lin(-self.c, {k: -v for k, v in self.t.items()})

    def __sub__(self, o):
        if isinstance(o, int):
            return Lin(self.c - o, self.t)
        return self + (-o)

    def __rsub__(self, o):
        return (-self) + o

    def __mul__(self, k):
        if isinstance(k, Lin):
            if k.is_const():
                k = k.c
            elif self.is_const():
                return k * self.c
            else:
                raise ValueError('nonlinear')
        return Lin(self.c * k, {s: v * k for s, v in self.t.items()})

    __rmul__ = __mul__

    def divisible(self, k):
        return self.c % k == 0 and all(v % k == 0 for v in self.t.values())

    def div_exact(self, k):
        return Lin(self.c // k, {s: v // k for s, v in self.t.items()})

    def subst(self, m):
        """m: sym -> Lin"""
        r = Lin(self.c)
        for s, v in self.t.items():
            if s in m:
                r = r + m[s] * v
            else:
                r = r + Lin(0, {s: v})
        return r

    def key(self):
        if self._h is None:
            self._h = (self.c, tuple(sorted(self.t.items(), key=lambda kv: str(kv[0]))))
        return self._h

    def __eq__(self, o):
        return isinstance(o, Lin) and self.c == o.c and self.t == o.t

    def __hash__(self):
        return hash(self.key())

    def __repr__(self):
        parts = []
        for s, v in sorted(self.t.items(), key=lambda kv: str(kv[0])):
            if v == 1:
                parts.append('+%s' % (s,))
            elif v == -1:
                parts.append('-%s' % (s,))
            else:
                parts.append('%+d*%s' % (v, s))
        if self.c or not parts:
            parts.append('%+d' % self.c)
        r = ''.join(parts)
        return r[1:] if r.startswith('+') else r


def normalize(l):
    """normalize constraint l <= 0 over integers: divide by gcd, tighten"""
    if not l.t:
        return l
    g = reduce(gcd, (abs(v) for v in l.t.values()))
    if g > 1:
        # sum (a_i/g) x_i <= floor(-c/g)
        c = -((-l.c) // g)
        return Lin(c, {s: v // g for s, v in l.t.items()})
    return l


FM_LIMIT = 4000


class TooHard(Exception):
    pass


_SYMID = {}


def _sid(s):
    i = _SYMID.get(s)
    if i is None:
        i = len(_SYMID) + 1
        _SYMID[s] = i
    return i


def _rep(l):
    """normalised integer-id representation of constraint l <= 0, cached on
    the (immutable) Lin: (tuple of (symid, coef) sorted by id, const)"""
    r = getattr(l, '_fm', None)
    if r is None:
        n = normalize(l)
        r = (tuple(sorted((_sid(s), v) for s, v in n.t.items())), n.c)
        try:
            l._fm = r
        except AttributeError:
            pass
    return r


_FM_MEMO = {}
_FM_MEMO_MAX = 200000


def _fm_unsat(cons, limit=FM_LIMIT):
    """cons: list of Lin meaning lin <= 0. Returns True if provably
    unsatisfiable over the integers (sound: True only if really unsat);
    False if satisfiable over rationals after tightening.  Raises TooHard."""
    cur = {}
    for l in cons:
        k, c = _rep(l)
        if not k:
            if c > 0:
                return True
            continue
        o = cur.get(k)
        if o is None or o < c:
            cur[k] = c
    mk = frozenset(cur.items())
    hit = _FM_MEMO.get(mk)
    if hit is not None:
        if hit == 2:
            raise TooHard()
        return hit == 1
    try:
        r = _fm_core(cur, limit)
    except TooHard:
        if len(_FM_MEMO) < _FM_MEMO_MAX:
            _FM_MEMO[mk] = 2
        raise
    if len(_FM_MEMO) < _FM_MEMO_MAX:
        _FM_MEMO[mk] = 1 if r else 0
    return r


def _subst_equalities(cur):
    """Gaussian pre-pass: an equality  sum a_i x_i + c == 0  (both l <= 0 and -l <= 0 present) with a unit
    coefficient on some x is used to eliminate x everywhere (exact over the integers); afterwards every
    constraint is re-normalised, so parity information (x == 2q+1) turns into integer tightening."""
    for _ in range(12):
        eq = None
        for k, c in cur.items():
            nk = tuple((s, -v) for s, v in k)
            if cur.get(nk) == -c:
                for s, v in k:
                    if v == 1 or v == -1:
                        eq = (k, c, s, v)
                        break
            if eq:
                break
        if not eq:
            return cur
        k, c, x, a = eq
        # x = -(1/a) * (rest + c)  with a = +-1  ->  x = -a*(rest + c)
        rest = {s: v for s, v in k if s != x}
        new = {}
        for k2, c2 in cur.items():
            co = 0
            for s, v in k2:
                if s == x:
                    co = v
                    break
            if co == 0:
                t = dict(k2)
                cc = c2
            else:
                t = {s: v for s, v in k2 if s != x}
                f = -a * co
                for s, v in rest.items():
                    nv = t.get(s, 0) + f * v
                    if nv:
                        t[s] = nv
                    elif s in t:
                        del t[s]
                cc = c2 + f * c
            if not t:
                if cc > 0:
                    return None
                continue
            g = 0
            for v in t.values():
                g = gcd(g, v)
            if g > 1:
                cc = -((-cc) // g)
                kk = tuple(sorted((s, v // g) for s, v in t.items()))
            else:
                kk = tuple(sorted(t.items()))
            o = new.get(kk)
            if o is None or o < cc:
                new[kk] = cc
        cur = new
    return cur


def _fm_core(cur, limit):
    cur = _subst_equalities(cur)
    if cur is None:
        return True
    while True:
        if not cur:
            return False
        pos = {}
        neg = {}
        mx = {}
        for k in cur:
            for s, v in k:
                if v > 0:
                    pos[s] = pos.get(s, 0) + 1
                    if mx.get(s, 0) < v:
                        mx[s] = v
                else:
                    neg[s] = neg.get(s, 0) + 1
                    if mx.get(s, 0) < -v:
                        mx[s] = -v
        # drop constraints with pure variables
        pure = set(s for s in mx if s not in pos or s not in neg)
        if pure:
            cur = {k: c for k, c in cur.items() if not any(s in pure for s, _ in k)}
            continue
        # variables with large coefficients (carry symbols of modular
        # arithmetic) are eliminated last so that the single-variable
        # constraints left on them get integer-tightened
        best = min(mx, key=lambda s: (mx[s] >= 128, pos[s] * neg[s] - pos[s] - neg[s]))
        P = []
        N = []
        rest = {}
        for k, c in cur.items():
            co = 0
            for s, v in k:
                if s == best:
                    co = v
                    break
            if co == 0:
                rest[k] = c
            elif co > 0:
                P.append((co, k, c))
            else:
                N.append((-co, k, c))
        if len(rest) + len(P) * len(N) > limit:
            raise TooHard()
        for a, kp, cp in P:
            for b, kn, cn in N:
                t = {}
                for s, v in kp:
                    if s != best:
                        t[s] = v * b
                for s, v in kn:
                    if s != best:
                        nv = t.get(s, 0) + v * a
                        if nv:
                            t[s] = nv
                        elif s in t:
                            del t[s]
                c = cp * b + cn * a
                if not t:
                    if c > 0:
                        return True
                    continue
                g = 0
                for v in t.values():
                    g = gcd(g, v)
                    if g == 1:
                        break
                if g > 1:
                    c = -((-c) // g)
                    k = tuple(sorted((s, v // g) for s, v in t.items()))
                else:
                    k = tuple(sorted(t.items()))
                o = rest.get(k)
                if o is None or o < c:
                    rest[k] = c
        cur = rest


def cone(cons, seed_syms):
    """constraints transitively sharing symbols with seed_syms"""
    syms = set(seed_syms)
    remaining = list(cons)
    picked = []
    changed = True
    while changed:
        changed = False
        nxt = []
        for l in remaining:
            if any(s in syms for s in l.t):
                picked.append(l)
                for s in l.t:
                    if s not in syms:
                        syms.add(s)
                        changed = True
            else:
                nxt.append(l)
        remaining = nxt
    return picked


class Cons:
    """a conjunction of inequalities lin <= 0"""

    def __init__(self, items=None, keys=None, cache=None):
        self.items = list(items) if items else []
        self.keys = set(keys) if keys else set(l.key() for l in self.items)
        # entailment memo: query key -> (number of constraints when decided, result).
        # A positive answer stays valid when constraints are added (monotone);
        # a negative one only while the set is unchanged.
        self.cache = dict(cache) if cache else {}

    def copy(self):
        return Cons(self.items, self.keys, self.cache)

    def add(self, l):
        """add l <= 0"""
        l = normalize(l)
        if not l.t:
            if l.c > 0:
                # contradiction: keep it so unsat() sees it
                k = l.key()
                if k not in self.keys:
                    self.keys.add(k)
                    self.items.append(l)
            return
        k = l.key()
        if k not in self.keys:
            self.keys.add(k)
            self.items.append(l)

    def add_le(self, a, b):
        """a <= b"""
        self.add(_L(a) - _L(b))

    def add_lt(self, a, b):
        self.add(_L(a) - _L(b) + 1)

    def add_eq(self, a, b):
        self.add(_L(a) - _L(b))
        self.add(_L(b) - _L(a))

    def entails(self, l):
        """cons |= l <= 0 ?  (sound; incomplete)"""
        l = normalize(l)
        if not l.t:
            return l.c <= 0 or self.unsat()
        qk = l.key()
        if qk in self.keys:
            return True
        hit = self.cache.get(qk)
        if hit is not None and (hit[1] or hit[0] == len(self.items)):
            return hit[1]
        r = self._entails(l)
        self.cache[qk] = (len(self.items), r)
        return r

    def _entails(self, l):
        neg = (-l) + 1      # l >= 1
        # iterative deepening over the constraint neighbourhood of the query:
        # any subset of the constraints that refutes the negation is a proof
        syms = set(l.t.keys())
        used = []
        rest = self.items
        last = -1
        for depth in range(6):
            nxt = []
            add = []
            for c in rest:
                if any(s in syms for s in c.t):
                    add.append(c)
                else:
                    nxt.append(c)
            if not add and depth > 0:
                break
            used.extend(add)
            rest = nxt
            for c in add:
                syms.update(c.t.keys())
            if len(used) == last:
                break
            last = len(used)
            try:
                if _fm_unsat(used + [neg], 3000):
                    return True
            except TooHard:
                return False
        return False

    def entails_le(self, a, b):
        return self.entails(_L(a) - _L(b))

    def entails_lt(self, a, b):
        return self.entails(_L(a) - _L(b) + 1)

    def entails_eq(self, a, b):
        return self.entails_le(a, b) and self.entails_le(b, a)

    def unsat(self):
        # check per connected component would be cheaper; whole set is fine
        for l in self.items:
            if not l.t and l.c > 0:
                return True
        try:
            return _fm_unsat(self.items)
        except TooHard:
            return False

    def syms(self):
        s = set()
        for l in self.items:
            s.update(l.t.keys())
        return s

    def __repr__(self):
        return ' & '.join('%r<=0' % l for l in self.items)


def _L(x):
    return x if isinstance(x, Lin) else Lin(x)
