"""C19 extension: CONTENT clauses of the text utilities (called at the end of c19.run as run_ext).

Technique: abstract interpretation (checks/absint.py) over a *segmented content model* of the read-only text.  The
C-string model of the engine says "bytes before position n are non-zero, the byte at n is zero"; the model used here
generalises it: the text handed to the routine is a sequence of runs

        run_0 ^ len_0  .  run_1 ^ len_1  . ...                (len_i symbolic, some >= 0, some >= 1, some == 1)

and every run has a byte class (one of a finite set of values, a value different from given values, a copy of the run at
the same distance in another text).  A byte load at a symbolic offset splits the state on the run the offset lies in (as
the C-string model splits on "before / at the terminator"), the loaded byte is one symbol per position (a position read
twice yields the same symbol, facts from branches stay attached to it).  Every input of the routines below has such a
decomposition (e.g. for trim: white space, first non-space, anything, last non-space, white space), so a scenario is a
statement about ALL inputs of that shape, of all lengths; the expected result is then a closed form in the run lengths
(start == a, length == m + 2).  Nothing is executed; loops are closed by the engine's Houdini invariants, the decision
procedure is the linear domain's own Fourier-Motzkin entailment.
"""
from common import *
import os
from c19_ext import Run19, chain, sized_params, fixed_args, LIBC_EXT, ext_std, cstr_read, _u, const_string
from absint import Interp
from absval import IntVal, PtrVal, NULL, mk_const
from lin import Lin, _L
from irlib import AnalysisBroken

ONLY = os.environ.get('C19_CONTENT_ONLY')      # developer aid: run only the scenarios whose name contains this text
WS4 = (32, 10, 13, 9)            # ' ' '\n' '\r' '\t'
ASCII_HI = 127                   # scenario alphabet: 7-bit characters (signed and unsigned char agree)


# ----------------------------------------------------------------------------------------------------------------------
# segmented content model
# ----------------------------------------------------------------------------------------------------------------------
class Seg:
    """one run of the text: `n` bytes (Lin) of class
         ('in', [v, ...])          every byte is one of the values (int or Lin)
         ('ne', [v, ...], lo, hi)  every byte is an individual value in lo..hi different from each v
         ('copy', obj, off)        byte j of the run equals the byte at offset off + j of object obj"""
    __slots__ = ('n', 'cls', 'name')

    def __init__(self, n, cls, name=''):
        self.n = _L(n)
        self.cls = cls
        self.name = name


def seg_in(n, vals, name=''):
    return Seg(n, ('in', [_L(v) for v in vals]), name)


def seg_ne(n, vals=(), lo=0, hi=ASCII_HI, name=''):
    return Seg(n, ('ne', [_L(v) for v in vals], lo, hi), name)


def seg_copy(n, obj, off=0, name=''):
    return Seg(n, ('copy', obj, _L(off)), name)


def seg_bounds(segs):
    b = [Lin(0)]
    for s in segs:
        b.append(b[-1] + s.n)
    return b


class SegInterp(Interp):
    """Interp whose byte loads from objects carrying info['segs'] follow the segmented content model.  Bytes stored
    into such an object are kept in an overlay (position, value): a later load of provably the same position returns
    the stored value, of a provably different position the original content, anything else is unknown."""

    def exec_inst(self, fn, i, st):
        if i.op == 'load' and i.ty.get('bits') == 8:
            p = self.val(st, i.ops[0], fn)
            if isinstance(p, PtrVal) and p.obj is not None:
                o = st.objs.get(p.obj)
                if o is not None and o.info.get('segs') is not None:
                    self.check_access(st, p, 1, i, 'load')
                    if st.bottom:
                        return []
                    out = []
                    for (s, v) in self.seg_byte(st, p.obj, p.off):
                        s.env[('i', i.id)] = v
                        out.append(s)
                    return out
        return Interp.exec_inst(self, fn, i, st)

    def store(self, st, p, v, size, inst):
        if isinstance(p, PtrVal) and p.obj is not None:
            o = st.objs.get(p.obj)
            if o is not None and o.info.get('segs') is not None:
                key = ('segw', p.obj)
                st.conv[key] = st.conv.get(key, ()) + ((p.off, size, v),)
        return Interp.store(self, st, p, v, size, inst)

    def mem_range_write(self, st, p, n, inst):
        if isinstance(p, PtrVal) and p.obj is not None:
            o = st.objs.get(p.obj)
            if o is not None and o.info.get('segs') is not None:
                key = ('segw', p.obj)
                st.conv[key] = st.conv.get(key, ()) + ((p.off, None, None),)
        return Interp.mem_range_write(self, st, p, n, inst)

    def gen_candidates(self, st, newsyms, partners=()):
        """loop-invariant templates: besides the engine's own, "cursor <= / >= run boundary" for every boundary of the
        text a pointer cursor walks (the counterpart of the engine's "cursor <= terminator position" of the C-string
        model), and the same for integer cursors taken as indices from the start of the text"""
        extra = []
        texts = [o for o in st.objs.values() if o.info.get('segs') is not None]
        for n, (xl, init, what, w, signed) in enumerate(newsyms):
            ph = Lin.sym(('$', n))
            forms = []
            if what[0] == 'pphi':
                obj = getattr(self, '_pphi_obj', {}).get(what[1].id)
                o = st.objs.get(obj)
                if o is not None and o.info.get('segs') is not None:
                    forms.append((what[3] + ph * what[2], o))
            elif what[0] == 'phi' and w >= 32:
                # an integer cursor: an index from the start of the text or from a pointer into it that the function
                # holds on loop entry (reader->cursor + i)
                for o in texts:
                    bases = {Lin(0).key(): Lin(0)}
                    for v in list(st.env.values()) + [x for k_, x in st.mem.items()]:
                        if isinstance(v, PtrVal) and v.obj == o.id and len(bases) < 4:
                            bases.setdefault(v.off.key(), v.off)
                    forms += [(ph + base, o) for base in bases.values()]
            for (off, o) in forms:
                for b in seg_bounds(o.info['segs'])[1:]:
                    extra.append(off - b)
                    extra.append(b - off)
        return Interp.gen_candidates(self, st, newsyms, list(partners) + extra)

    # -- content ------------------------------------------------------------------------------------------------
    def seg_byte(self, st, obj, off, depth=0):
        """[(state, IntVal)] : the byte at offset off of the segmented object obj (st is consumed)"""
        o = st.objs.get(obj)
        segs = o.info['segs']
        # overlay of stored bytes, newest first
        for (woff, wsize, wv) in reversed(st.conv.get(('segw', obj), ())):
            if wsize is None:
                return [(st, self.top_of_type(st, {'k': 'int', 'bits': 8}, 'ovw'))]
            if wsize == 1 and st.cons.entails_eq(off, woff):
                if isinstance(wv, IntVal):
                    return [(st, wv)]
                return [(st, self.top_of_type(st, {'k': 'int', 'bits': 8}, 'ovw'))]
            if st.cons.entails_le(woff + wsize, off) or st.cons.entails_lt(off, woff):
                continue
            return [(st, self.top_of_type(st, {'k': 'int', 'bits': 8}, 'ovw'))]
        m = self.memo_get(st, obj, off)
        if m is not None:
            return [(st, m)]
        b = seg_bounds(segs)
        # runs the offset may lie in: boundaries are ordered, so one upward scan finds the last boundary known to be
        # <= off and the first one known to be > off
        lo = 0
        while lo + 1 < len(b) and st.cons.entails_le(b[lo + 1], off):
            lo += 1
        hi = lo
        while hi < len(b) and not (hi > lo and st.cons.entails_lt(off, b[hi])):
            hi += 1
        # candidates: runs lo .. hi-1 (hi == len(b): possibly behind the last run)
        if hi == lo + 1 and lo < len(segs):
            cands = [(st, lo)]
        else:
            cands = []
            for k in range(lo, min(hi, len(segs))):
                if segs[k].n.is_const() and segs[k].n.c == 0:
                    continue
                s = st.fork()
                s.cons.add_le(b[k], off)
                s.cons.add_lt(off, b[k + 1])
                if self.infeasible(s, off, b[k + 1] - b[k]):
                    continue
                cands.append((s, k))
            if hi == len(b):
                s = st.fork()
                s.cons.add_le(b[-1], off)
                if not self.infeasible(s, off, b[-1]):
                    cands.append((s, None))
        out = []
        for (s, k) in cands:
            if k is None:
                out.append((s, self.top_of_type(s, {'k': 'int', 'bits': 8}, 'past')))
                continue
            cls = segs[k].cls
            if cls[0] == 'in':
                vals = cls[1]
                if len(vals) == 1:
                    out.append((s, IntVal(8, vals[0], vals[0])))
                    continue
                for n, v in enumerate(vals):
                    s2 = s.fork() if n + 1 < len(vals) else s
                    x = IntVal(8, v, v)
                    self.memo_put(s2, obj, off, x)
                    out.append((s2, x))
            elif cls[0] == 'ne':
                lo, hi = cls[2], cls[3]
                x = s.fresh_int(8, False, 'ch')
                s.cons.add_le(lo, x.u)
                s.cons.add_le(x.u, hi)
                for v in cls[1]:
                    if v.is_const() and (v.c < lo or v.c > hi):
                        continue
                    s.add_diseq(x.u, v)
                x = IntVal(8, x.u, x.u)
                self.memo_put(s, obj, off, x)
                out.append((s, x))
            elif cls[0] == 'copy':
                if depth > 3:
                    raise AnalysisBroken('content model: copy runs nested too deeply')
                for (s2, v) in self.seg_byte(s, cls[1], cls[2] + off - b[k], depth + 1):
                    out.append((s2, v))
            else:
                raise AnalysisBroken('content model: unknown run class %r' % (cls[0],))
        return out

    @staticmethod
    def memo_get(st, obj, off):
        ents = st.conv.get(('segm', obj), ())
        k = off.key()
        for (eoff, v) in ents:
            if eoff.key() == k:
                return v
        for (eoff, v) in ents[-6:]:
            d = off - eoff
            if d.is_const():
                continue            # a different position (equal keys were handled above)
            if st.cons.entails_eq(off, eoff):
                return v
        return None

    @staticmethod
    def memo_put(st, obj, off, v):
        key = ('segm', obj)
        st.conv[key] = st.conv.get(key, ()) + ((off, v),)


def seg_object(st, segs, name, desc, terminated=False):
    """create the object holding the runs; terminated: a NUL follows the last run (C string), else the object ends there"""
    total = seg_bounds(segs)[-1]
    info = {'desc': desc}
    if terminated:
        segs = list(segs) + [seg_in(1, [0], 'NUL')]
        info['cstr_len'] = total
        size = total + 1
    else:
        size = total
    info['segs'] = segs
    o = st.new_obj('param', size, name, info)
    return o, total


# Fallback when a routine's token loop is not unrolled by a symbolic scenario (e.g. one merged loop that steps over
# delimiters and tokens alike: its trip count depends on the symbolic run lengths, and the loop-head abstraction cannot
# tell the tokens apart): the same scenario is decided for a few concrete run lengths instead - every loop then has a
# trip count decided by constants and is executed without abstraction (bytes stay symbolic).  Weaker (some lengths
# instead of all), still a necessary condition, and reported under the same instance identity.
CONCRETE = None          # None, or f(name, lower bound) -> int while a concretised rerun is in progress
VECTORS = (lambda name, lo: lo + 1,
           lambda name, lo: lo + (2 if name in ('a', 'n', 'r') else 0),
           lambda name, lo: lo + (2 if name in ('b', 'm', 'c', 't') else 0))
BROKEN = []              # forms that were not recognised (raised at the end unless violations are reported)


def fresh_len(st, env, name, lo=0, hi=1 << 20):
    if CONCRETE is not None:
        v = Lin(CONCRETE(name, lo))
        env.bind(name, v)
        return v
    n = st.fresh_int(64, False, name)
    st.cons.add_le(lo, n.u)
    st.cons.add_le(n.u, hi)
    env.bind(name, n.u)
    return n.u


def not_unrolled(obs):
    return any(o['kind'] == 'ghost-loop-invariant' and not o['ok'] for o in obs)


def guarded(what, f, *args):
    """an analysis that gives up inside one scenario (path explosion, unsupported construct) is remembered and raised at
    the end of run_ext unless violations are reported: the other scenarios are still decided"""
    try:
        return f(*args)
    except AnalysisBroken as e:
        BROKEN.append('%s: %s' % (what, e))
        return None


def no_return(obs):
    return any(o['kind'] == 'returns' and not o['ok'] for o in obs)


def decide_scenario(once, what):
    """once(peel) -> obligations of one run of the scenario.  Symbolic run lengths first; concrete ones when the token
    loop was not unrolled"""
    global CONCRETE
    obs = guarded(what, once, None)
    if obs is None:
        return []
    if not not_unrolled(obs) or no_return(obs):
        # (no return reachable in the over-approximating loop analysis: the routine does not return - reported as such)
        return obs
    out = []
    for vec in VECTORS:
        CONCRETE = vec
        try:
            o2 = guarded(what, once, 16)
        finally:
            CONCRETE = None
        if o2 is None:
            continue
        if not_unrolled(o2) and not no_return(o2):
            BROKEN.append('%s: the loop that hands out the tokens is not unrolled even for concrete run lengths' % what)
            continue
        out += o2
    return out


def fresh_char(st, env, name, ne=(), lo=0, hi=ASCII_HI):
    x = st.fresh_int(8, False, name)
    st.cons.add_le(lo, x.u)
    st.cons.add_le(x.u, hi)
    for v in ne:
        if isinstance(v, int) and (v < lo or v > hi):
            continue
        st.add_diseq(x.u, _L(v))
    env.bind(name, x.u)
    return x.u


# ----------------------------------------------------------------------------------------------------------------------
# observation of results: ranges handed to std::string(ptr, len) / vector<string>::emplace_back(ptr&, len&)
# ----------------------------------------------------------------------------------------------------------------------
BUF = StructSpec('class.igris::buffer', inv=['sz <= 1099511627776'], owns={'buf': 'sz'})


def std_opaque(mod):
    pre = ('_ZNSt', '_ZNKSt', '_ZSt', '_ZN9__gnu_cxx', '_ZNK9__gnu_cxx', '_ZNSa', '_ZNKSa', '_ZN9__gnu_cxxeq',
           '_ZN9__gnu_cxxne')
    return [f.name for f in mod.functions.values() if f.name.startswith(pre) or
            (not f.decl and (f.scope.startswith('std::') or f.scope.startswith('__gnu_cxx::')))]


def string_ctors(mod):
    """mangled names of std::string(const char*, size_t, const allocator&)"""
    return set(f.name for f in mod.functions.values()
               if 'basic_string' in f.name and ('C1EPKcm' in f.name or 'C2EPKcm' in f.name))


MAXTOK = 4


class TokenLog:
    """ghost: the k-th range [start, start+len) of the text that the routine hands out is remembered as
    ghost_tok<k>_off / ghost_tok<k>_len, their number as ghost_ntok.  Forms that cannot be followed make the analysis
    broken (never a violation): a range whose start/length is not traceable, a range taken from a copy of the text
    (unknown block), and - for a routine that returns one string (result_only) - a std::string built from the text that
    is not the returned object (the routine goes on working on that copy through libstdc++, which is not analysed)."""

    def __init__(self, run, mod, fn=None, result_only=False):
        self.run = run
        self.ctors = string_ctors(mod)
        self.seen = 0
        self.sret = None
        if result_only:
            idx = [n for n, p_ in enumerate(mod.fn(fn).params) if p_.get('sret')]
            if len(idx) != 1:
                raise AnalysisBroken('%s does not return its std::string through a result parameter' % fn)
            self.sret = idx[0]

    def setup(self, run, st, env, pnames, args, sps):
        st.ghost['ntok'] = 0
        for k in range(MAXTOK):
            st.ghost['tok%d_off' % k] = Lin(-1)
            st.ghost['tok%d_len' % k] = Lin(0)
        self.sret_obj = args[self.sret].obj if self.sret is not None else None

    def record(self, interp, st, i, start, ln, this=None):
        if interp.recording > 0:
            return
        if not (isinstance(start, PtrVal) and isinstance(ln, IntVal)):
            raise AnalysisBroken('%s: start/length of the range handed out at %s not traceable' % (i.fn.name, i.where()))
        if start.is_null:
            return
        if start.obj != self.run.textobj:
            so = st.objs.get(start.obj)
            if so is None or so.kind != 'global':
                raise AnalysisBroken('%s: the range handed out at %s is not taken from the text itself (a copy?): not '
                                     'followed' % (i.fn.name, i.where()))
            return          # a string literal ("")
        if self.sret_obj is not None and not (isinstance(this, PtrVal) and this.obj == self.sret_obj):
            raise AnalysisBroken('%s: a std::string other than the result is built from the text at %s: not followed'
                                 % (i.fn.name, i.where()))
        l = st.as_s(ln)
        if l is None:
            l = st.force_s(ln)
        k = st.ghost['ntok']
        self.seen += 1
        if k < MAXTOK:
            st.ghost['tok%d_off' % k] = start.off
            st.ghost['tok%d_len' % k] = l
        st.ghost['ntok'] = k + 1

    def hook(self, interp, st, i, callee, args):
        if callee is None:
            return None
        if 'emplace_back' in callee and len(args) >= 3:
            ps, pl = args[1], args[2]
            start = ln = None
            if isinstance(ps, PtrVal) and isinstance(pl, PtrVal) and ps.off.is_const() and pl.off.is_const():
                start = st.mem.get((ps.obj, ps.off.c, 8))
                ln = st.mem.get((pl.obj, pl.off.c, 8))
            self.record(interp, st, i, start, ln)
        elif callee in self.ctors and len(args) >= 3:
            self.record(interp, st, i, args[1], args[2], args[0])
        return None


def buffer_text(make_segs):
    """FnSpec.setup: the igris::buffer parameter views exactly the scenario text (not terminated)"""
    def setup(run, st, env, pnames, args, sps):
        sp = [x for x in sps if x[2] is BUF]
        if len(sp) != 1:
            raise AnalysisBroken('igris::buffer parameter not found')
        (name, so, sspec, fs, sname) = sp[0]
        offs = {m['name']: (m['off'], m['ty']['size']) for m in run.mod.flat_fields(sname)}
        if 'buf' not in offs or 'sz' not in fs:
            raise AnalysisBroken('class igris::buffer has no fields buf / sz (anchor changed)')
        segs = make_segs(st, env)
        o, total = seg_object(st, segs, 'text', 'scenario text')
        st.mem[(so.id,) + offs['buf']] = PtrVal(o.id, Lin(0))
        st.cons.add_eq(fs['sz'], total)
        env.bind('total', total)
        run.textobj = o.id
    return setup


WORDS = [('ghost_ntok', 'number of ranges handed out'), ('ghost_nargv', 'number of pointers stored into argv'),
         ('ghost_nnul', 'number of bytes written into the line'), ('ghost_badwrite', 'writes other than a NUL / a token pointer'),
         ('ghost_token_in_buf', '*token points into the text'), ('ghost_token_off', 'offset of *token'),
         ('cursor_post_off', 'offset of reader->cursor afterwards'), ('cursor_post_in_buf', 'reader->cursor stays in the text'),
         ('strt_post_off', 'offset of reader->strt afterwards'), ('fini_post_off', 'offset of reader->fini afterwards'),
         ('ret_first', 'byte at the result'), ('ret_last', 'byte at result + s_len - 1'), ('needle_first', 'needle[0]'),
         ('needle_last', 'needle[s_len - 1]'), ('ret_null', '(result is NULL)'), ('ret_in_arg0', '(result points into the haystack)'),
         ('ret_off', 'offset of the result'), ('ret', 'returned value')]
for _k in range(4):
    WORDS[0:0] = [('ghost_tok%d_off' % _k, 'start of range %d' % (_k + 1)), ('ghost_tok%d_len' % _k, 'length of range %d' % (_k + 1)),
                  ('ghost_argv%d_off' % _k, 'offset argv[%d] points to' % _k), ('ghost_nul%d_off' % _k, 'offset of NUL write %d' % (_k + 1))]


def humanise(clause):
    import re
    for k, v in WORDS:
        clause = re.sub(r'\b%s\b' % re.escape(k), v, clause)
    return clause


def relabel(obs, label, kinds=('post', 'returns')):
    """keep the scenario clauses (bounds etc. are c19.py's business), report them under the routine's source name and
    say in words what is expected"""
    out = []
    for o in obs:
        if o['kind'] not in kinds:
            continue
        o['function'] = label
        o.pop('call_stack', None)
        if not o['ok'] and o['kind'] == 'post':
            scen_, _, clause = o['name'].rpartition(': ')
            o['detail'] = ('%s, for every input of the form [%s]: expected "%s" - not established (on some path through '
                           'the routine the clause does not follow from the facts collected along it)'
                           % (label, scen_, humanise(clause)))
        elif not o['ok'] and o['kind'] == 'returns':
            o['detail'] = ('%s does not return for the inputs of at least one content scenario (endless loop, or every path '
                           'leaves the buffers it was given)' % label)
        out.append(o)
    return out


def tokens_are(*pairs):
    """post clauses: exactly these (offset, length) ranges are handed out, in this order"""
    then = ['ghost_ntok == %d' % len(pairs)]
    for k, (off, ln) in enumerate(pairs):
        then += ['ghost_tok%d_off == %s' % (k, off), 'ghost_tok%d_len == %s' % (k, ln)]
    return then


# ----------------------------------------------------------------------------------------------------------------------
# (1) igris::trim
# ----------------------------------------------------------------------------------------------------------------------
def run_trim(rep, repo):
    mod = witness('w_c19_string.cpp', repo)
    c = [f for f in mod.defined() if f.scope.startswith('igris::') and f.srcname == 'trim']
    if len(c) != 1:
        raise AnalysisBroken('igris::trim not instantiated')
    op = std_opaque(mod)
    ext = dict(LIBC_EXT)
    ext.update({n: ext_std for n in op})

    def scen(name, make_segs, then):
        it = SegInterp(mod, externals=ext, opaque=op)
        run = Run19(it, [BUF])
        log = TokenLog(run, mod, c[0].name, result_only=True)
        it.call_hook = log.hook
        if guarded('igris::trim', run.run, c[0].name, FnSpec(setup=chain(log.setup, buffer_text(make_segs)),
                                                              post=[dict(name=name, then=then)])) is not None:
            rep.add_absint('R-TRIM-CONTENT', relabel(summarize(it, run), 'igris::trim'))
        return log

    def general(st, env):
        a, m, b = fresh_len(st, env, 'a'), fresh_len(st, env, 'm'), fresh_len(st, env, 'b')
        return [seg_in(a, WS4, 'ws'), seg_ne(1, WS4, name='first'), seg_ne(m, name='any'), seg_ne(1, WS4, name='last'),
                seg_in(b, WS4, 'ws')]

    def single(st, env):
        a, b = fresh_len(st, env, 'a'), fresh_len(st, env, 'b')
        return [seg_in(a, WS4, 'ws'), seg_ne(1, WS4, name='only'), seg_in(b, WS4, 'ws')]

    def blank(st, env):
        a = fresh_len(st, env, 'a')
        return [seg_in(a, WS4, 'ws')]
    n = 0
    n += scen('text = ws^a x any^m y ws^b (x, y not white space): result is [a, a+m+2)', general,
              tokens_are(('a', 'm + 2'))).seen
    n += scen('text = ws^a x ws^b (x not white space): result is [a, a+1)', single, tokens_are(('a', '1'))).seen
    scen('text = ws^a (blank or empty): result is empty', blank, ['ghost_tok0_len == 0', 'ghost_ntok <= 1'])
    if n == 0:
        raise AnalysisBroken('igris::trim: the result is not built by std::string(ptr, len) (form not recognised)')


# ----------------------------------------------------------------------------------------------------------------------
# content-aware strchr over a string whose characters are all known (literal, or a scenario string of fixed length)
# ----------------------------------------------------------------------------------------------------------------------
def known_chars(st, p):
    """list of Lin: the characters (without the terminator) of the string p points to, when every one is known"""
    cs = const_string(st, p)
    if cs is not None:
        return [Lin(x if x < 128 else x - 256) for x in cs]
    if not isinstance(p, PtrVal) or p.is_null or not p.off.is_const():
        return None
    o = st.objs.get(p.obj)
    segs = o.info.get('segs') if o is not None else None
    if segs is None or o.info.get('cstr_len') is None or st.conv.get(('segw', p.obj)):
        return None
    out = []
    for sg in segs[:-1]:
        if not (sg.n.is_const() and sg.n.c == 1 and sg.cls[0] == 'in' and len(sg.cls[1]) == 1):
            return None
        out.append(sg.cls[1][0])
    return out[p.off.c:] if p.off.c <= len(out) else None


def ext_strchr_content(interp, st, i, args):
    """strchr(s, c) for a string s whose characters are known: the first position whose character equals c, the
    terminator for c == 0, NULL otherwise (case split over the positions, infeasible cases pruned)"""
    from c19_ext import ext_strchr
    s, c = args[0], args[1]
    chars = known_chars(st, s)
    if chars is None or not isinstance(c, IntVal):
        return ext_strchr(interp, st, i, args)
    cstr_read(interp, st, s, i, 'strchr')
    if st.bottom:
        return []
    cl = st.as_s(c)
    if cl is None:
        cl = st.as_u(c)
    if cl is None:
        return ext_strchr(interp, st, i, args)
    alls = chars + [Lin(0)]
    out = []
    cur = st
    for j, ch in enumerate(alls):
        if cur.known_diseq(cl, ch) or cur.cons.entails_lt(cl, ch) or cur.cons.entails_lt(ch, cl):
            continue
        if cur.cons.entails_eq(cl, ch):
            out.append((cur, PtrVal(s.obj, s.off + j, None, None, True)))
            cur = None
            break
        hit = cur.fork()
        hit.cons.add_eq(cl, ch)
        if not interp.infeasible(hit, cl, ch):
            out.append((hit, PtrVal(s.obj, s.off + j, None, None, True)))
        cur.add_diseq(cl, ch)
    if cur is not None:
        out.append((cur, NULL))
    return out


# ----------------------------------------------------------------------------------------------------------------------
# (2) igris::split (char and delimiter-set forms), igris::split_cmdargs
# ----------------------------------------------------------------------------------------------------------------------
def run_split(rep, repo):
    mod = compile_ir(repo + '/igris/util/string.cpp', repo)
    op = std_opaque(mod)
    ext = dict(LIBC_EXT)
    ext.update({n: ext_std for n in op})
    ext['strchr'] = ext_strchr_content

    def M(name, nparams, ptr_second=None):
        c = [f for f in mod.defined() if f.scope.startswith('igris::') and f.srcname == name and len(f.params) == nparams]
        if ptr_second is not None:
            c = [f for f in c if (f.params[2]['ty']['k'] == 'ptr') == ptr_second]
        if len(c) != 1:
            raise AnalysisBroken('igris::%s/%d: %d candidates' % (name, nparams, len(c)))
        return c[0].name
    seen = {}

    def scen(label, fname, name, make_segs, then, pre=(), extra_setup=None):
        if ONLY and ONLY not in name:
            return

        def once(peel):
            it = SegInterp(mod, externals=ext, opaque=op)
            it.max_peel = peel or 4
            it.max_peel_states = 24
            it.ghost_keys = ('ntok',)
            run = Run19(it, [BUF])
            log = TokenLog(run, mod)
            it.call_hook = log.hook
            setups = [log.setup] + ([extra_setup] if extra_setup else []) + [buffer_text(make_segs)]
            run.run(fname, FnSpec(setup=chain(*setups), pre=list(pre), post=[dict(name=name, then=then)]))
            seen[label] = seen.get(label, 0) + log.seen
            return summarize(it, run)
        rep.add_absint('R-SPLIT-CONTENT', relabel(decide_scenario(once, label), label))

    # ---- split(buffer, char): delimiter d = the parameter; T, U = runs of characters different from d
    f1 = M('split', 3, False)
    L1 = 'igris::split(buffer,char)'
    D = lambda env: env.names['arg2']
    pre1 = ['arg2 >= 0', 'arg2 <= %d' % ASCII_HI]

    def none1(st, env):
        return [seg_in(fresh_len(st, env, 'a'), [D(env)], 'd')]

    def one1(st, env):
        a, m, b = fresh_len(st, env, 'a'), fresh_len(st, env, 'm', 1), fresh_len(st, env, 'b')
        return [seg_in(a, [D(env)], 'd'), seg_ne(m, [D(env)], name='T'), seg_in(b, [D(env)], 'd')]

    def two1(st, env):
        a, m, b = fresh_len(st, env, 'a'), fresh_len(st, env, 'm', 1), fresh_len(st, env, 'b', 1)
        n, c = fresh_len(st, env, 'n', 1), fresh_len(st, env, 'c')
        return [seg_in(a, [D(env)], 'd'), seg_ne(m, [D(env)], name='T'), seg_in(b, [D(env)], 'd'),
                seg_ne(n, [D(env)], name='U'), seg_in(c, [D(env)], 'd')]
    scen(L1, f1, 'text = d^a (only delimiters or empty): no token', none1, tokens_are(), pre1)
    scen(L1, f1, 'text = d^a T^m d^b (m >= 1, T free of d): the one token is [a, a+m)', one1, tokens_are(('a', 'm')), pre1)
    scen(L1, f1, 'text = d^a T^m d^b U^n d^c (m, b, n >= 1): tokens [a, a+m) then [a+m+b, a+m+b+n)', two1,
         tokens_are(('a', 'm'), ('a + m + b', 'n')), pre1)

    # ---- split(buffer, const char *delims): delims = "pq" (two symbolic characters); d = p or q; T, U free of p, q, NUL
    f2 = M('split', 3, True)
    L2 = 'igris::split(buffer,char*)'

    def delims2(run, st, env, pnames, args, sps):
        p = fresh_char(st, env, 'p', lo=1)
        q = fresh_char(st, env, 'q', lo=1)
        o, total = seg_object(st, [seg_in(1, [p]), seg_in(1, [q])], 'delims', 'delimiter set "pq"', terminated=True)
        args[2] = PtrVal(o.id, Lin(0))
        run.argobj[2] = o.id

    def PQ(env):
        return [env.names['p'], env.names['q']]

    def none2(st, env):
        return [seg_in(fresh_len(st, env, 'a'), PQ(env), 'd')]

    def one2(st, env):
        a, m, b = fresh_len(st, env, 'a'), fresh_len(st, env, 'm', 1), fresh_len(st, env, 'b')
        return [seg_in(a, PQ(env), 'd'), seg_ne(m, PQ(env) + [0], name='T'), seg_in(b, PQ(env), 'd')]

    def two2(st, env):
        a, m, b = fresh_len(st, env, 'a'), fresh_len(st, env, 'm', 1), fresh_len(st, env, 'b', 1)
        n, c = fresh_len(st, env, 'n', 1), fresh_len(st, env, 'c')
        p_, q_ = PQ(env)
        return [seg_in(a, [p_], 'p'), seg_ne(m, PQ(env) + [0], name='T'), seg_in(b, [q_], 'q'),
                seg_ne(n, PQ(env) + [0], name='U'), seg_in(c, [p_], 'p')]
    scen(L2, f2, 'delims = "pq", text = d^a (d in {p, q}): no token', none2, tokens_are(), extra_setup=delims2)
    scen(L2, f2, 'delims = "pq", text = d^a T^m d^b (m >= 1, T free of p, q, NUL): the one token is [a, a+m)', one2,
         tokens_are(('a', 'm')), extra_setup=delims2)
    scen(L2, f2, 'delims = "pq", text = p^a T^m q^b U^n p^c (m, b, n >= 1): tokens [a, a+m) then [a+m+b, a+m+b+n)', two2,
         tokens_are(('a', 'm'), ('a + m + b', 'n')), extra_setup=delims2)

    # ---- split_cmdargs: blank separated, '...' and "..." keep blanks
    f3 = M('split_cmdargs', 2)
    L3 = 'igris::split_cmdargs'
    SP, DQ, SQ = 32, 34, 39

    def word(st, env, nm, lo=1):
        """an unquoted word: first character not a blank and not a quote, the others not blank"""
        n = fresh_len(st, env, nm, lo - 1)
        env.bind(nm, n + 1)
        return [seg_ne(1, [SP, DQ, SQ], name=nm + '0'), seg_ne(n, [SP], name=nm)]

    def none3(st, env):
        return [seg_in(fresh_len(st, env, 'a'), [SP], 'sp')]

    def two3(st, env):
        a, b, c = fresh_len(st, env, 'a'), fresh_len(st, env, 'b', 1), fresh_len(st, env, 'c')
        return [seg_in(a, [SP], 'sp')] + word(st, env, 'm') + [seg_in(b, [SP], 'sp')] + word(st, env, 'n') + \
            [seg_in(c, [SP], 'sp')]
    scen(L3, f3, 'text = sp^a (blank or empty): no token', none3, tokens_are())
    scen(L3, f3, 'text = sp^a T^m sp^b U^n sp^c (unquoted words, m, b, n >= 1): tokens [a, a+m) then [a+m+b, a+m+b+n)',
         two3, tokens_are(('a', 'm'), ('a + m + b', 'n')))
    for qn, q in (('"', DQ), ("'", SQ)):
        def quoted(st, env, q=q):
            a, m, b = fresh_len(st, env, 'a'), fresh_len(st, env, 'm'), fresh_len(st, env, 'b')
            return [seg_in(a, [SP], 'sp'), seg_in(1, [q], 'open'), seg_ne(m, [q], name='Q'), seg_in(1, [q], 'close'),
                    seg_in(b, [SP], 'sp')] + word(st, env, 'n') + [seg_in(fresh_len(st, env, 'c'), [SP], 'sp')]

        def unterminated(st, env, q=q):
            a, m = fresh_len(st, env, 'a'), fresh_len(st, env, 'm')
            return [seg_in(a, [SP], 'sp'), seg_in(1, [q], 'open'), seg_ne(m, [q], name='Q')]
        scen(L3, f3, 'text = sp^a %s Q^m %s sp^b U^n sp^c (Q free of %s, may hold blanks; b >= 0): tokens [a+1, a+1+m) then '
             '[a+m+2+b, a+m+2+b+n)' % (qn, qn, qn), quoted, tokens_are(('a + 1', 'm'), ('a + m + 2 + b', 'n')))
        scen(L3, f3, 'text = sp^a %s Q^m (quote not closed): the one token is [a+1, a+1+m)' % qn, unterminated,
             tokens_are(('a + 1', 'm')))
    for label, n in seen.items():
        if n == 0:
            raise AnalysisBroken('%s: no token is handed out through emplace_back(ptr, len) / std::string(ptr, len) '
                                 '(form not recognised)' % label)


# ----------------------------------------------------------------------------------------------------------------------
# (2b) argvc_internal_split / argvc_internal_split_n: tokens are handed out as pointers stored into argv[], a token
# that is followed by white space is closed by a NUL written over the first white-space character
# ----------------------------------------------------------------------------------------------------------------------
class ArgvLog:
    """ghost: ghost_argv<k>_off = offset (into the text) of the pointer stored into argv[k], ghost_nargv = number of
    such stores; ghost_nul<j>_off = offset of the j-th byte written into the text, ghost_nnul their number,
    ghost_badwrite = 1 when something other than a NUL is written into the text"""

    def __init__(self, run, argv_idx):
        self.run = run
        self.argv_idx = argv_idx

    def setup(self, run, st, env, pnames, args, sps):
        st.ghost.update({'nargv': 0, 'nnul': 0, 'badwrite': 0})
        for k in range(MAXTOK):
            st.ghost['argv%d_off' % k] = Lin(-1)
            st.ghost['nul%d_off' % k] = Lin(-1)

    def hook(self, interp, st, inst, p, v):
        if interp.recording > 0 or not isinstance(p, PtrVal) or p.is_null:
            return
        if p.obj == self.run.argobj.get(self.argv_idx):
            if not p.off.is_const() or p.off.c % 8:
                # argc is not a constant here: the token loop was not unrolled (reported as such by the engine's
                # ghost-loop-invariant obligation; decide_scenario falls back to concrete run lengths)
                st.ghost['nargv'] = st.ghost['nargv'] + 1
                st.ghost['badwrite'] = 1
                return
            k = p.off.c // 8
            if isinstance(v, PtrVal) and v.obj == self.run.textobj:
                if k < MAXTOK:
                    st.ghost['argv%d_off' % k] = v.off
            else:
                st.ghost['badwrite'] = 1
            st.ghost['nargv'] = st.ghost['nargv'] + 1
        elif p.obj == self.run.textobj:
            j = st.ghost['nnul']
            if isinstance(v, IntVal) and v.const() == 0:
                if j < MAXTOK:
                    st.ghost['nul%d_off' % j] = p.off
            else:
                st.ghost['badwrite'] = 1
            st.ghost['nnul'] = j + 1


def run_argvc(rep, repo):
    mod = witness('w_c19_argvc.c', repo)
    ext = dict(LIBC_EXT)
    ext['strchr'] = ext_strchr_content
    NOTWS = list(WS4) + [0]

    def text_arg(idx, make_segs, terminated, len_idx=None):
        def setup(run, st, env, pnames, args, sps):
            segs = make_segs(st, env)
            o, total = seg_object(st, segs, 'text', 'scenario text', terminated=terminated)
            args[idx] = PtrVal(o.id, Lin(0))
            run.argobj[idx] = o.id
            run.textobj = o.id
            if len_idx is not None:
                st.cons.add_eq(env.names['arg%d' % len_idx], total)
        return setup

    def scen(fname, name, make_segs, then, pre, n_form):
        if ONLY and ONLY not in name:
            return

        def once(peel):
            it = SegInterp(mod, externals=ext)
            it.max_peel = peel or 4
            it.max_peel_states = 24
            it.ghost_keys = ('nargv', 'nnul')
            run = Run19(it, [])
            if n_form:
                log = ArgvLog(run, 2)
                setup = chain(log.setup, sized_params((2, 3), elem=8), text_arg(0, make_segs, False, 1))
            else:
                log = ArgvLog(run, 1)
                setup = chain(log.setup, sized_params((1, 2), elem=8), text_arg(0, make_segs, True))
            it.store_hook = log.hook
            run.run(fname, FnSpec(setup=setup, pre=list(pre), post=[dict(name=name, then=then + ['ghost_badwrite == 0'])]))
            return summarize(it, run)
        rep.add_absint('R-ARGVC-CONTENT', relabel(decide_scenario(once, fname), fname))

    def blank(st, env):
        return [seg_in(fresh_len(st, env, 'a'), WS4, 'ws')]

    def two(sep, tail, cmin, cmax=None):
        """ws^a T^m sep^b U^n tail^c: the leading run mixes all four white-space characters; the separator and the
        trailing run are one white-space character each (a mixed run there multiplies the paths by four per token
        without deciding anything new: each character serves as separator in one of the scenarios)"""
        def mk(st, env):
            a, m, b = fresh_len(st, env, 'a'), fresh_len(st, env, 'm', 1), fresh_len(st, env, 'b', 1)
            n = fresh_len(st, env, 'n', 1)
            c = fresh_len(st, env, 'c', cmin) if cmax is None else Lin(cmax)
            return [seg_in(a, WS4, 'ws'), seg_ne(m, NOTWS, name='T'), seg_in(b, [sep], 'sep'), seg_ne(n, NOTWS, name='U'),
                    seg_in(c, [tail], 'tail')]
        return mk

    def nul_inside(st, env):
        a, m, n = fresh_len(st, env, 'a'), fresh_len(st, env, 'm', 1), fresh_len(st, env, 'n', 1)
        return [seg_in(a, WS4, 'ws'), seg_ne(m, NOTWS, name='T'), seg_in(1, [0], 'NUL'), seg_ne(n, NOTWS, name='U')]
    for fname, n_form, mx in (('argvc_internal_split', False, 'arg2'), ('argvc_internal_split_n', True, 'arg3')):
        lim = ['%s <= 1048576' % mx] + (['arg1 >= 0'] if n_form else [])
        argv2 = ['ghost_nargv == 2', 'ghost_argv0_off == a', 'ghost_argv1_off == a + m + b']
        scen(fname, 'text = ws^a (blank or empty): no argument, nothing written', blank,
             ['ret == 0', 'ghost_nargv == 0', 'ghost_nnul == 0'], lim, n_form)
        scen(fname, 'text = ws^a T^m CR^b U^n TAB^c (m, b, n, c >= 1), room for 2: argv = [a, a+m+b], NULs at a+m and a+m+b+n',
             two(13, 9, 1), ['ret == 2'] + argv2 + ['ghost_nnul == 2', 'ghost_nul0_off == a + m',
                                                    'ghost_nul1_off == a + m + b + n'],
             lim + ['%s >= 2' % mx], n_form)
        scen(fname, 'text = ws^a T^m LF^b U^n (last word ends the text), room for 2: argv = [a, a+m+b], one NUL at a+m',
             two(10, 32, 0, 0), ['ret == 2'] + argv2 + ['ghost_nnul == 1', 'ghost_nul0_off == a + m'], lim + ['%s >= 2' % mx],
             n_form)
        scen(fname, 'text = ws^a T^m SP^b U^n SP^c, room for 1: only the first word is handed out', two(32, 32, 0),
             ['ret == 1', 'ghost_nargv == 1', 'ghost_argv0_off == a', 'ghost_nnul == 1', 'ghost_nul0_off == a + m'],
             lim + ['%s == 1' % mx], n_form)
        scen(fname, 'text = ws^a T^m TAB^b U^n SP^c, no room: nothing handed out', two(9, 32, 0),
             ['ret == 0', 'ghost_nargv == 0'], lim + ['%s <= 0' % mx], n_form)
        if n_form:
            scen(fname, 'text = ws^a T^m NUL U^n (terminator inside the buffer): the line ends at the NUL, argv = [a]',
                 nul_inside, ['ret == 1', 'ghost_nargv == 1', 'ghost_argv0_off == a'],
                 lim + ['%s >= 2' % mx], n_form)


# ----------------------------------------------------------------------------------------------------------------------
# (3) igris_memmem: content facts of a non-NULL result, first occurrence
# ----------------------------------------------------------------------------------------------------------------------
def seg_peek(interp, st, obj, off):
    """the byte at (obj, off) when it is known without a case split (already read on this path, or a run of one value),
    else None"""
    o = st.objs.get(obj)
    segs = o.info.get('segs') if o is not None else None
    if segs is None or st.conv.get(('segw', obj)):
        return None
    m = interp.memo_get(st, obj, off)
    if m is not None:
        return m.u
    b = seg_bounds(segs)
    for k, sg in enumerate(segs):
        if st.cons.entails_le(b[k], off) and st.cons.entails_lt(off, b[k + 1]):
            if sg.cls[0] == 'in' and len(sg.cls[1]) == 1:
                return sg.cls[1][0]
            if sg.cls[0] == 'copy':
                return seg_peek(interp, st, sg.cls[1], sg.cls[2] + off - b[k])
            return None
    return None


def seg_run_at(st, obj, off):
    """index of the run that provably starts at offset off of the segmented object, else None"""
    o = st.objs.get(obj)
    segs = o.info.get('segs') if o is not None else None
    if segs is None:
        return None
    b = seg_bounds(segs)
    for k in range(len(segs)):
        if st.cons.entails_eq(b[k], off):
            # skip runs that are provably empty
            while k < len(segs) and st.cons.entails_le(segs[k].n, 0):
                k += 1
            return k if k < len(segs) else None
    return None


def ext_memcmp_content(interp, st, i, args):
    """memcmp(a, b, n): 0 when a is the start of a run that copies the n bytes at b; otherwise unknown, and a result
    of 0 implies that the first and the last byte of the two ranges are equal"""
    a, b = args[0], args[1]
    n = _u(st, args[2])
    if not (n.is_const() and n.c == 0):
        interp.check_access(st, a, n, i, 'memcmp')
        interp.check_access(st, b, n, i, 'memcmp')
    if st.bottom:
        return []
    w = i.ty.get('bits', 32)
    if not (isinstance(a, PtrVal) and isinstance(b, PtrVal)) or a.is_null or b.is_null or not isinstance(interp, SegInterp):
        return [(st, st.fresh_int(w, True, 'memcmp'))]
    if st.cons.entails_le(n, 0):
        return [(st, mk_const(w, 0))]
    for (x, y) in ((a, b), (b, a)):
        # x lies d bytes into a run that copies the bytes at (obj, off): equal when y is (obj, off + d) and the n bytes
        # stay inside the run
        xo = st.objs.get(x.obj)
        segs = xo.info.get('segs') if xo is not None else None
        if segs is None or st.conv.get(('segw', x.obj)) or st.conv.get(('segw', y.obj)):
            continue
        bnd = seg_bounds(segs)
        for k, sg in enumerate(segs):
            if sg.cls[0] == 'copy' and sg.cls[1] == y.obj and st.cons.entails_le(bnd[k], x.off) and \
                    st.cons.entails_le(x.off + n, bnd[k + 1]) and st.cons.entails_eq(sg.cls[2] + x.off - bnd[k], y.off):
                return [(st, mk_const(w, 0))]
    out = []
    ne = st.fork()
    r = ne.fresh_int(w, True, 'memcmp')
    ne.add_diseq(r.s, 0)
    out.append((ne, r))
    eqs = [st]
    both = all(st.objs.get(x.obj) is not None and st.objs[x.obj].info.get('segs') is not None for x in (a, b))
    if both and st.cons.entails_le(1, n):
        for d in (Lin(0), n - 1):
            nxt = []
            for s in eqs:
                for (s1, va) in interp.seg_byte(s, a.obj, a.off + d):
                    for (s2, vb) in interp.seg_byte(s1, b.obj, b.off + d):
                        if not (isinstance(va, IntVal) and isinstance(vb, IntVal)) or va.u is None or vb.u is None:
                            nxt.append(s2)
                            continue
                        if s2.known_diseq(va.u, vb.u):
                            continue
                        s2.cons.add_eq(va.u, vb.u)
                        if not interp.infeasible(s2, va.u, vb.u):
                            nxt.append(s2)
            eqs = nxt
    out += [(s, mk_const(w, 0)) for s in eqs]
    return out


def ext_memchr_content(interp, st, i, args):
    """memchr(s, c, n) over a segmented text: runs that cannot hold c are skipped, a run that starts with c yields its
    start; otherwise NULL or some position whose byte equals c"""
    s, c = args[0], args[1]
    n = _u(st, args[2])
    if not (n.is_const() and n.c == 0):
        interp.check_access(st, s, n, i, 'memchr')
    if st.bottom:
        return []
    if not isinstance(s, PtrVal) or s.is_null or not isinstance(c, IntVal) or not isinstance(interp, SegInterp):
        from c19_ext import ext_memchr
        return ext_memchr(interp, st, i, args)
    o = st.objs.get(s.obj)
    segs = o.info.get('segs') if o is not None else None
    cl = st.as_u(c)
    if segs is None or cl is None or st.conv.get(('segw', s.obj)):
        from c19_ext import ext_memchr
        return ext_memchr(interp, st, i, args)
    b = seg_bounds(segs)
    k = seg_run_at(st, s.obj, s.off)
    pos = s.off
    while k is not None and k < len(segs):
        sg = segs[k]
        if not st.cons.entails_le(b[k + 1], s.off + n):
            break                       # the run is not wholly inside the searched range
        if sg.cls[0] == 'ne' and any(st.cons.entails_eq(v, cl) for v in sg.cls[1]):
            pos = b[k + 1]
            k += 1
            continue
        if sg.cls[0] == 'in' and all(st.known_diseq(v, cl) or st.cons.entails_lt(v, cl) or st.cons.entails_lt(cl, v)
                                     for v in sg.cls[1]):
            pos = b[k + 1]
            k += 1
            continue
        first = seg_peek(interp, st, s.obj, b[k]) if st.cons.entails_le(1, sg.n) else None
        if first is not None and st.cons.entails_eq(first, cl):
            return [(st, PtrVal(s.obj, b[k], s.lo, s.hi, True))]
        break
    out = []
    if st.cons.entails_le(s.off + n, pos):
        return [(st, NULL)]
    out.append((st.fork(), NULL))
    j = st.fresh_int(64, False, 'hit')
    st.cons.add_le(pos, j.u)
    st.cons.add_lt(j.u, s.off + n)
    if not interp.infeasible(st, j.u, s.off + n):
        for (s2, v) in interp.seg_byte(st, s.obj, j.u):
            if isinstance(v, IntVal) and v.u is not None:
                if s2.known_diseq(v.u, cl):
                    continue
                s2.cons.add_eq(v.u, cl)
                if interp.infeasible(s2, v.u, cl):
                    continue
            out.append((s2, PtrVal(s.obj, j.u, s.lo, s.hi, True)))
    return out


class ContentRun(Run19):
    """Run19 whose postconditions can name bytes of the texts: binders = {name: f(T, rv) -> Lin | None}"""

    def __init__(self, interp, struct_specs, binders=None):
        Run19.__init__(self, interp, struct_specs)
        self.binders = binders or {}

    def check_return(self, fn, spec, env, struct_params, T, rv, posts=None):
        saved = env.names
        env.names = dict(saved)
        try:
            for nm, f in self.binders.items():
                v = f(T, rv)
                if v is None:
                    v = T.fresh_int(16, True, 'unread').s
                env.bind(nm, v)
            return Run19.check_return(self, fn, spec, env, struct_params, T, rv, posts)
        finally:
            env.names = saved


def run_memmem(rep, repo):
    mod = compile_ir(repo + '/igris/string/memmem.c', repo)
    ext = dict(LIBC_EXT)
    ext['memcmp'] = ext_memcmp_content
    ext['memchr'] = ext_memchr_content
    F = 'igris_memmem'
    lim = ['arg1 <= 1048576', 'arg3 <= 1048576']
    uses_memcmp = any(i.op in ('call', 'invoke') and i.callee == 'memcmp' for f in mod.defined() for i in f.all_insts())

    def scen(name, setup, when, then, pre=()):
        if ONLY and ONLY not in name:
            return
        it = SegInterp(mod, externals=ext)
        box = {}

        def at(which, delta):
            def f(T, rv):
                if which == 'ret':
                    if not isinstance(rv, PtrVal) or rv.is_null:
                        return None
                    return seg_peek(it, T, rv.obj, rv.off + delta(T))
                return seg_peek(it, T, box['needle'], delta(T))
            return f
        slen = lambda T: box['slen']
        run = ContentRun(it, [], {'ret_first': at('ret', lambda T: Lin(0)), 'ret_last': at('ret', lambda T: slen(T) - 1),
                                  'needle_first': at('needle', lambda T: Lin(0)),
                                  'needle_last': at('needle', lambda T: slen(T) - 1)})

        def setup2(run_, st, env, pnames, args, sps):
            setup(run_, st, env, pnames, args, sps)
            box['needle'] = run_.argobj[2]
            box['slen'] = env.names['arg3']
        if guarded(F, run.run, F, FnSpec(setup=setup2, pre=lim + list(pre),
                                         post=[dict(name=name, when=when, then=then)])) is not None:
            obs = relabel(summarize(it, run), F)
            if not uses_memcmp:
                # equality of the whole compared range follows from the memcmp model only; a hand-written comparison
                # loop needs a quantified loop invariant that the domain does not have
                # (the same holds for the occurrence clauses when the scan itself is a nest of hand-written loops)
                lost = [o for o in obs if not o['ok'] and o.get('kind') in ('post', 'returns')]
                if lost:
                    BROKEN.append('%s: the match test is not a memcmp call: "%s" cannot be decided' % (F, lost[0]['name']))
                    obs = [o for o in obs if o not in lost]
            rep.add_absint('R-MEMMEM-CONTENT', obs)

    def texts(hay, needle):
        def setup(run, st, env, pnames, args, sps):
            no, ntot = seg_object(st, needle(st, env), 'needle', 'needle s[0..s_len)')
            run.argobj[2] = no.id
            args[2] = PtrVal(no.id, Lin(0))
            st.cons.add_eq(env.names['arg3'], ntot)
            ho, htot = seg_object(st, hay(st, env, no.id), 'haystack', 'haystack l[0..l_len)')
            run.argobj[0] = ho.id
            args[0] = PtrVal(ho.id, Lin(0))
            st.cons.add_eq(env.names['arg1'], htot)
        return setup

    def any_needle(st, env):
        return [seg_ne(fresh_len(st, env, 'k', 1), name='needle')]

    def any_hay(st, env, nid):
        return [seg_ne(fresh_len(st, env, 'h', 1), name='haystack')]
    scen('a match starts with the first and ends with the last byte of the needle (all haystacks, all needles)',
         texts(any_hay, any_needle), ['ret_null == 0'], ['ret_first == needle_first', 'ret_last == needle_last'])

    # first occurrence: the haystack is  x^a . needle . any^t  with x different from the first needle byte
    def needle_n0(kmin):
        def mk(st, env):
            n0 = fresh_char(st, env, 'n0')
            return [seg_in(1, [n0], 'n0'), seg_ne(fresh_len(st, env, 'k', kmin - 1), name='rest')]
        return mk

    def hay_first(st, env, nid):
        a, t = fresh_len(st, env, 'a'), fresh_len(st, env, 't')
        return [seg_ne(a, [env.names['n0']], name='x'), seg_copy(env.names['k'] + 1, nid, 0, 'occurrence'), seg_ne(t, name='any')]

    def hay_none(st, env, nid):
        return [seg_ne(fresh_len(st, env, 'h', 1), [env.names['n0']], name='x')]
    for kmin, tag in ((2, 's_len >= 2'), (1, 's_len >= 1')):
        scen('haystack = x^a needle any^t, x != needle[0] (%s): the result is the occurrence at a' % tag,
             texts(hay_first, needle_n0(kmin)), [], ['ret_null == 0', 'ret_in_arg0 == 1', 'ret_off == a'])
    scen('haystack = x^h, x != needle[0]: none', texts(hay_none, needle_n0(1)), [], ['ret_null == 1'])


# ----------------------------------------------------------------------------------------------------------------------
# (4) path_compare_node: component-wise three-way comparison
# ----------------------------------------------------------------------------------------------------------------------
def run_compare_node(rep, repo):
    mod = witness('w_c19_path.cpp', repo)
    fname = fn_named(mod, 'path_compare_node')
    SL = 47

    def node(kind, ch, first):
        """runs of one path from the compared position on: the common part `first`, then the deciding character"""
        def mk(st, env):
            segs = [first(st, env)]
            if kind == 'ord':
                segs += [seg_in(1, [env.names[ch]], ch), seg_ne(fresh_len(st, env, 'r' + ch), [0], lo=1, name='rest')]
            elif kind == 'slash':
                segs += [seg_in(1, [SL], '/'), seg_ne(fresh_len(st, env, 'r' + ch), [0], lo=1, name='rest')]
            return segs          # kind == 'nul': the string ends behind the common part
        return mk

    def scen(name, ka, kb, order, then):
        if ONLY and ONLY not in name:
            return
        it = SegInterp(mod, externals=LIBC_EXT)
        run = Run19(it, [])

        def setup(run_, st, env, pnames, args, sps):
            k = fresh_len(st, env, 'k')
            x = fresh_char(st, env, 'x', ne=(SL,), lo=1)
            y = fresh_char(st, env, 'y', ne=(SL,), lo=1)
            if order == 'lt':
                st.cons.add_lt(x, y)
            elif order == 'gt':
                st.cons.add_lt(y, x)
            ao, _ = seg_object(st, node(ka, 'x', lambda s_, e_: seg_ne(k, [SL, 0], lo=1, name='common'))(st, env),
                               'a', 'path a', terminated=True)
            bo, _ = seg_object(st, node(kb, 'y', lambda s_, e_: seg_copy(k, ao.id, 0, 'common'))(st, env),
                               'b', 'path b', terminated=True)
            args[0], args[1] = PtrVal(ao.id, Lin(0)), PtrVal(bo.id, Lin(0))
            run_.argobj[0], run_.argobj[1] = ao.id, bo.id
        if guarded('path_compare_node', run.run, fname, FnSpec(setup=setup, post=[dict(name=name, then=then)])) is not None:
            rep.add_absint('R-PATHCMP-CONTENT', relabel(summarize(it, run), 'path_compare_node'))
    E = {'slash': "'/'", 'nul': 'end of string'}
    scen('a = c^k x.., b = c^k y.. with x < y (both inside their nodes): a sorts first', 'ord', 'ord', 'lt', ['ret == -1'])
    scen('a = c^k x.., b = c^k y.. with x > y (both inside their nodes): b sorts first', 'ord', 'ord', 'gt', ['ret == 1'])
    for e in ('slash', 'nul'):
        scen('a = c^k then %s, b = c^k y..: the shorter node a sorts first' % E[e], e, 'ord', None, ['ret == -1'])
        scen('a = c^k x.., b = c^k then %s: the shorter node b sorts first' % E[e], 'ord', e, None, ['ret == 1'])
        for e2 in ('slash', 'nul'):
            scen('a = c^k then %s, b = c^k then %s: equal nodes' % (E[e], E[e2]), e, e2, None, ['ret == 0'])


# ----------------------------------------------------------------------------------------------------------------------
# (5) creader_skip / creader_skipws / creader_readline over an exactly-sized, non-terminated text
# ----------------------------------------------------------------------------------------------------------------------
CREADER = StructSpec('struct.creader', inv=[])


def reader_text(make_segs):
    """FnSpec.setup: reader with strt = text, fini = text + n, cursor = text + c; the scenario runs start at the cursor,
    the c bytes before it are arbitrary"""
    def setup(run, st, env, pnames, args, sps):
        sp = [x for x in sps if x[2] is CREADER]
        if len(sp) != 1:
            raise AnalysisBroken('struct creader parameter not found')
        (name, so, sspec, fs, sname) = sp[0]
        offs = {m['name']: (m['off'], m['ty']['size']) for m in run.mod.flat_fields(sname)}
        for f in ('strt', 'fini', 'cursor'):
            if f not in offs:
                raise AnalysisBroken('struct creader has no field %s' % f)
        c = fresh_len(st, env, 'c')
        segs = [seg_ne(c, name='consumed')] + make_segs(st, env)
        o, total = seg_object(st, segs, 'text', 'reader text [strt, fini)')
        env.bind('n', total)
        run.bufobj = o.id
        run.textobj = o.id
        st.mem[(so.id,) + offs['strt']] = PtrVal(o.id, Lin(0))
        st.mem[(so.id,) + offs['fini']] = PtrVal(o.id, total)
        st.mem[(so.id,) + offs['cursor']] = PtrVal(o.id, c)
    return setup


def run_creader(rep, repo):
    mod = witness('w_c19_path.cpp', repo)
    F = lambda n: fn_named(mod, n)
    ext = dict(LIBC_EXT)
    frame = ['strt_post_off == 0', 'fini_post_off == n', 'cursor_post_in_buf == 1']

    def scen(label, name, make_segs, then, extra=None, hook_idx=None):
        if ONLY and ONLY not in name:
            return
        it = SegInterp(mod, externals=ext)
        it.max_peel = 6
        it.max_peel_states = 8
        run = Run19(it, [CREADER])
        setups = [reader_text(make_segs)] + ([extra] if extra else [])
        if hook_idx is not None:
            def hook(interp, st, inst, p, v):
                if isinstance(p, PtrVal) and p.obj == run.argobj.get(hook_idx) and isinstance(v, PtrVal) and not v.is_null:
                    st.ghost['token_off'] = v.off
                    st.ghost['token_in_buf'] = 1 if v.obj == run.textobj else 0
            it.store_hook = hook
        fn = F(label)
        if guarded(label, run.run, fn, FnSpec(setup=chain(*setups), post=[dict(name=name, then=then + frame)])) is not None:
            rep.add_absint('R-CREADER-CONTENT', relabel(summarize(it, run), label))

    # ---- skipws / skip
    def ws_then_x(st, env):
        return [seg_in(fresh_len(st, env, 'a'), WS4, 'ws'), seg_ne(1, WS4, name='x'), seg_ne(fresh_len(st, env, 't'), name='any')]

    def ws_to_end(st, env):
        return [seg_in(fresh_len(st, env, 'a'), WS4, 'ws')]
    scen('creader_skipws', 'text from the cursor = ws^a x any^t (x not white space): a characters skipped, cursor on x', ws_then_x,
         ['ret == a', 'cursor_post_off == c + a'])
    scen('creader_skipws', 'text from the cursor = ws^a up to the end: a characters skipped, cursor at the end', ws_to_end,
         ['ret == a', 'cursor_post_off == n'])

    def symbols_pq(run, st, env, pnames, args, sps):
        o, total = seg_object(st, [seg_in(1, [env.names['p']]), seg_in(1, [env.names['q']])], 'symbols', 'symbols "pq"',
                              terminated=True)
        args[1] = PtrVal(o.id, Lin(0))
        run.argobj[1] = o.id

    def pq_then_x(st, env):
        p = fresh_char(st, env, 'p', lo=1)
        q = fresh_char(st, env, 'q', lo=1)
        return [seg_in(fresh_len(st, env, 'a'), [p, q], 'pq'), seg_ne(1, [p, q], name='x'), seg_ne(fresh_len(st, env, 't'), name='any')]
    scen('creader_skip', 'symbols = "pq", text from the cursor = {p,q}^a x any^t (x not p, not q): a characters skipped', pq_then_x,
         ['ret == a', 'cursor_post_off == c + a'], extra=symbols_pq)

    # ---- readline: a line ends at LF (or NUL or the end of the text); CRs in front of the LF do not belong to it
    LF, CR = 10, 13
    tok = ['ghost_token_in_buf == 1', 'ghost_token_off == c']
    out1 = fixed_args((1, 8))

    def line(mmin, with_z=True):
        def mk(st, env):
            m, r, t = fresh_len(st, env, 'm', mmin), fresh_len(st, env, 'r'), fresh_len(st, env, 't')
            body = [seg_ne(m, [LF, 0], name='B'), seg_ne(1, [LF, CR, 0], name='z')] if with_z else []
            return body + [seg_in(r, [CR], 'CR'), seg_in(1, [LF], 'LF'), seg_ne(t, name='any')]
        return mk

    def one_char(st, env):
        r, t = fresh_len(st, env, 'r'), fresh_len(st, env, 't')
        return [seg_ne(1, [LF, CR, 0], name='z'), seg_in(r, [CR], 'CR'), seg_in(1, [LF], 'LF'), seg_ne(t, name='any')]

    def unterminated(st, env):
        return [seg_ne(fresh_len(st, env, 'm', 1), [LF, 0], name='B')]

    def nul_line(st, env):
        m, t = fresh_len(st, env, 'm'), fresh_len(st, env, 't')
        return [seg_ne(m, [LF, 0], name='B'), seg_ne(1, [LF, CR, 0], name='z'), seg_in(1, [0], 'NUL'), seg_ne(t, name='any')]
    R = 'creader_readline'
    scen(R, 'text from the cursor = B^m z CR^r LF any^t (m >= 1; B free of LF, NUL; z not CR): the line is B^m z, cursor behind LF',
         line(1), ['ret == m + 1', 'cursor_post_off == c + m + r + 2'] + tok, extra=out1, hook_idx=1)
    scen(R, 'text from the cursor = z CR^r LF any^t (line of one character): the line is z, cursor behind LF',
         one_char, ['ret == 1', 'cursor_post_off == c + r + 2'] + tok, extra=out1, hook_idx=1)
    scen(R, 'text from the cursor = CR^r LF any^t (empty line): length 0, cursor behind LF',
         line(0, False), ['ret == 0', 'cursor_post_off == c + r + 1'] + tok, extra=out1, hook_idx=1)
    scen(R, 'text from the cursor = B^m up to the end (last line without LF, m >= 1): the line is B^m and it is consumed',
         unterminated, ['ret == m', 'cursor_post_off == n'] + tok, extra=out1, hook_idx=1)
    scen(R, 'text from the cursor = B^m z NUL any^t: the line is B^m z (terminator not counted), cursor behind NUL',
         nul_line, ['ret == m + 1', 'cursor_post_off == c + m + 2'] + tok, extra=out1, hook_idx=1)


def run_ext(rep, repo, tier):
    """called at the end of c19.run: adds the content rules to the same report.  An analysis-broken condition of this
    extension must not hide violations already found (by c19's own rules or by other scenarios): it is raised only when
    nothing fails, otherwise printed as a note"""
    del BROKEN[:]
    try:
        run_all(rep, repo, tier)
        if BROKEN:
            raise AnalysisBroken('; '.join(sorted(set(BROKEN)))[:2000])
    except AnalysisBroken as e:
        if not any(not i['ok'] for i in rep.instances):
            raise
        print('NOTE property=%s content rules: %s' % (rep.pid, e))


def run_all(rep, repo, tier):
    rep.explanation += (
        ' CONTENT (checks/c19_content.py): the routines are additionally interpreted over a segmented content model of the '
        'read-only text - a sequence of runs of symbolic lengths whose bytes belong to a class (one of given values / different '
        'from given values / copy of another text), one symbol per position, a byte load at a symbolic offset splits on the run '
        'it lies in.  Decided for ALL run lengths: trim returns exactly [first non-space, last non-space] (white space = '
        'SP, LF, CR, TAB; blank text gives the empty string); split (char and delimiter-set forms) and split_cmdargs hand out '
        'exactly the maximal delimiter-free runs, in order, for texts with 0, 1 and 2 tokens and any amount of leading, '
        'separating and trailing delimiters (quotes: the token is the text between the quotes, an unclosed quote runs to the '
        'end); argvc_internal_split(_n) store exactly the token starts into argv, write a NUL exactly over the first white-space '
        'character behind a token, respect argcmax and stop at a NUL; a non-NULL result of igris_memmem starts with the '
        'first and ends with the last needle byte, and for haystacks x^a needle any^t with x != needle[0] the result is the '
        'occurrence at a (none for x^h); path_compare_node is the three-way comparison of the nodes (common part of any '
        'length, then the first differing character or the end of a node decides; 0 only when both nodes end together); '
        'creader_skip(ws) skips exactly the leading run of the given symbols; creader_readline returns the text up to LF / NUL / '
        'end without trailing CRs and consumes it.  Not decided: texts with three or more tokens (the loop is the same), '
        'characters >= 0x80, join as the inverse of split, replace contents.')
    rep.assumptions += ['content scenarios range over 7-bit characters (signed and unsigned char agree)',
                        'memcmp == 0 is used as: first and last bytes of the two ranges are equal; it is 0 when the first range '
                        'is the scenario\'s copy of the second']
    run_trim(rep, repo)
    run_split(rep, repo)
    run_argvc(rep, repo)
    run_memmem(rep, repo)
    run_compare_node(rep, repo)
    run_creader(rep, repo)
    for rule, n in (('R-TRIM-CONTENT:post', 6), ('R-SPLIT-CONTENT:post', 30), ('R-ARGVC-CONTENT:post', 50),
                    ('R-MEMMEM-CONTENT:post', 8), ('R-PATHCMP-CONTENT:post', 10), ('R-CREADER-CONTENT:post', 35)):
        rep.floor(rule, n)
