"""Element-identity abstract machine for c11_order (see c11_order.py for the domain).

Values
  int                      concrete integer, unsigned representative of its width
  ('p', obj, off)          pointer into object obj (0 = no object: absolute address off, NULL is ('p', 0, 0))
  ('a', obj, off)          the same address as an integer (ptrtoint)
  ('s', lo, hi)            comparator result: signed interval (only its sign is specified)
  ('r', lo, hi)            result of rand(): unknown value in lo..hi (split when reduced modulo a constant)
  ('w', (b0, b1, ...))     value assembled from symbolic bytes (little endian)
  ('f', name)              function pointer
  ('t',)                   opaque token (llvm.stacksave)
Byte contents: int 0..255, atom (tag, element, k), ('x', frozenset(atoms), const) for xor combinations, None =
indeterminate, CELL = part of a non-byte value kept in Obj.cells.

Nothing here executes igris code: the IR is interpreted over this abstract domain; every branch it takes is decided by
concrete sizes/positions or by the oracle's answer, content bytes stay symbolic.
"""

NULLP = ('p', 0, 0)
COMPAR = ('f', '<comparator>')
INT_MIN, INT_MAX = -(1 << 31), (1 << 31) - 1
NEG = ('s', INT_MIN, -1)
POS = ('s', 1, INT_MAX)
CELL = ('cell',)
TOKEN = ('t',)

# closed forms of the C-locale predicates (proved for the bundled ctype.h by C11 R-CTYPE); results are 0 / nonzero
CTYPE = {'isdigit': [(48, 57)], 'isspace': [(9, 13), (32, 32)], 'isupper': [(65, 90)], 'islower': [(97, 122)],
         'isalpha': [(65, 90), (97, 122)]}

SOFT_STEPS = 30000
HARD_STEPS = 45000
MAX_DEPTH = 48
MAX_ALLOCA = 1 << 16


class Unresolved(Exception):
    """the scenario cannot be analysed exactly (-> AnalysisBroken, never a verdict)"""


class Viol(Exception):
    def __init__(self, clause, text):
        Exception.__init__(self, text)
        self.clause = clause
        self.text = text


# ----------------------------------------------------------------------
def show(v):
    if isinstance(v, int):
        return str(v)
    if v is None:
        return 'nothing'
    if v == NULLP:
        return 'NULL'
    if isinstance(v, tuple) and v[0] == 'l':
        return ' + '.join(['%d*%s' % (k, show_byte(a)) for a, k in v[2]] + [str(v[1])])
    if isinstance(v, tuple) and v[0] == 'w':
        return 'bytes' + show_bytes(v[1])
    if isinstance(v, tuple) and v[0] == 'b':
        return 'a condition on %s' % show_byte(v[1])
    return repr(v)


def show_byte(b):
    if b is None:
        return '<indeterminate>'
    if isinstance(b, int):
        return '0x%02x' % b
    if b is CELL or b == CELL:
        return '<part of a pointer/int cell>'
    if b[0] == 'x':
        return '^'.join([show_byte(a) for a in sorted(b[1])] + (['0x%02x' % b[2]] if b[2] else []))
    if b[0] == 'sx':
        return 'signext(%s)' % show_byte(b[1])
    if b[0] == 'e':
        return 'a[%d].byte%d' % (b[1], b[2])
    if b[0] == 'k':
        return 'key.byte%d' % b[2]
    if b[0] == 't':
        return 's[%d]' % b[1]
    return repr(b)


def show_bytes(bs):
    return '[' + ', '.join(show_byte(b) for b in bs) + ']'


def show_ptr(st, p):
    if not (isinstance(p, tuple) and p[0] == 'p'):
        return show(p)
    if p == NULLP:
        return 'NULL'
    o = st.objs.get(p[1])
    if o is None:
        return 'a pointer to dead storage'
    if o.kind == 'array':
        K = st.K
        if K and p[2] % K == 0:
            return '&a[%d]' % (p[2] // K)
        return 'array + %d bytes' % p[2]
    return '%s + %d' % (o.name, p[2])


def whole_elem(bs, K):
    """(tag, e) when the K bytes are bytes 0..K-1 of one element, else None"""
    b0 = bs[0] if bs else None
    if not (isinstance(b0, tuple) and len(b0) == 3 and b0[0] in ('e', 'k')):
        return None
    tag, e = b0[0], b0[1]
    for k in range(K):
        if bs[k] != (tag, e, k):
            return None
    return (tag, e)


def merged(a, b):
    d = dict(a)
    d.update(b)
    return d


def sx(v, w):
    return v - (1 << w) if (v >> (w - 1)) & 1 else v


def xor_byte(a, b):
    if a is None or b is None or a is CELL or b is CELL:
        raise Unresolved('xor of an indeterminate byte')
    if isinstance(a, int) and isinstance(b, int):
        return a ^ b
    sa = isinstance(a, tuple) and a[0] == 'sx'
    sb = isinstance(b, tuple) and b[0] == 'sx'
    if sa or sb:
        # sign-extension bytes: sx(x) ^ sx(y) == sx(x ^ y); a concrete 0x00 / 0xff is the extension of 0x00 / 0x80
        if sa and sb:
            return sx_byte(xor_byte(a[1], b[1]))
        other = b if sa else a
        mine = a if sa else b
        if other == 0:
            return mine
        if other == 255:
            return sx_byte(xor_byte(mine[1], 0x80))
        raise Unresolved('xor of a sign-extension byte with %s' % show_byte(other))

    def parts(x):
        if isinstance(x, int):
            return frozenset(), x
        if x[0] == 'x':
            return x[1], x[2]
        return frozenset([x]), 0
    sa, ca = parts(a)
    sb, cb = parts(b)
    s = sa ^ sb
    c = ca ^ cb
    if not s:
        return c
    if len(s) == 1 and c == 0:
        return next(iter(s))
    return ('x', s, c)


def sx_byte(b):
    """the byte that sign-extends byte content b (0x00 or 0xff, depending on b's top bit)"""
    if isinstance(b, int):
        return 255 if b & 0x80 else 0
    if b is None or b is CELL:
        raise Unresolved('sign extension of an indeterminate byte')
    return ('sx', b)


# ----------------------------------------------------------------------
class Obj:
    __slots__ = ('id', 'kind', 'size', 'bytes', 'cells', 'name')

    def __init__(self, oid, kind, size, name):
        self.id = oid
        self.kind = kind
        self.size = size
        self.bytes = [None] * size
        self.cells = {}
        self.name = name

    def copy(self):
        o = Obj.__new__(Obj)
        o.id = self.id
        o.kind = self.kind
        o.size = self.size
        o.bytes = list(self.bytes)
        o.cells = dict(self.cells)
        o.name = self.name
        return o

    def sig(self):
        return (self.id, tuple(self.bytes), tuple(sorted(self.cells.items())))


class Frame:
    __slots__ = ('fn', 'code', 'env', 'args', 'block', 'idx', 'allocas', 'callsite', 'sig')

    def copy(self):
        f = Frame.__new__(Frame)
        f.fn = self.fn
        f.code = self.code
        f.env = dict(self.env)
        f.args = self.args
        f.block = self.block
        f.idx = self.idx
        f.allocas = list(self.allocas)
        f.callsite = self.callsite
        f.sig = self.sig
        return f


class State:
    __slots__ = ('frames', 'objs', 'S', 'ncmp', 'steps', 'nextobj', 'trail', 'seen', 'log', 'readonly', 'K', 'cur', 'ranges')

    def __init__(self):
        self.frames = []
        self.objs = {}
        self.S = []
        self.ncmp = 0
        self.steps = 0
        self.nextobj = 1
        self.trail = []
        self.seen = None
        self.log = []
        self.readonly = set()
        self.K = 0
        self.cur = None
        self.ranges = {}

    def new_obj(self, kind, size, name):
        o = Obj(self.nextobj, kind, size, name)
        self.nextobj += 1
        self.objs[o.id] = o
        return o

    def copy(self):
        s = State.__new__(State)
        s.frames = [f.copy() for f in self.frames]
        s.objs = {k: o.copy() for k, o in self.objs.items()}
        s.S = self.S
        s.ncmp = self.ncmp
        s.steps = self.steps
        s.nextobj = self.nextobj
        s.trail = list(self.trail)
        s.seen = None if self.seen is None else set(self.seen)
        s.log = list(self.log)
        s.readonly = self.readonly
        s.K = self.K
        s.cur = self.cur
        s.ranges = self.ranges
        return s

    def mem_sig(self, nonlocal_only=False):
        return tuple(o.sig() for _, o in sorted(self.objs.items()) if not (nonlocal_only and o.kind == 'local'))


# ----------------------------------------------------------------------
class Machine:
    def __init__(self, mod, oracle, resolver=None):
        self.mod = mod
        self.oracle = oracle
        self.code = {}
        self.resolver = resolver          # name -> Function defined in another unit of the shim (or None)

    def find_fn(self, name):
        f = self.mod.fn(name)
        if f is not None and not f.decl:
            return f
        if self.resolver is not None:
            f = self.resolver(name)
            if f is not None and not f.decl:
                return f
        return None

    # ---- preparation ----
    def prep(self, f):
        c = self.code.get(id(f))
        if c is not None:
            return c
        c = {}
        for b in f.blocks:
            phis = []
            body = []
            for i in b.insts:
                if i.op == 'dbg':
                    continue
                if i.op == 'phi':
                    phis.append((i.id, dict((bb, self.operand(f, v)) for bb, v in i.incoming)))
                else:
                    body.append((i.op, i, [self.operand(f, v) for v in i.ops]))
            c[b.name] = (phis, body)
        self.code[id(f)] = c
        return c

    def operand(self, f, v):
        """(kind, payload, width)  kind 0 = constant value, 1 = instruction, 2 = argument"""
        k = v.k
        if k == 'inst':
            return (1, v.d['id'], f.insts[v.d['id']].ty.get('bits'))
        if k == 'arg':
            return (2, v.d['i'], f.params[v.d['i']]['ty'].get('bits'))
        if k == 'ci':
            return (0, v.uval, v.d['w'])
        if k == 'null':
            return (0, NULLP, None)
        if k == 'func':
            return (0, ('f', v.d['name']), None)
        if k == 'bb':
            return (0, None, None)
        return (3, v.k, None)

    def new_state(self):
        st = State()
        st.K = getattr(self.oracle, 'K', 0)
        return st

    def enter(self, st, fname, args, callsite=None):
        f = self.find_fn(fname)
        if f is None:
            raise Unresolved('call of %s, which is not defined in the unit' % fname)
        if len(st.frames) >= MAX_DEPTH:
            raise Unresolved('call depth %d' % MAX_DEPTH)
        fr = Frame()
        fr.fn = f
        fr.code = self.prep(f)
        fr.env = {}
        fr.args = list(args)
        fr.block = f.blocks[0].name
        fr.idx = 0
        fr.allocas = []
        fr.callsite = callsite
        # recursion on an unchanged problem never ends
        fr.sig = None
        if any(g.fn is f for g in st.frames):
            sig = (tuple(args), st.mem_sig(True))
            for g in st.frames:
                if g.fn is f and g.sig == sig:
                    raise Viol('terminates', '%s calls itself with the arguments and the memory it was entered with '
                               '(%s; rand() treated as arbitrary): the recursion need not end' % (f.name, ', '.join(show_ptr(st, a) for a in args[:2])))
            fr.sig = sig
        elif not st.frames:
            fr.sig = (tuple(args), st.mem_sig(True))
        st.frames.append(fr)

    def where(self, st):
        i = st.cur
        if i is None:
            return self.fn_where(st)
        return i.where()

    def fn_where(self, st):
        f = st.frames[0].fn if st.frames else None
        return '%s:%d' % (f.file, f.line) if f is not None else ''

    # ---- values ----
    def val(self, fr, o):
        k = o[0]
        if k == 1:
            try:
                return fr.env[o[1]]
            except KeyError:
                raise Unresolved('use of a value that was not computed on this path')
        if k == 0:
            return o[1]
        if k == 2:
            return fr.args[o[1]]
        raise Unresolved('operand kind %s' % o[1])

    # ---- memory ----
    def region(self, st, p, n, what, write):
        if not (isinstance(p, tuple) and p[0] == 'p'):
            raise Unresolved('%s through %s' % (what, show(p)))
        if n == 0:
            return None
        if p[1] == 0:
            raise Viol('frame', '%s of %d byte(s) through %s' % (what, n, 'a null pointer' if p[2] == 0 else 'the address %d' % p[2]))
        o = st.objs.get(p[1])
        if o is None:
            raise Viol('frame', '%s of %d byte(s) in storage that is no longer alive' % (what, n))
        if p[2] < 0 or p[2] + n > o.size:
            K = st.K or 1
            if o.kind == 'array':
                raise Viol('frame', '%s of %d byte(s) at array + %d: outside the array (%d element(s) of %d byte(s) = %d bytes)'
                           % (what, n, p[2], o.size // K, K, o.size))
            raise Viol('frame', '%s of %d byte(s) at offset %d of %s (%d bytes)' % (what, n, p[2], o.name, o.size))
        if write and o.id in st.readonly:
            raise Viol('frame', '%s of %d byte(s) into %s, which the function must not modify' % (what, n, o.name))
        return o

    def read_bytes(self, st, p, n, what='load'):
        o = self.region(st, p, n, what, False)
        if o is None:
            return [], {}
        off = p[2]
        cells = {}
        if o.cells:
            for co, (cs, cv) in o.cells.items():
                if co >= off and co + cs <= off + n:
                    cells[co - off] = (cs, cv)
        return o.bytes[off:off + n], cells

    def write_bytes(self, st, p, bs, cells=None, what='store'):
        n = len(bs)
        o = self.region(st, p, n, what, True)
        if o is None:
            return
        off = p[2]
        if o.cells:
            for co in list(o.cells):
                cs = o.cells[co][0]
                if co < off + n and off < co + cs:
                    del o.cells[co]
                    for k in range(co, co + cs):
                        o.bytes[k] = None
        o.bytes[off:off + n] = bs
        if cells:
            for co, c in cells.items():
                o.cells[off + co] = c
        # a cell marker without its cell (partial copy) is indeterminate
        if CELL in bs:
            covered = set()
            for co, (cs, cv) in (cells or {}).items():
                covered.update(range(co, co + cs))
            for k in range(n):
                if bs[k] is CELL and k not in covered:
                    o.bytes[off + k] = None

    def load(self, st, i, p):
        ty = i.ty
        n = ty.get('size')
        if not n:
            raise Unresolved('load of unsized type')
        bs, cells = self.read_bytes(st, p, n)
        if 0 in cells and cells[0][0] == n:
            return cells[0][1]
        if any(b is CELL for b in bs):
            raise Unresolved('load that splits a pointer-sized cell')
        if all(isinstance(b, int) for b in bs):
            v = 0
            for k, b in enumerate(bs):
                v |= b << (8 * k)
            if ty.get('k') == 'ptr':
                if v == 0:
                    return NULLP
                return ('p', 0, v)
            bits = ty.get('bits')
            if bits is None:
                raise Unresolved('load of a non-integer type')
            return v & ((1 << bits) - 1)
        if ty.get('k') == 'int' and ty.get('bits') == 8 * n:
            return ('w', tuple(bs))
        raise Unresolved('load of symbolic bytes as %s' % ty.get('s'))

    def store(self, st, i, v, p):
        n = i.d.get('store_size')
        if isinstance(v, int):
            self.write_bytes(st, p, [(v >> (8 * k)) & 255 for k in range(n)])
        elif v[0] == 'w':
            if len(v[1]) != n:
                raise Unresolved('store of a %d-byte symbolic value with store size %d' % (len(v[1]), n))
            self.write_bytes(st, p, list(v[1]))
        else:
            self.write_bytes(st, p, [CELL] * n, {0: (n, v)})

    # ---- arithmetic ----
    def binop(self, st, op, a, b, w, i):
        mask = (1 << w) - 1
        if isinstance(a, int) and isinstance(b, int):
            if op == 'add':
                return (a + b) & mask
            if op == 'sub':
                return (a - b) & mask
            if op == 'mul':
                return (a * b) & mask
            if op == 'and':
                return a & b
            if op == 'or':
                return a | b
            if op == 'xor':
                return a ^ b
            if op == 'shl':
                return (a << b) & mask if b < w else 0
            if op == 'lshr':
                return a >> b if b < w else 0
            if op == 'ashr':
                return (sx(a, w) >> min(b, w - 1)) & mask
            if op in ('udiv', 'urem', 'sdiv', 'srem'):
                if b == 0:
                    raise Viol('frame', 'division by zero')
                if op == 'udiv':
                    return a // b
                if op == 'urem':
                    return a % b
                sa, sb = sx(a, w), sx(b, w)
                q = abs(sa) // abs(sb)
                if (sa < 0) != (sb < 0):
                    q = -q
                if op == 'sdiv':
                    return q & mask
                return (sa - q * sb) & mask
            raise Unresolved('integer operation %s' % op)
        ta = a[0] if isinstance(a, tuple) else None
        tb = b[0] if isinstance(b, tuple) else None
        if (ta == 'b' or tb == 'b') and w == 1 and op in ('and', 'or', 'xor') and ta in (None, 'b') and tb in (None, 'b'):
            r = self.bool_op(st, op, a, b)
            if r is not None:
                return r
        if ta == 'b' or tb == 'b':
            x = a if ta == 'b' else b
            raise Unresolved('operation %s on a condition that depends on %s' % (op, show_byte(x[1])))
        if ta == 'a' or tb == 'a':
            if op == 'add' and ta == 'a' and tb is None:
                return ('a', a[1], a[2] + sx(b, w))
            if op == 'add' and tb == 'a' and ta is None:
                return ('a', b[1], b[2] + sx(a, w))
            if op == 'sub' and ta == 'a' and tb is None:
                return ('a', a[1], a[2] - sx(b, w))
            if op == 'sub' and ta == 'a' and tb == 'a' and a[1] == b[1]:
                return (a[2] - b[2]) & mask
            raise Unresolved('address arithmetic %s on %s, %s' % (op, show(a), show(b)))
        if ta == 's' or tb == 's':
            if op == 'sub' and a == 0 and tb == 's':
                return self.interval(-b[2], -b[1], w)
            if op == 'mul' and ((ta == 's' and b == mask) or (tb == 's' and a == mask)):
                s = a if ta == 's' else b
                return self.interval(-s[2], -s[1], w)
            if op == 'xor' and ((ta == 's' and b == mask) or (tb == 's' and a == mask)):
                s = a if ta == 's' else b
                return self.interval(-s[2] - 1, -s[1] - 1, w)
            if op in ('lshr', 'ashr') and ta == 's' and b == w - 1:
                if a[2] < 0:
                    return 1 if op == 'lshr' else mask
                if a[1] >= 0:
                    return 0
            if op == 'and' and ta == 's' and b == 1 << (w - 1):
                if a[2] < 0:
                    return b
                if a[1] >= 0:
                    return 0
            if op in ('add', 'sub') and ta == 's' and tb is None:
                c = sx(b, w)
                c = c if op == 'add' else -c
                return self.interval(a[1] + c, a[2] + c, w)
            raise Viol('sign', 'the comparator result %s is used in `%s` (operands %s, %s): only its sign is specified '
                       '(ISO C 7.22.5: "less than, equal to, or greater than zero")' % (show(a if ta == 's' else b), op, show(a), show(b)))
        if ta == 'r' or tb == 'r':
            if op in ('urem', 'srem') and ta == 'r' and tb is None and 0 < b <= 64 and a[1] >= 0:
                return ('fork', [(k, None, 'rand() %% %d == %d' % (b, k)) for k in range(b)])
            if op == 'and' and ta == 'r' and tb is None and b < 64 and (b & (b + 1)) == 0 and a[1] >= 0:
                return ('fork', [(k, None, 'rand() & %d == %d' % (b, k)) for k in range(b + 1)])
            raise Unresolved('arithmetic %s on the result of rand()' % op)
        if st.ranges and (ta in ('l', 'w') or tb in ('l', 'w')) and ta in (None, 'l', 'w') and tb in (None, 'l', 'w'):
            r = self.lin_binop(st, op, a, b, w)
            if r is not None:
                return r
            if ta == 'l' or tb == 'l':
                raise Unresolved('operation %s on %s, %s' % (op, show(a), show(b)))
        if ta == 'w' or tb == 'w':
            if op == 'xor':
                ba = a[1] if ta == 'w' else [(a >> (8 * k)) & 255 for k in range(w // 8)]
                bb = b[1] if tb == 'w' else [(b >> (8 * k)) & 255 for k in range(w // 8)]
                if len(ba) == len(bb):
                    return self.word(tuple(xor_byte(x, y) for x, y in zip(ba, bb)))
            raise Unresolved('arithmetic %s on element contents' % op)
        raise Unresolved('operation %s on %s, %s' % (op, show(a), show(b)))

    # ---- linear forms over ranged byte symbols (texts of the ato* scenarios) ----
    def lin_of(self, st, v, w):
        """(constant, ((atom, coefficient), ...)) for integers, linear values and zero-extended ranged bytes"""
        if isinstance(v, int):
            return (sx(v, w) if w else v, ())
        if v[0] == 'l':
            return (v[1], v[2])
        if v[0] == 'w':
            b0 = v[1][0]
            if isinstance(b0, tuple) and b0 in st.ranges and all(b == 0 for b in v[1][1:]):
                return (0, ((b0, 1),))
            if all(isinstance(b, int) for b in v[1]):
                return (sx(self.word(v[1]), w), ())
        return None

    @staticmethod
    def lin_range(st, c, terms):
        lo = hi = c
        for a, k in terms:
            r = st.ranges[a]
            if k > 0:
                lo += k * r[0]
                hi += k * r[1]
            else:
                lo += k * r[1]
                hi += k * r[0]
        return lo, hi

    def mk_lin(self, st, c, terms, w):
        """the w-bit value c + sum(k * atom), represented by the integer of its residue class whose range starts inside
        [-2^(w-1), 2^(w-1))"""
        acc = {}
        for a, k in terms:
            acc[a] = acc.get(a, 0) + k
        terms = tuple(sorted((a, k) for a, k in acc.items() if k))
        if not terms:
            return c & ((1 << w) - 1)
        lo, hi = self.lin_range(st, c, terms)
        if hi - lo >= (1 << w):
            raise Unresolved('a %d-bit value that may wrap around (range %d..%d)' % (w, lo, hi))
        half = 1 << (w - 1)
        shift = ((lo + half) >> w) << w
        return ('l', c - shift, terms)

    def lin_binop(self, st, op, a, b, w):
        la, lb = self.lin_of(st, a, w), self.lin_of(st, b, w)
        if la is None or lb is None:
            return None
        if op == 'add':
            return self.mk_lin(st, la[0] + lb[0], la[1] + lb[1], w)
        if op == 'sub':
            return self.mk_lin(st, la[0] - lb[0], la[1] + tuple((x, -k) for x, k in lb[1]), w)
        if op == 'mul':
            if la[1] and lb[1]:
                return None
            if la[1]:
                la, lb = lb, la
            return self.mk_lin(st, la[0] * lb[0], tuple((x, k * la[0]) for x, k in lb[1]), w)
        if op == 'shl' and not lb[1] and 0 <= lb[0] < w:
            return self.mk_lin(st, la[0] << lb[0], tuple((x, k << lb[0]) for x, k in la[1]), w)
        return None

    def split_atom(self, st, atom, truth, what):
        """case split of one ranged byte symbol: maximal sub-ranges on which truth(value) is constant"""
        lo, hi = st.ranges[atom]
        alts = []
        start = lo
        cur = truth(lo)
        for v in range(lo + 1, hi + 2):
            t = truth(v) if v <= hi else None
            if t != cur:
                alts.append((cur, None, '%s in %d..%d' % (show_byte(atom), start, v - 1), {atom: (start, v - 1)}))
                start, cur = v, t
        return ('fork', alts)

    def lazy_bool(self, st, atom, truth):
        """('b', atom, values of the symbol for which the condition holds): a condition on ONE ranged symbol that is not
        decided by its class; the path is split only where such a value reaches a branch (a disjunct that is masked by
        a decided one never splits anything)"""
        lo, hi = st.ranges[atom]
        tv = frozenset(v for v in range(lo, hi + 1) if truth(v))
        if not tv:
            return 0
        if len(tv) == hi - lo + 1:
            return 1
        return ('b', atom, tv)

    def bool_split(self, st, b, on_true, on_false):
        """fork alternatives of the lazy boolean b"""
        return self.split_atom(st, b[1], lambda v: on_true if v in b[2] else on_false, 'bool')[1]

    def bool_op(self, st, op, a, b):
        """and / or / xor of i1 values of which at least one is lazy"""
        ba = isinstance(a, tuple)
        bb = isinstance(b, tuple)
        if ba and bb:
            if a[1] != b[1]:
                return None
            lo, hi = st.ranges[a[1]]
            f = {'and': lambda x, y: x and y, 'or': lambda x, y: x or y, 'xor': lambda x, y: x != y}[op]
            return self.lazy_bool(st, a[1], lambda v: f(v in a[2], v in b[2]))
        if bb:
            a, b = b, a
        c = b & 1
        if op == 'and':
            return a if c else 0
        if op == 'or':
            return 1 if c else a
        if c == 0:
            return a
        return self.lazy_bool(st, a[1], lambda v: v not in a[2])

    def lin_icmp(self, st, pred, a, b, w, may_fork=False):
        la, lb = self.lin_of(st, a, w), self.lin_of(st, b, w)
        if la is None or lb is None:
            return None
        ra, rb = self.lin_range(st, *la), self.lin_range(st, *lb)
        half = 1 << (w - 1)
        if pred[0] == 'u':
            # unsigned view of both sides
            def uns(l, r):
                if r[0] >= 0:
                    return l, r
                if r[1] < 0:
                    return (l[0] + (1 << w), l[1]), (r[0] + (1 << w), r[1] + (1 << w))
                raise Unresolved('unsigned comparison of a value whose sign is not known')
            la, ra = uns(la, ra)
            lb, rb = uns(lb, rb)
            if ra[1] >= (1 << w) or rb[1] >= (1 << w):
                raise Unresolved('unsigned comparison of a value that may wrap')
        elif pred[0] == 's' and (ra[1] >= half or rb[1] >= half or ra[0] < -half or rb[0] < -half):
            raise Unresolved('signed comparison of a value outside the signed range')
        acc = {}
        for x, k in la[1]:
            acc[x] = acc.get(x, 0) + k
        for x, k in lb[1]:
            acc[x] = acc.get(x, 0) - k
        terms = tuple((x, k) for x, k in acc.items() if k)
        dlo, dhi = self.lin_range(st, la[0] - lb[0], terms)
        if pred in ('eq', 'ne'):
            if pred in ('eq', 'ne') and (ra[1] - ra[0] >= (1 << w) or rb[1] - rb[0] >= (1 << w)):
                raise Unresolved('comparison of a value that may wrap')
            if dlo > 0 or dhi < 0:
                # the two representatives differ by less than 2^w?  only then "different integers" means "different values"
                if dhi - dlo < (1 << w) and max(abs(dlo), abs(dhi)) < (1 << w):
                    return 1 if pred == 'ne' else 0
                raise Unresolved('comparison modulo 2^%d' % w)
            if dlo == 0 and dhi == 0:
                return 1 if pred == 'eq' else 0
            if may_fork and len(terms) == 1 and dhi - dlo < (1 << w) and max(abs(dlo), abs(dhi)) < (1 << w):
                (x, k), c0 = terms[0], la[0] - lb[0]
                return self.lazy_bool(st, x, lambda v: self.rel(pred, c0 + k * v, 0))
            raise Unresolved('a branch depends on the characters of the text beyond their class (%s %s %s)' % (show(a), pred, show(b)))
        lo_r, hi_r = self.rel(pred, dlo, 0), self.rel(pred, dhi, 0)
        if lo_r == hi_r:
            return lo_r
        if may_fork and len(terms) == 1:
            (x, k), c0 = terms[0], la[0] - lb[0]
            return self.lazy_bool(st, x, lambda v: self.rel(pred, c0 + k * v, 0))
        raise Unresolved('a branch depends on the characters of the text beyond their class (%s %s %s)' % (show(a), pred, show(b)))

    def word(self, bs):
        if all(isinstance(b, int) for b in bs):
            v = 0
            for k, b in enumerate(bs):
                v |= b << (8 * k)
            return v
        return ('w', tuple(bs))

    def interval(self, lo, hi, w):
        lo = max(lo, -(1 << (w - 1)))
        hi = min(hi, (1 << (w - 1)) - 1)
        if lo == hi:
            return lo & ((1 << w) - 1)
        return ('s', lo, hi)

    def icmp(self, st, pred, a, b, w, may_fork=False):
        ia, ib = isinstance(a, int), isinstance(b, int)
        if ia and ib:
            if pred[0] == 's':
                a, b = sx(a, w), sx(b, w)
            return self.rel(pred, a, b)
        ta = None if ia else a[0]
        tb = None if ib else b[0]
        if ta == 'b' and ib and pred in ('eq', 'ne'):
            return a if (pred == 'ne') == (b == 0) else self.bool_op(st, 'xor', a, 1)
        if ta in ('p', 'a') or tb in ('p', 'a'):
            if ia:
                a = ('p', 0, a)
            if ib:
                b = ('p', 0, b)
            if a[0] not in ('p', 'a') or b[0] not in ('p', 'a'):
                raise Unresolved('comparison of %s with %s' % (show(a), show(b)))
            if a[1] == b[1]:
                return self.rel(pred, a[2], b[2])
            # distinct objects: only (in)equality with NULL / between live objects is defined
            for x in (a, b):
                if x[1] and x[1] not in st.objs:
                    raise Unresolved('comparison with a dead pointer')
            if a[1] == 0 and a[2] == 0:
                return self.rel(pred, 0, 1)
            if b[1] == 0 and b[2] == 0:
                return self.rel(pred, 1, 0)
            if pred in ('eq', 'ne'):
                oa, ob = st.objs.get(a[1]), st.objs.get(b[1])
                if oa is not None and ob is not None and 0 <= a[2] < max(oa.size, 1) and 0 <= b[2] < max(ob.size, 1):
                    return 1 if pred == 'ne' else 0
            raise Unresolved('comparison of pointers into different objects')
        if ta == 's' or tb == 's':
            if ta == 's' and tb == 's':
                raise Unresolved('comparison of two comparator results')
            if tb == 's':
                a, b, ia, ib = b, a, ib, ia
                pred = {'slt': 'sgt', 'sgt': 'slt', 'sle': 'sge', 'sge': 'sle', 'ult': 'ugt', 'ugt': 'ult', 'ule': 'uge',
                        'uge': 'ule'}.get(pred, pred)
            if not isinstance(b, int):
                raise Unresolved('comparison of a comparator result with %s' % show(b))
            lo, hi = a[1], a[2]
            if pred[0] == 'u':
                # unsigned view: decidable when the interval does not straddle zero
                if hi < 0:
                    lo, hi = lo + (1 << w), hi + (1 << w)
                elif lo < 0:
                    lo, hi = None, None
                c = b
            else:
                c = sx(b, w)
            if lo is not None:
                r1 = self.rel(pred, lo, c)
                r2 = self.rel(pred, hi, c)
                if pred in ('eq', 'ne'):
                    if c < lo or c > hi:
                        return r1
                elif r1 == r2:
                    return r1
            raise Viol('sign', 'a branch tests the comparator result with `%s %d`, which its sign does not decide: only '
                       'the sign is specified (ISO C 7.22.5: "less than, equal to, or greater than zero")'
                       % (pred, b if pred[0] == 'u' else sx(b, w)))
        if st.ranges and ta in (None, 'l', 'w') and tb in (None, 'l', 'w'):
            r = self.lin_icmp(st, pred, a, b, w, may_fork)
            if r is not None:
                return r
        if ta == 'w' or tb == 'w':
            raise Unresolved('a branch depends on the bytes of an element')
        raise Unresolved('comparison of %s with %s' % (show(a), show(b)))

    @staticmethod
    def rel(pred, a, b):
        if pred == 'eq':
            return int(a == b)
        if pred == 'ne':
            return int(a != b)
        p = pred[1:]
        if p == 'lt':
            return int(a < b)
        if p == 'le':
            return int(a <= b)
        if p == 'gt':
            return int(a > b)
        if p == 'ge':
            return int(a >= b)
        raise Unresolved('predicate %s' % pred)

    # ---- calls ----
    def mem_intrinsic(self, st, name, args):
        base = name
        if base.startswith('llvm.'):
            base = base.split('.')[1]
        if base.startswith('__') and base.endswith('_chk'):
            base = base[2:-4]
        n = args[2]
        if not isinstance(n, int):
            raise Unresolved('%s with a length that is not concrete (%s)' % (name, show(n)))
        if n > MAX_ALLOCA:
            raise Viol('frame', '%s of %d bytes' % (base, n))
        dst = args[0]
        if base in ('memcpy', 'memmove', 'mempcpy'):
            src = args[1]
            bs, cells = self.read_bytes(st, src, n, base + ' source')
            if base != 'memmove' and n and isinstance(dst, tuple) and isinstance(src, tuple) and dst[0] == 'p' and src[0] == 'p' \
                    and dst[1] == src[1] and dst[2] != src[2] and abs(dst[2] - src[2]) < n:
                raise Viol('frame', 'memcpy between overlapping regions (%s and %s, %d bytes): the copy is undefined'
                           % (show_ptr(st, dst), show_ptr(st, src), n))
            self.write_bytes(st, dst, list(bs), cells, base + ' destination')
            if base == 'mempcpy':
                return ('p', dst[1], dst[2] + n)
            return dst
        if base == 'memset':
            c = args[1]
            if not isinstance(c, int):
                raise Unresolved('memset with a symbolic fill byte')
            self.write_bytes(st, dst, [c & 255] * n, None, 'memset')
            return dst
        raise Unresolved('call of %s' % name)

    def call(self, st, fr, i, ops):
        d = i.d
        cal = d.get('callee') or {}
        name = None
        if cal.get('k') == 'func':
            name = cal['name']
        else:
            cv = self.val(fr, self.operand(fr.fn, i.callee_v))
            if not (isinstance(cv, tuple) and cv[0] == 'f'):
                raise Unresolved('indirect call through %s' % show(cv))
            if cv == COMPAR:
                args = [self.val(fr, o) for o in ops]
                st.ncmp += 1
                alts = self.oracle.call(self, st, args)
                return ('fork', alts)
            name = cv[1]
        args = [self.val(fr, o) for o in ops]
        if self.find_fn(name) is not None:
            fr.idx += 1
            self.enter(st, name, args, i)
            return ('entered',)
        if name == '__errno_location':
            for o in st.objs.values():
                if o.kind == 'errno':
                    return ('p', o.id, 0)
            o = st.new_obj('errno', 4, 'errno')
            o.bytes = [0, 0, 0, 0]
            return ('p', o.id, 0)
        if name in ('memcpy', 'memmove', 'memset', 'mempcpy', '__memcpy_chk', '__memmove_chk', '__memset_chk') or \
                name.startswith(('llvm.memcpy', 'llvm.memmove', 'llvm.memset')):
            return self.mem_intrinsic(st, name, args)
        if name in CTYPE and st.ranges and len(args) == 1:
            l = self.lin_of(st, args[0], 32)
            if l is None:
                raise Unresolved('%s(%s)' % (name, show(args[0])))
            lo, hi = self.lin_range(st, *l)
            if any(a <= lo and hi <= b for a, b in CTYPE[name]):
                return 1
            if all(hi < a or lo > b for a, b in CTYPE[name]):
                return 0
            if len(l[1]) == 1 and l[1][0][1] == 1:
                x, c0 = l[1][0][0], l[0]
                return ('fork', self.split_atom(st, x, lambda v: int(any(a <= c0 + v <= b for a, b in CTYPE[name])), name)[1])
            raise Unresolved('%s() of a character whose class (%d..%d) does not decide it' % (name, lo, hi))
        if name in ('rand', 'random', 'lrand48'):
            return ('r', 0, INT_MAX)
        if name == 'llvm.stacksave':
            return TOKEN
        if name in ('llvm.stackrestore', 'llvm.assume', 'llvm.donothing') or name.startswith('llvm.experimental.noalias'):
            return None
        if name.startswith('llvm.expect'):
            return args[0]
        if name in ('llvm.umin.i64', 'llvm.umax.i64', 'llvm.smin.i64', 'llvm.smax.i64') and all(isinstance(x, int) for x in args):
            a, b = args
            if name[5] == 's':
                a, b = sx(a, 64), sx(b, 64)
            r = min(a, b) if 'min' in name else max(a, b)
            return r & ((1 << 64) - 1)
        raise Unresolved('call of %s, which has no summary' % name)

    # ---- the interpreter loop ----
    def snapshot(self, st):
        return (tuple((f.fn.name, f.block, f.idx, tuple(sorted(f.env.items(), key=lambda kv: kv[0]))) for f in st.frames),
                st.mem_sig())

    def goto(self, st, fr, target):
        phis, body = fr.code[target]
        if phis:
            prev = fr.block
            vals = []
            for (pid, inc) in phis:
                o = inc.get(prev)
                if o is None:
                    raise Unresolved('phi without an incoming value for %s' % prev)
                if o[0] == 3:
                    vals.append((pid, ('undef',)))
                else:
                    vals.append((pid, self.val(fr, o)))
            for pid, v in vals:
                fr.env[pid] = v
        fr.block = target
        fr.idx = 0
        if st.steps > SOFT_STEPS:
            if st.seen is None:
                st.seen = set()
            k = hash(self.snapshot(st))
            if k in st.seen:
                raise Viol('terminates', 'the same state (position, locals, memory) is reached twice in %s: the loop never ends'
                           % fr.fn.name)
            st.seen.add(k)

    def run(self, st):
        """runs the state until it forks, returns from the outermost frame or fails.
        -> ('fork', [states]) | ('ret', value)"""
        while True:
            fr = st.frames[-1]
            body = fr.code[fr.block][1]
            op, i, ops = body[fr.idx]
            st.steps += 1
            st.cur = i
            if st.steps > HARD_STEPS:
                raise Unresolved('step budget exhausted without a repeated state')
            r = self.exec(st, fr, op, i, ops)
            if r is None:
                continue
            kind = r[0]
            if kind == 'ret':
                return r
            if kind == 'forkgoto':
                out = []
                for n, (tgt, S, label, rg) in enumerate(r[1]):
                    s2 = st if n == len(r[1]) - 1 else st.copy()
                    s2.ranges = merged(s2.ranges, rg)
                    s2.trail.append(label)
                    self.goto(s2, s2.frames[-1], tgt)
                    out.append(s2)
                return ('fork', out)
            if kind == 'fork':
                alts = r[1]
                out = []
                for n, alt in enumerate(alts):
                    v, S, label = alt[0], alt[1], alt[2]
                    s2 = st if n == len(alts) - 1 else st.copy()
                    f2 = s2.frames[-1]
                    f2.env[i.id] = v
                    f2.idx += 1
                    if S is not None:
                        s2.S = S
                    if label:
                        s2.trail.append(label)
                    if len(alt) > 3 and alt[3]:
                        s2.ranges = merged(s2.ranges, alt[3])
                    out.append(s2)
                return ('fork', out)

    def exec(self, st, fr, op, i, ops):
        val = self.val
        if op == 'br':
            if len(ops) == 1:
                self.goto(st, fr, i.d['t'])
                return None
            c = val(fr, ops[0])
            if not isinstance(c, int):
                if isinstance(c, tuple) and c[0] == 'b':
                    return ('forkgoto', self.bool_split(st, c, i.d['t'], i.d['f']))
                raise Unresolved('branch on %s' % show(c))
            self.goto(st, fr, i.d['t'] if c & 1 else i.d['f'])
            return None
        if op == 'icmp':
            a, b = val(fr, ops[0]), val(fr, ops[1])
            w = ops[0][2] or ops[1][2] or 64
            r = self.icmp(st, i.d['pred'], a, b, w, True)
            if isinstance(r, tuple) and r[0] == 'fork':
                return r
            fr.env[i.id] = r
            fr.idx += 1
            return None
        if op == 'getelementptr':
            p = val(fr, ops[0])
            if not (isinstance(p, tuple) and p[0] == 'p'):
                raise Unresolved('pointer arithmetic on %s' % show(p))
            off = p[2]
            k = 1
            for s in i.d['gep']['steps']:
                if s['k'] == 'field':
                    off += s['off']
                else:
                    o = ops[k]
                    v = val(fr, o)
                    if not isinstance(v, int):
                        if isinstance(v, tuple) and v[0] == 'a' and p[1] == 0 and s['stride'] == 1:
                            # null + address (integer-cast pointer arithmetic)
                            p = ('p', v[1], 0)
                            off += v[2]
                            k += 1
                            continue
                        raise Unresolved('pointer arithmetic with index %s' % show(v))
                    off += s['stride'] * sx(v, o[2] or 64)
                k += 1
            fr.env[i.id] = ('p', p[1], off)
            fr.idx += 1
            return None
        if op == 'call':
            r = self.call(st, fr, i, ops)
            if isinstance(r, tuple) and r and r[0] == 'entered':
                return None
            if isinstance(r, tuple) and r and r[0] == 'fork':
                return r
            if r is not None:
                fr.env[i.id] = r
            fr.idx += 1
            return None
        if op == 'ret':
            v = val(fr, ops[0]) if ops else None
            for oid in fr.allocas:
                st.objs.pop(oid, None)
            st.frames.pop()
            if not st.frames:
                return ('ret', v)
            if v is not None and fr.callsite is not None:
                st.frames[-1].env[fr.callsite.id] = v
            return None
        if op in ('add', 'sub', 'mul', 'and', 'or', 'xor', 'shl', 'lshr', 'ashr', 'udiv', 'urem', 'sdiv', 'srem'):
            r = self.binop(st, op, val(fr, ops[0]), val(fr, ops[1]), i.ty['bits'], i)
            if isinstance(r, tuple) and r[0] == 'fork':
                return r
            fr.env[i.id] = r
            fr.idx += 1
            return None
        if op == 'load':
            fr.env[i.id] = self.load(st, i, val(fr, ops[0]))
            fr.idx += 1
            return None
        if op == 'store':
            self.store(st, i, val(fr, ops[0]), val(fr, ops[1]))
            fr.idx += 1
            return None
        if op == 'alloca':
            cnt = val(fr, ops[0]) if ops else 1
            if not isinstance(cnt, int):
                raise Unresolved('alloca with count %s' % show(cnt))
            size = cnt * i.d['alloc_ty'].get('size', 0)
            if size > MAX_ALLOCA:
                raise Viol('frame', 'a local buffer of %d bytes is allocated' % size)
            o = st.new_obj('local', size, 'the local buffer `%s` of %s' % (i.name or 'tmp', fr.fn.name))
            fr.allocas.append(o.id)
            fr.env[i.id] = ('p', o.id, 0)
            fr.idx += 1
            return None
        if op in ('sext', 'zext', 'trunc'):
            v = val(fr, ops[0])
            w0 = ops[0][2]
            w1 = i.ty['bits']
            if isinstance(v, int):
                if op == 'sext':
                    v = sx(v, w0) & ((1 << w1) - 1)
                elif op == 'trunc':
                    v &= (1 << w1) - 1
            elif v[0] == 'b' and op in ('zext', 'sext'):
                return ('fork', self.bool_split(st, v, 1 if op == 'zext' else (1 << w1) - 1, 0))
            elif v[0] == 'l':
                lo, hi = self.lin_range(st, v[1], v[2])
                if op == 'zext' and not (0 <= lo and hi < (1 << w0)):
                    if len(v[2]) == 1 and -(1 << w0) <= lo and hi < (1 << w0):
                        # one symbol: split its range at the sign change; the negative part is the value + 2^w0
                        (x, k), c0 = v[2][0], v[1]
                        r = self.split_atom(st, x, lambda t: c0 + k * t < 0, 'zext')
                        alts = []
                        for (neg, S, label, rg) in r[1]:
                            class _R:
                                ranges = merged(st.ranges, rg)
                            alts.append((self.mk_lin(_R, c0 + ((1 << w0) if neg else 0), v[2], w1), None, label, rg))
                        return ('fork', alts)
                    raise Unresolved('zext of a value that may be negative or wrap (%d..%d)' % (lo, hi))
                if op == 'sext' and not (-(1 << (w0 - 1)) <= lo and hi < (1 << (w0 - 1))):
                    raise Unresolved('sext of a value outside the signed range (%d..%d)' % (lo, hi))
                v = self.mk_lin(st, v[1], v[2], w1)
            elif v[0] == 'w' and op == 'sext' and len(v[1]) == 1 and v[1][0] in st.ranges and w1 % 8 == 0:
                # plain (signed) char: the byte symbol itself up to 127, symbol - 256 from 128 on
                x = v[1][0]
                lo, hi = st.ranges[x]
                if hi <= 127:
                    v = ('w', v[1] + (0,) * (w1 // 8 - 1))
                elif lo >= 128:
                    v = self.mk_lin(st, -256, ((x, 1),), w1)
                else:
                    r = self.split_atom(st, x, lambda t: t >= 128, 'sext')
                    alts = []
                    for (neg, S, label, rg) in r[1]:
                        class _R:
                            ranges = merged(st.ranges, rg)
                        alts.append((self.mk_lin(_R, -256, ((x, 1),), w1) if neg else ('w', v[1] + (0,) * (w1 // 8 - 1)),
                                     None, label, rg))
                    return ('fork', alts)
            elif v[0] == 'w' and w1 % 8 == 0 and 8 * len(v[1]) == w0:
                bs = v[1]
                if op == 'trunc':
                    v = self.word(bs[:w1 // 8])
                elif op == 'zext':
                    v = ('w', bs + (0,) * (w1 // 8 - len(bs)))
                else:
                    v = ('w', bs + (sx_byte(bs[-1]),) * (w1 // 8 - len(bs)))
            elif v[0] == 's' and op == 'sext':
                pass
            elif v[0] == 'r' and op in ('sext', 'zext') and v[1] >= 0:
                pass
            elif v[0] == 'a' and w1 >= 64:
                pass
            elif v[0] == 's':
                raise Viol('sign', 'the comparator result is converted with %s to %d bits: only its sign is specified' % (op, w1))
            else:
                raise Unresolved('%s of %s' % (op, show(v)))
            fr.env[i.id] = v
            fr.idx += 1
            return None
        if op == 'ptrtoint':
            v = val(fr, ops[0])
            if not (isinstance(v, tuple) and v[0] == 'p'):
                raise Unresolved('ptrtoint of %s' % show(v))
            fr.env[i.id] = v[2] if v[1] == 0 else ('a', v[1], v[2])
            fr.idx += 1
            return None
        if op == 'inttoptr':
            v = val(fr, ops[0])
            if isinstance(v, int):
                v = ('p', 0, v)
            elif v[0] == 'a':
                v = ('p', v[1], v[2])
            else:
                raise Unresolved('inttoptr of %s' % show(v))
            fr.env[i.id] = v
            fr.idx += 1
            return None
        if op in ('bitcast', 'freeze'):
            fr.env[i.id] = val(fr, ops[0])
            fr.idx += 1
            return None
        if op == 'select':
            c = val(fr, ops[0])
            if isinstance(c, tuple) and c[0] == 'b':
                x, y = val(fr, ops[1]), val(fr, ops[2])
                if x == y:
                    fr.env[i.id] = x
                    fr.idx += 1
                    return None
                if i.ty.get('bits') == 1 and isinstance(x, int) and isinstance(y, int):
                    # select c, 1, 0 = c ; select c, 0, 1 = !c
                    fr.env[i.id] = c if x else self.bool_op(st, 'xor', c, 1)
                    fr.idx += 1
                    return None
                return ('fork', self.bool_split(st, c, x, y))
            if not isinstance(c, int):
                raise Unresolved('select on %s' % show(c))
            fr.env[i.id] = val(fr, ops[1] if c & 1 else ops[2])
            fr.idx += 1
            return None
        if op == 'switch':
            v = val(fr, ops[0])
            w = ops[0][2] or 64
            if not isinstance(v, int):
                if isinstance(v, tuple) and v[0] == 's':
                    raise Viol('sign', 'a switch on the comparator result: only its sign is specified')
                if st.ranges and isinstance(v, tuple) and v[0] in ('l', 'w'):
                    l = self.lin_of(st, v, w)
                    if l is not None and len(l[1]) == 1:
                        lo, hi = self.lin_range(st, *l)
                        if -(1 << (w - 1)) <= lo and hi < (1 << w):
                            (x, k), c0 = l[1][0], l[0]
                            cases = dict((sx(c['v'] & ((1 << w) - 1), w), c['bb']) for c in i.d['cases'])
                            ucases = dict((c['v'] & ((1 << w) - 1), c['bb']) for c in i.d['cases'])

                            def target(t):
                                m = c0 + k * t
                                return cases.get(m) or ucases.get(m) or i.d['default']
                            r = self.split_atom(st, x, target, 'switch')
                            if len(r[1]) == 1:
                                self.goto(st, fr, r[1][0][0])
                                return None
                            return ('forkgoto', r[1])
                    tgt = i.d['default']
                    for c in i.d['cases']:
                        if self.icmp(st, 'eq', v, c['v'] & ((1 << w) - 1), w):
                            tgt = c['bb']
                            break
                    self.goto(st, fr, tgt)
                    return None
                raise Unresolved('switch on %s' % show(v))
            tgt = i.d['default']
            for c in i.d['cases']:
                if (c['v'] & ((1 << w) - 1)) == v:
                    tgt = c['bb']
                    break
            self.goto(st, fr, tgt)
            return None
        if op == 'unreachable':
            raise Unresolved('unreachable executed')
        raise Unresolved('instruction %s' % op)
