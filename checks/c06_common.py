"""Shared part of the printf checks C06 (integer / char / string / pointer conversions) and C13 (floating
conversions): both properties live in igris/util/printf_impl.c.

  unit()            the translation unit as IR (ctype classification kept as calls: -D__NO_CTYPE)
  loopvar_rule()    R-LOOPVAR  a loop whose exit tests read only loop-invariant values never terminates once entered
  parser_tables()   flag / length-modifier characters -> bits of the directive word, read from the parser's IR
  vaarg_sites()     every va_arg fetch with the type it reads, the conversions applied and the (conversion, length) it serves
  dispatch()        conversion character -> formatting routine and its constant arguments (partial evaluation per case)
  Layout            symbolic execution (c06_sx) of a formatting routine + comparison with a closed-form model
"""
import os
from common import *
from irlib import V
from lin import Lin, Cons, cone, _fm_unsat, TooHard
from c06_sx import SX, P, Fv, Sel, vkey

SRC = 'igris/util/printf_impl.c'
# positional signatures (never parameter names): number of parameters
SIG = {'__printf': 4, 'print_i': 8, 'print_s': 6, 'print_f': 9}
HANDLER, FORMAT, VALIST = 0, 2, 3
PURE_CALLS = {'isdigit', 'isupper', 'islower', 'isalpha', 'isalnum', 'isxdigit', 'isspace', 'ispunct', 'isprint',
              'isgraph', 'tolower', 'toupper', 'strlen', 'strnlen', 'atoi', 'abs', '__ctype_b_loc',
              '__ctype_tolower_loc', '__ctype_toupper_loc', 'fabs', 'fabsl', 'fmod', 'fmodl', 'log10', 'log10l',
              'pow', 'powl', 'ceil', 'ceill', 'round', 'roundl', 'floor', 'floorl'}
# classification functions that are false for the terminator
NONNUL_CLASS = {'isdigit', 'isupper', 'islower', 'isalpha', 'isalnum', 'isxdigit', 'ispunct', 'isprint', 'isgraph'}


def unit(repo, cse=False):
    path = os.path.join(repo, SRC)
    if not os.path.exists(path):
        raise AnalysisBroken('%s is gone' % SRC)
    # helper functions a refactoring may introduce (a shared fill/emit loop, a digit-to-character helper, a flag
    # classifier ...) are folded into their callers; the four routines the rules anchor on stay functions
    from irlib import keep_all_but_new_helpers
    # early-cse merges repeated loads of the same character (`if (*p == '-') .. else if (*p == '+') ..`), after which
    # simplifycfg turns such a chain of equality tests into the switch the parser rules work on
    mod = compile_ir(path, repo, ['-D__NO_CTYPE'],
                     passes='mem2reg,instsimplify,early-cse,simplifycfg' if cse else 'mem2reg,instsimplify,simplifycfg',
                     out_name='printf_impl_cse' if cse else None,
                     inline=keep_all_but_new_helpers(('print_buf', 'print_s', 'print_i', 'print_f')))
    for name, n in SIG.items():
        f = mod.fn(name)
        if f is None or f.decl:
            raise AnalysisBroken('%s: function %s not found (anchor vanished)' % (SRC, name))
        if len(f.params) != n:
            raise AnalysisBroken('%s: %s has %d parameters, expected %d' % (SRC, name, len(f.params), n))
    return mod


def where_fn(f):
    return '%s:%d' % (f.file, f.line)


def strip_casts(f, v):
    while True:
        i = f.inst_of(v)
        if i is not None and i.op in ('sext', 'zext', 'trunc', 'bitcast'):
            v = i.ops[0]
            continue
        return v


# ----------------------------------------------------------------------------------------------
# R-LOOPVAR
# ----------------------------------------------------------------------------------------------
def loop_invariant_values(f, L):
    """SSA keys of values computed inside loop L that are nevertheless the same in every iteration"""
    blocks = L['blocks']
    insts = [i for b in blocks for i in b.insts if i.op != 'dbg']
    impure = any(i.op == 'store' or (i.op in ('call', 'invoke') and (i.callee is None or i.callee not in PURE_CALLS)
                                     and not (i.callee or '').startswith('llvm.dbg'))
                 for i in insts)
    inv = set()

    def is_inv(v):
        if v.k in ('ci', 'cf', 'null', 'global', 'func', 'arg', 'cexpr', 'undef'):
            return True
        if v.k == 'inst':
            return f.insts[v.id].block not in blocks or ('i', v.id) in inv
        return False
    changed = True
    while changed:
        changed = False
        for i in insts:
            k = ('i', i.id)
            if k in inv or i.op in ('phi', 'store', 'br', 'switch', 'ret', 'alloca', 'invoke'):
                continue
            if i.op == 'call':
                if i.callee is None or i.callee not in PURE_CALLS:
                    continue
                if impure and i.callee in ('strlen', 'strnlen', 'atoi'):
                    continue
            if i.op == 'load' and impure:
                continue
            if all(is_inv(o) for o in i.ops):
                inv.add(k)
                changed = True
    return inv, is_inv


def describe_value(f, v, depth=0):
    if v.k == 'ci':
        return str(v.ival)
    if v.k == 'arg':
        return 'arg%d' % v.argno
    i = f.inst_of(v)
    if i is None:
        return v.k
    if i.op in ('sext', 'zext', 'trunc', 'bitcast') and depth < 6:
        return describe_value(f, i.ops[0], depth + 1)
    if i.op == 'call' and i.callee and depth < 6:
        return '%s(%s)' % (i.callee, ','.join(describe_value(f, o, depth + 1) for o in i.ops))
    if i.op == 'load' and depth < 6:
        return '*' + describe_value(f, i.ops[0], depth + 1)
    if i.op == 'icmp' and depth < 6:
        return '%s %s %s' % (describe_value(f, i.ops[0], depth + 1), i.pred, describe_value(f, i.ops[1], depth + 1))
    n = f.var_name(v)
    return n or ('%%%d' % i.id)


def loopvar_rule(rep, rule, mod, fnames):
    """every loop has at least one exit whose condition can change between iterations"""
    n = 0
    for fname in fnames:
        f = mod.fn(fname)
        order = {b: k for k, b in enumerate(f.rpo)}
        for k, L in enumerate(sorted(f.loops, key=lambda l: order.get(l['header'], 0))):
            inv, is_inv = loop_invariant_values(f, L)
            variant = False
            descr = []
            for (src, dst) in L['exits']:
                t = src.term
                if t.op == 'br' and 'f' in t.d:
                    c = t.ops[0]
                    descr.append(describe_value(f, c))
                    if not is_inv(c):
                        variant = True
                elif t.op == 'switch':
                    descr.append(describe_value(f, t.ops[0]))
                    if not is_inv(t.ops[0]):
                        variant = True
                else:
                    variant = True
            key = 'loop#%d exits on (%s)' % (k + 1, ' | '.join(sorted(set(descr))))
            rep.inst(rule, fname, key, variant, L['header'].term.where(),
                     None if variant else 'every exit test of this loop reads only values that do not change inside the '
                     'loop (%s): once entered the loop never terminates' % '; '.join(sorted(set(descr))),
                     fact={'exit_conditions': sorted(set(descr))})
            n += 1
    return n


# ----------------------------------------------------------------------------------------------
# cursor helpers (the format pointer and everything derived from it)
# ----------------------------------------------------------------------------------------------
def cursor_values(f, root_arg=FORMAT):
    """SSA keys of pointers derived from the format parameter by phi / select / constant gep / bitcast"""
    cur = {('a', root_arg)}
    changed = True
    while changed:
        changed = False
        for i in f.all_insts():
            k = ('i', i.id)
            if k in cur or i.ty.get('k') != 'ptr':
                continue
            hit = False
            if i.op == 'phi':
                hit = any(o.key() in cur for o in i.ops if o.k in ('inst', 'arg'))
            elif i.op == 'select':
                hit = any(o.key() in cur for o in i.ops[1:] if o.k in ('inst', 'arg'))
            elif i.op in ('getelementptr', 'bitcast'):
                hit = i.ops[0].k in ('inst', 'arg') and i.ops[0].key() in cur
            if hit:
                cur.add(k)
                changed = True
    return cur


def gep_const_step(i):
    """constant byte offset of a gep, or None"""
    off = 0
    for s in i.d['gep']['steps']:
        if s['k'] == 'field':
            off += s['off']
        else:
            v = s['v']
            if v.get('k') != 'ci':
                return None
            off += int(v.get('v', v.get('big', 0))) * s['stride']
    return off


def char_source(f, v):
    """the load instruction whose (sign/zero extended) result v is, else None"""
    i = f.inst_of(strip_casts(f, v))
    if i is not None and i.op == 'load' and i.ty.get('bits') == 8:
        return i
    return None


# ----------------------------------------------------------------------------------------------
# parser tables
# ----------------------------------------------------------------------------------------------
def ops_chain(f, emit_calls):
    """i32 values that flow into the directive-word argument of the formatting routines"""
    chain = set()
    work = []
    for (c, pos) in emit_calls:
        if pos < len(c.ops) and c.ops[pos].k == 'inst':
            work.append(c.ops[pos].key())
    while work:
        k = work.pop()
        if k in chain:
            continue
        chain.add(k)
        i = f.insts[k[1]]
        if i.op in ('or', 'and', 'xor', 'phi'):
            ops = i.ops
        elif i.op == 'select':
            ops = i.ops[1:]
        else:
            continue
        for o in ops:
            if o.k == 'inst' and f.insts[o.id].ty.get('bits') == 32:
                work.append(o.key())
    return chain


def ops_positions(mod):
    """formatting routine -> position of its directive-word parameter (routines without one are left out)"""
    tab = getattr(mod, '_c06_ops_pos', None)
    if tab is None:
        tab = {}
        for name, g in emitter_functions(mod).items():
            n = flag_param(g)
            if n is not None:
                tab[name] = n
        if not tab:
            raise AnalysisBroken('%s: no formatting routine with a directive-word parameter was found' % SRC)
        mod._c06_ops_pos = tab
    return tab


def emitter_calls(f):
    tab = ops_positions(f.mod)
    return [(c, tab[c.callee]) for c in f.calls(pred=lambda n: n in tab)]


def const_or_select(f, v):
    """v is a constant K -> [('always', K)];  select(cmp, K1, K2) -> [(cmp inst, K1, K2)]; else None"""
    if v.k == 'ci':
        return ('const', v.ival)
    i = f.inst_of(v)
    if i is not None and i.op == 'select' and i.ops[1].k == 'ci' and i.ops[2].k == 'ci' and i.ops[0].k == 'inst':
        return ('select', f.insts[i.ops[0].id], i.ops[1].ival, i.ops[2].ival)
    return None


def cmp_char(f, c):
    """icmp eq/ne (char at cursor), K  ->  (load inst, K, pred)   |   icmp ne (classifier(char)), 0 -> (load, name, 'class')"""
    if c.op != 'icmp' or c.pred not in ('eq', 'ne'):
        return None
    a, b = c.ops
    if a.k == 'ci':
        a, b = b, a
    if b.k != 'ci':
        return None
    ld = char_source(f, a)
    if ld is not None:
        return (ld, b.ival, c.pred)
    ci = f.inst_of(strip_casts(f, a))
    if ci is not None and ci.op == 'call' and ci.callee and len(ci.ops) == 1 and b.ival == 0:
        ld = char_source(f, ci.ops[0])
        if ld is not None:
            return (ld, ci.callee, 'class-' + c.pred)
    return None


def switch_cases_into(f, b):
    """characters for which a switch on a format character branches to block b: [(switch inst, char)]"""
    out = []
    for p in b.preds:
        t = p.term
        if t.op == 'switch' and char_source(f, t.ops[0]) is not None:
            for c in t.d['cases']:
                if c['bb'] == b.name:
                    out.append((t, c['v']))
    return out


def directive_loop(f):
    """the loop of __printf that handles one directive per iteration: the innermost loop containing every call of a
    formatting routine"""
    calls = [c for (c, _) in emitter_calls(f)]
    best = None
    for L in f.loops:
        if all(c.block in L['blocks'] for c in calls):
            if best is None or len(L['blocks']) < len(best['blocks']):
                best = L
    if best is None or not calls:
        raise AnalysisBroken('__printf: no loop contains the calls of the formatting routines')
    return best


def parser_tables(mod):
    """{'flags': {char: mask}, 'prec': mask, 'len': {'h':..,'hh':..,...}, 'upper': mask, 'clear_prec': mask|None,
        'where': {...}} read from the IR of __printf"""
    f = mod.fn('__printf')
    chain = ops_chain(f, emitter_calls(f))
    if not chain:
        raise AnalysisBroken('__printf: no directive word reaches the formatting routines')
    flags, lens, where = {}, {}, {}
    len_sw, flag_sw = set(), set()
    prec = upper = clear = prec_ld = None
    outer = directive_loop(f)
    for k in sorted(chain):
        i = f.insts[k[1]]
        if i.op == 'or':
            x, y = i.ops
            if y.k == 'inst' and y.key() in chain and not (x.k == 'inst' and x.key() in chain):
                x, y = y, x
            ks = const_or_select(f, y)
            if ks is None:
                continue
            cases = switch_cases_into(f, i.block)
            if ks[0] == 'const':
                if not cases and len(i.block.preds) == 1:
                    # if (*cursor == '.') word |= K;
                    t = i.block.preds[0].term
                    cnd = f.inst_of(t.ops[0]) if t.op == 'br' and 'f' in t.d and t.ops[0].k == 'inst' else None
                    cc = cmp_char(f, cnd) if cnd is not None else None
                    if cc is not None and cc[2] in ('eq', 'ne') and cc[1] == ord('.') and \
                            t.d['t' if cc[2] == 'eq' else 'f'] == i.block.name and t.d['t'] != t.d['f']:
                        prec = ks[1]
                        prec_ld = cc[0]
                        where['.'] = i.where()
                if not cases:
                    # word = (*cursor == '.') ? word | K : word;      (what simplifycfg makes of the if above)
                    for u in f.users(V({'k': 'inst', 'id': i.id})):
                        if u.op != 'select' or u.ops[0].k != 'inst':
                            continue
                        cc = cmp_char(f, f.insts[u.ops[0].id])
                        arm_true = u.ops[1].k == 'inst' and u.ops[1].id == i.id
                        other = u.ops[2] if arm_true else u.ops[1]
                        if cc is not None and cc[1] == ord('.') and cc[2] in ('eq', 'ne') and other.key() == x.key() and \
                                arm_true == (cc[2] == 'eq'):
                            prec = ks[1]
                            prec_ld = cc[0]
                            where['.'] = i.where()
                for (sw, ch) in cases:
                    # a flag if the switch sits in an inner loop (flags may repeat), else a length modifier
                    nested = [L for L in f.loops if sw.block in L['blocks'] and L is not outer]
                    (flags if nested else lens)[chr(ch)] = ks[1]
                    if not nested:
                        len_sw.add(sw.id)
                    else:
                        flag_sw.add(sw.id)
                    where[chr(ch)] = i.where()
            else:
                cc = cmp_char(f, ks[1])
                if cc is None:
                    continue
                ld, val, pred = cc
                k_true, k_false = ks[2], ks[3]
                if pred.startswith('class'):
                    name = val
                    mask = k_true if pred == 'class-ne' else k_false
                    other = k_false if pred == 'class-ne' else k_true
                    if name == 'isupper' and other == 0:
                        upper = mask
                        where['<upper>'] = i.where()
                    continue
                k_eq, k_ne = (k_true, k_false) if pred == 'eq' else (k_false, k_true)
                if cases:
                    # length modifier with a doubled form: 'h' + next char == 'h' ? hh : h
                    for (sw, ch) in cases:
                        if ch == val:
                            len_sw.add(sw.id)
                            lens[chr(ch) * 2] = k_eq
                            lens[chr(ch)] = k_ne
                            where[chr(ch)] = where[chr(ch) * 2] = i.where()
                elif k_ne == 0 and val == ord('.'):
                    prec = k_eq
                    prec_ld = ld
                    where['.'] = i.where()
        elif i.op == 'and':
            for o in i.ops:
                if o.k == 'ci':
                    clear = (~o.ival) & 0xffffffff
                    where['<clear>'] = i.where()
    return {'flags': flags, 'prec': prec, 'len': lens, 'upper': upper, 'clear_prec': clear, 'where': where,
            'prec_load': prec_ld, 'len_switch': f.insts[next(iter(len_sw))] if len(len_sw) == 1 else None,
            'flag_switch': f.insts[next(iter(flag_sw))] if len(flag_sw) == 1 else None}


# ----------------------------------------------------------------------------------------------
# R-CURSOR: the format cursor never moves past the terminator
# ----------------------------------------------------------------------------------------------
class CursorFlow:
    """forward must-analysis over __printf.  Facts: ('nn', p) the byte at pointer p is not NUL; ('ok', p) pointer p
    lies inside the format string (terminator included).  ok(format) holds; ok(p + 1) needs ok(p) and nn(p); a phi is
    ok when every incoming value is ok on its edge; a pointer compared <= an ok pointer is ok on the true edge.
    The bytes of the format are never written by the unit (checked: no store through a cursor)."""

    def __init__(self, f):
        self.f = f
        self.cur = cursor_values(f)
        self.blocks = f.rpo
        self.assumed = set()       # advances reported as failing are assumed ok afterwards (root causes only)
        self.fail = {}             # gep inst id -> reason
        self.used = set()          # gep inst ids whose validity was needed somewhere
        for i in f.all_insts():
            if i.op == 'store' and i.ops[1].k in ('inst', 'arg') and i.ops[1].key() in self.cur:
                raise AnalysisBroken('__printf stores through the format cursor: the read-only model of R-CURSOR does not apply')
        self.universe = set()
        for k in self.cur:
            self.universe.add(('nn', k))
            self.universe.add(('ok', k))
        self.defs = {b: set(('i', i.id) for i in b.insts if i.op not in ('dbg', 'phi')) for b in f.blocks}
        self.solve()

    # ---- facts implied by a branch condition
    def implied(self, c, truth, facts):
        f = self.f
        out = set()
        if c.k != 'inst':
            return out
        i = f.insts[c.id]
        if i.ty.get('bits') == 1 and i.op in ('and', 'or'):
            if (i.op == 'and') == truth:
                for o in i.ops:
                    out |= self.implied(o, truth, facts)
            return out
        if i.op == 'xor' and i.ops[1].k == 'ci':
            return self.implied(i.ops[0], not truth, facts)
        if i.op != 'icmp':
            return out
        cc = cmp_char(f, i)
        if cc is not None:
            ld, val, pred = cc
            p = ld.ops[0]
            if p.k in ('inst', 'arg') and p.key() in self.cur:
                if pred in ('eq', 'ne'):
                    equal = (pred == 'eq') == truth
                    if (equal and val != 0) or (not equal and val == 0):
                        out.add(('nn', p.key()))
                elif pred.startswith('class') and val in NONNUL_CLASS:
                    nonzero = (pred == 'class-ne') == truth
                    if nonzero:
                        out.add(('nn', p.key()))
            return out
        if i.pred in ('ule', 'ult', 'uge', 'ugt'):
            a, b = i.ops
            if i.pred in ('uge', 'ugt'):
                a, b = b, a
            # a <= b (or a < b) when truth
            if truth and a.k in ('inst', 'arg') and a.key() in self.cur and b.k in ('inst', 'arg') and \
                    b.key() in self.cur and self.ok(b, facts, record=False) and self.above_start(a):
                out.add(('ok', a.key()))
                if i.pred in ('ult', 'ugt'):
                    # every pointer that is 'ok' lies at or before the first terminator (a cursor only ever steps over
                    # characters known to differ from it), so a pointer strictly below one does not point at it
                    out.add(('nn', a.key()))
        return out

    def above_start(self, v, depth=0):
        """v was derived from cursor values by non-negative steps only (so it cannot lie before the string)"""
        if v.k == 'arg':
            return True
        i = self.f.inst_of(v)
        if i is None or depth > 8:
            return False
        if i.op == 'getelementptr':
            st = gep_const_step(i)
            return st is not None and st >= 0
        if i.op == 'bitcast':
            return self.above_start(i.ops[0], depth + 1)
        return i.op in ('phi', 'select')

    def ok(self, v, facts, record=True, extra=frozenset()):
        f = self.f
        if v.k == 'arg':
            return v.argno == FORMAT
        if v.k != 'inst':
            return False
        k = v.key()
        if ('ok', k) in facts or ('ok', k) in extra:
            return True
        i = f.insts[v.id]
        if i.op == 'bitcast':
            return self.ok(i.ops[0], facts, record, extra)
        if i.op == 'getelementptr':
            step = gep_const_step(i)
            base = i.ops[0]
            if step == 0:
                return self.ok(base, facts, record, extra)
            if not self.ok(base, facts, record, extra):
                return False
            if step == 1:
                good = ('nn', base.key()) in facts or ('nn', base.key()) in extra
                if record:
                    self.used.add(i.id)
                    if not good and i.id not in self.fail:
                        self.fail[i.id] = 'the cursor is advanced past a character that is not known to differ from the ' \
                                          'terminator on some path to this point'
                # every advance is judged on its own: the others are assumed to be in order, so that a missing guard
                # is reported once, at the advance that lacks it, and not at everything downstream
                return True
            if step == -1:
                # stepping back is fine when the base itself was obtained by stepping forward
                b = f.inst_of(base)
                return b is not None and b.op == 'getelementptr' and gep_const_step(b) == 1
            if step is not None and step >= 2:
                # several characters at once: each one stepped over must be known to differ from the terminator
                good = ('nn', base.key()) in facts or ('nn', base.key()) in extra
                for j in range(1, step):
                    mids = [g for g in f.all_insts() if g.op == 'getelementptr' and g.ops[0].k in ('inst', 'arg') and
                            g.ops[0].key() == base.key() and gep_const_step(g) == j]
                    if not any(('nn', ('i', g.id)) in facts or ('nn', ('i', g.id)) in extra for g in mids):
                        good = False
                if record:
                    self.used.add(i.id)
                    if not good and i.id not in self.fail:
                        self.fail[i.id] = 'the cursor is advanced by %d characters at once and not every character stepped ' \
                                          'over is known to differ from the terminator' % step
                return True
            raise AnalysisBroken('R-CURSOR: unsupported cursor step %r in __printf' % (step,))
        if i.op == 'select':
            c = i.ops[0]
            return self.ok(i.ops[1], facts, record, extra | frozenset(self.implied(c, True, facts))) and \
                self.ok(i.ops[2], facts, record, extra | frozenset(self.implied(c, False, facts)))
        return False      # phi: only through its fact

    def edge_facts(self, b, succ, out_b):
        t = b.term
        facts = set(out_b)
        if t.op == 'br' and 'f' in t.d:
            if t.d['t'] != t.d['f']:
                if succ.name == t.d['t']:
                    facts |= self.implied(t.ops[0], True, out_b)
                else:
                    facts |= self.implied(t.ops[0], False, out_b)
        elif t.op == 'switch':
            ld = char_source(self.f, t.ops[0])
            if ld is not None and ld.ops[0].k in ('inst', 'arg') and ld.ops[0].key() in self.cur and \
                    succ.name != t.d['default']:
                vals = [c['v'] for c in t.d['cases'] if c['bb'] == succ.name]
                if vals and all(v != 0 for v in vals):
                    facts.add(('nn', ld.ops[0].key()))
        return facts

    def transfer_in(self, b, ins):
        """facts at the start of block b given {pred: edge facts}"""
        if not ins:
            return set()
        common = None
        for p, fs in ins.items():
            common = set(fs) if common is None else (common & fs)
        # phis of b
        for i in b.insts:
            if i.op != 'phi' or ('i', i.id) not in self.cur:
                continue
            good = nonnul = True
            for (bb, v) in i.incoming:
                p = self.f.bmap[bb]
                if p not in ins:
                    continue
                if not self.ok(v, ins[p], record=self.final):
                    good = False
                if not (v.k in ('inst', 'arg') and ('nn', v.key()) in ins[p]):
                    nonnul = False
            common.discard(('ok', ('i', i.id)))
            common.discard(('nn', ('i', i.id)))
            if good:
                common.add(('ok', ('i', i.id)))
            if nonnul:
                common.add(('nn', ('i', i.id)))
        # stale facts about values (re)defined in this block
        for k in self.defs[b]:
            common.discard(('nn', k))
            common.discard(('ok', k))
        return common

    def solve(self):
        f = self.f
        self.final = False
        IN = {b: set(self.universe) for b in self.blocks}
        IN[f.entry] = set()
        for rnd in range(200):
            changed = False
            for b in self.blocks:
                if b is f.entry:
                    new = set()
                else:
                    ins = {}
                    for p in b.preds:
                        if p in IN:
                            ins[p] = self.edge_facts(p, b, IN[p])
                    new = self.transfer_in(b, ins)
                if new != IN[b]:
                    IN[b] = new
                    changed = True
            if not changed:
                break
        else:
            raise AnalysisBroken('R-CURSOR: dataflow did not converge')
        self.IN = IN

    def evaluate(self):
        """[(kind, inst, ok)] for every dereference / hand-over of a cursor, after the fixpoint; failing advances are
        reported once (root cause) and assumed repaired for everything downstream"""
        f = self.f
        self.final = True
        self.solve_keep()
        res = []
        for b in self.blocks:
            facts = self.IN[b]
            for i in b.insts:
                if i.op == 'load' and i.ops[0].k in ('inst', 'arg') and i.ops[0].key() in self.cur:
                    res.append(('load', i, self.ok(i.ops[0], facts)))
                elif i.op in ('call', 'invoke'):
                    for n, o in enumerate(i.ops):
                        if o.k in ('inst', 'arg') and o.key() in self.cur:
                            res.append(('arg', i, self.ok(o, facts)))
        return res

    def solve_keep(self):
        """one more pass with recording switched on (collects the failing advances)"""
        f = self.f
        for b in self.blocks:
            if b is f.entry:
                continue
            ins = {p: self.edge_facts(p, b, self.IN[p]) for p in b.preds if p in self.IN}
            self.transfer_in(b, ins)
            for i in b.insts:
                if i.op == 'load' and i.ops[0].k in ('inst', 'arg') and i.ops[0].key() in self.cur:
                    self.ok(i.ops[0], self.IN[b])
                elif i.op in ('call', 'invoke'):
                    for o in i.ops:
                        if o.k in ('inst', 'arg') and o.key() in self.cur:
                            self.ok(o, self.IN[b])


def cursor_rule(rep, rule, mod):
    f = mod.fn('__printf')
    cf = CursorFlow(f)
    res = cf.evaluate()
    geps = sorted(cf.used)
    for n, gid in enumerate(geps):
        g = f.insts[gid]
        ok = gid not in cf.fail
        if not ok:
            us = [u for u in f.users(V({'k': 'inst', 'id': gid})) if u.op != 'dbg']
            if us and all(u.op == 'select' and u.ops[0].key() != ('i', gid) for u in us):
                # `stop = c == 0 ? format : format + 1`: the advanced cursor is only computed, a select decides whether it is
                # used; the dataflow follows branches, not selects
                rep.defer_broken(AnalysisBroken('__printf: the cursor advance at %s is one arm of a select (R-CURSOR follows '
                                                'branches only)' % g.where()))
                continue
        if not ok:
            loops = [L for L in f.loops if g.block in L['blocks']]
            if loops:
                L = min(loops, key=lambda l: len(l['blocks']))
                ptr_ne = False
                for (b_, _) in L['exits']:
                    t = b_.term
                    c = f.inst_of(t.ops[0]) if t.op == 'br' and 'f' in t.d and t.ops else None
                    if c is not None and c.op == 'icmp' and c.pred in ('eq', 'ne') and \
                            all(o.k in ('inst', 'arg') and o.key() in cf.cur for o in c.ops):
                        ptr_ne = True
                if ptr_ne:
                    # `while (begin != stop) emit(*begin++)`: the walk is bounded by equality with another cursor; the dataflow
                    # knows orderings established by `<` / `<=` tests and by character tests only
                    rep.defer_broken(AnalysisBroken('__printf: the cursor walk at %s is bounded by `!=` against another cursor '
                                                    '(R-CURSOR does not follow that form)' % g.where()))
                    continue
        base = f.var_name(g.ops[0]) or 'cursor'
        rep.inst(rule, '__printf', 'advance#%d of %s' % (n + 1, base), ok, g.where(),
                 None if ok else cf.fail[gid] + ' (an incomplete directive at the end of the format, or a scan loop '
                 'that tests a stale copy of the character, walks off the end of the string)')
    nl = 0
    for (kind, i, ok) in res:
        nl += 1
        what = 'read' if kind == 'load' else 'passed to %s' % (i.callee or 'a callback')
        rep.inst(rule, '__printf', 'cursor %s inside the string' % ('dereference' if kind == 'load' else 'hand-over'), ok,
                 i.where(), None if ok else 'a format cursor is %s here without a proof that it still points into the '
                 'string' % what)
    return len(geps), nl


# ----------------------------------------------------------------------------------------------
# conversion dispatch: partial evaluation of the code selected by one conversion character
# ----------------------------------------------------------------------------------------------
def conv_switch(f):
    best = None
    for b in f.blocks:
        t = b.term
        if t.op == 'switch' and char_source(f, t.ops[0]) is not None:
            if best is None or len(t.d['cases']) > len(best.d['cases']):
                best = t
    if best is None or len(best.d['cases']) < 8:
        raise AnalysisBroken('__printf: the switch over the conversion character was not found')
    return best


class PEval:
    """evaluates SSA values of __printf under the assumption 'the conversion character is c'"""

    def __init__(self, f, sw, c, start=None, stop=()):
        self.f = f
        self.c = c
        self.ld = char_source(f, sw.ops[0])
        self.ptr = self.ld.ops[0].key() if self.ld.ops[0].k in ('inst', 'arg') else None
        self.reach = None
        if start is not None:
            self.reach = self.reachable(start, set(stop))
            self.edges.add((sw.block, start))

    def succs_taken(self, b):
        """successors of b that can be taken when the conversion character is c"""
        t = b.term
        if t.op == 'br' and 'f' in t.d:
            c = self.ev(t.ops[0])
            if c is None:
                return list(b.succs)
            return [self.f.bmap[t.d['t'] if c else t.d['f']]]
        if t.op == 'switch':
            v = self.ev(t.ops[0])
            if v is None:
                return list(b.succs)
            for case in t.d['cases']:
                if case['v'] == v:
                    return [self.f.bmap[case['bb']]]
            return [self.f.bmap[t.d['default']]]
        return list(b.succs)

    def reachable(self, start, stop):
        seen = set()
        work = [start]
        self.edges = set()
        while work:
            b = work.pop()
            if b in seen:
                continue
            seen.add(b)
            if b in stop:
                continue
            for s in self.succs_taken(b):
                self.edges.add((b, s))
                work.append(s)
        return seen

    def ev(self, v, depth=0):
        if v.k == 'ci':
            return v.ival
        if v.k != 'inst' or depth > 24:
            return None
        f = self.f
        i = f.insts[v.id]
        op = i.op
        if op == 'load':
            if i.id == self.ld.id or (i.ty.get('bits') == 8 and self.ptr is not None and self.same_ptr(i.ops[0]) == self.ptr):
                return self.c
            return None
        if op in ('sext', 'zext', 'trunc'):
            x = self.ev(i.ops[0], depth + 1)
            if x is None:
                return None
            if op == 'zext' and f.inst_of(i.ops[0]) is not None and f.inst_of(i.ops[0]).ty.get('bits') == 1:
                return 1 if x else 0
            return x
        if op == 'icmp':
            a, b = self.ev(i.ops[0], depth + 1), self.ev(i.ops[1], depth + 1)
            if a is None or b is None:
                return None
            return int({'eq': a == b, 'ne': a != b, 'slt': a < b, 'sle': a <= b, 'sgt': a > b, 'sge': a >= b,
                        'ult': a < b, 'ule': a <= b, 'ugt': a > b, 'uge': a >= b}[i.pred])
        if op == 'select':
            c = self.ev(i.ops[0], depth + 1)
            if c is None:
                return None
            return self.ev(i.ops[1] if c else i.ops[2], depth + 1)
        if op == 'call' and i.callee in ('tolower', 'toupper', 'isupper', 'islower', 'isdigit', 'isalpha') and len(i.ops) == 1:
            x = self.ev(i.ops[0], depth + 1)
            if x is None or not (0 <= x < 128):
                return None
            ch = chr(x)
            return {'tolower': ord(ch.lower()), 'toupper': ord(ch.upper()), 'isupper': int(ch.isupper()),
                    'islower': int(ch.islower()), 'isdigit': int(ch.isdigit()), 'isalpha': int(ch.isalpha())}[i.callee]
        if op in ('and', 'or', 'xor', 'add', 'sub', 'mul'):
            a, b = self.ev(i.ops[0], depth + 1), self.ev(i.ops[1], depth + 1)
            if a is None or b is None:
                return None
            return {'and': a & b, 'or': a | b, 'xor': a ^ b, 'add': a + b, 'sub': a - b, 'mul': a * b}[op]
        if op == 'phi' and self.reach is not None and i.block in self.reach:
            vals = set()
            for (bb, v) in i.incoming:
                p = f.bmap[bb]
                if (p, i.block) in self.edges:
                    vals.add(self.ev(v, depth + 1))
            if len(vals) == 1:
                return next(iter(vals))
            return None
        return None

    def same_ptr(self, v, depth=0):
        """key of the pointer v stands for on the paths of this conversion (phis with one live incoming edge are seen
        through)"""
        if v.k not in ('inst', 'arg'):
            return None
        if v.k == 'inst' and depth < 6:
            i = self.f.insts[v.id]
            if i.op == 'phi' and self.reach is not None and i.block in self.reach:
                live = [o for (bb, o) in i.incoming if (self.f.bmap[bb], i.block) in self.edges]
                if len(live) == 1:
                    return self.same_ptr(live[0], depth + 1)
            if i.op == 'bitcast':
                return self.same_ptr(i.ops[0], depth + 1)
        return v.key()

    def resolve(self, v, depth=0):
        """the value v stands for on the paths of this conversion: phis with one live incoming edge are seen through"""
        if v.k == 'inst' and depth < 6:
            i = self.f.insts[v.id]
            if i.op == 'phi' and self.reach is not None and i.block in self.reach:
                live = [o for (bb, o) in i.incoming if (self.f.bmap[bb], i.block) in self.edges]
                if len(live) == 1:
                    return self.resolve(live[0], depth + 1)
        return v

    def extra_bits(self, v, chain):
        """bits OR-ed into the directive word between the parser and this use (evaluable operands only)"""
        bits = 0
        seen = 0
        while v.k == 'inst' and seen < 12:
            seen += 1
            i = self.f.insts[v.id]
            if i.op == 'select':
                c = self.ev(i.ops[0])
                if c is None:
                    break
                v = i.ops[1] if c else i.ops[2]
                continue
            if i.op == 'phi' and self.reach is not None and i.block in self.reach:
                live = [o for (bb, o) in i.incoming if (self.f.bmap[bb], i.block) in self.edges]
                if len(live) != 1:
                    break
                v = live[0]
                continue
            if i.op != 'or':
                break
            a, b = i.ops
            ea, eb = self.ev(a), self.ev(b)
            if eb is not None and ea is None:
                bits |= eb
                v = a
            elif ea is not None and eb is None:
                bits |= ea
                v = b
            else:
                break
        return bits, v


def case_region(f, B, L):
    """blocks executed for one conversion: reachable from the case block inside the directive loop, stopping at the
    blocks where all iterations meet again (the latches)"""
    stop = set(L['latches']) | {L['header']}
    return [b for b in f.reachable_blocks(B, avoid=stop) if b in L['blocks']]


def leaf_sources(f, v, depth=0, seen=None):
    """where an integer value comes from: through phi / select values / casts / add / sub / neg"""
    seen = seen if seen is not None else set()
    if v.k == 'ci':
        return {('const', v.ival)}
    if v.k == 'arg':
        return {('arg', v.argno)}
    if v.k != 'inst':
        return {('other', v.k)}
    if v.id in seen:
        return set()
    seen.add(v.id)
    i = f.insts[v.id]
    if i.op in ('sext', 'zext', 'trunc'):
        return leaf_sources(f, i.ops[0], depth + 1, seen)
    if i.op == 'phi':
        out = set()
        for o in i.ops:
            out |= leaf_sources(f, o, depth + 1, seen)
        return out
    if i.op == 'select':
        return leaf_sources(f, i.ops[1], depth + 1, seen) | leaf_sources(f, i.ops[2], depth + 1, seen)
    if i.op in ('add', 'sub'):
        return leaf_sources(f, i.ops[0], depth + 1, seen) | leaf_sources(f, i.ops[1], depth + 1, seen)
    if i.op == 'call':
        return {('call', i.callee, i.id)}
    if i.op == 'load':
        return {('load', i.id)}
    return {('other', i.op, i.id)}


def field_sources(f):
    """the two numeric fields of a directive: (id of the atoi call that parses the width, ... the precision)"""
    calls = f.calls('atoi')
    if len(calls) != 2:
        raise AnalysisBroken('__printf: expected two atoi calls (width, precision), found %d' % len(calls))
    a, b = calls
    hdr = {directive_loop(f)['header']}
    ab = b.block in f.reachable_blocks(a.block, avoid=hdr) and a.block is not b.block
    ba = a.block in f.reachable_blocks(b.block, avoid=hdr) and a.block is not b.block
    if ab == ba:
        raise AnalysisBroken('__printf: the width and precision parsers are not ordered within one directive')
    return (a, b) if ab else (b, a)


def dispatch(mod):
    """{char: dict(calls=[dict(callee, call, args=[int|None...], extra_bits, width_src, prec_src)], handler=[...])}"""
    f = mod.fn('__printf')
    sw = conv_switch(f)
    L = directive_loop(f)
    chain = ops_chain(f, emitter_calls(f))
    aw, ap = field_sources(f)
    OPS_POS = ops_positions(mod)
    out = {}
    for case in sw.d['cases']:
        ch = case['v']
        pe = PEval(f, sw, ch, f.bmap[case['bb']], set(L['latches']) | {L['header']})
        region = [b for b in case_region(f, f.bmap[case['bb']], L) if b in pe.reach]
        calls, handler = [], []
        for b in region:
            for i in b.insts:
                if i.op != 'call':
                    continue
                if i.callee in OPS_POS:
                    # is the call on the path of this character?  (shared blocks: evaluate the guards we can)
                    args = [pe.ev(a) for a in i.ops]
                    bits, root = pe.extra_bits(i.ops[OPS_POS[i.callee]], chain)
                    ops_root = root
                    srcs = [leaf_sources(f, a) for a in i.ops]
                    calls.append({'callee': i.callee, 'call': i, 'args': args, 'extra_bits': bits, 'ops_root': ops_root,
                                  'ops_root_in_chain': root.k == 'inst' and root.key() in chain, 'srcs': srcs})
                elif i.callee is None and i.d.get('callee', {}).get('k') == 'arg' and i.d['callee'].get('i') == HANDLER:
                    handler.append({'call': i, 'arg': pe.ev(i.ops[1]) if len(i.ops) > 1 else None,
                                    'in_loop': any(b in L2['blocks'] for L2 in f.loops if L2 is not L and
                                                   L2['header'] in L['blocks'])})
        # where the scan resumes: the cursor handed to the next pass of the directive loop
        nxt_ok = None
        for ph in L['header'].insts:
            if ph.op == 'phi' and ph.ty.get('k') == 'ptr' and any(v.k == 'arg' and v.argno == FORMAT for (bb, v) in ph.incoming):
                nxt_ok = True
                for (bb, v) in ph.incoming:
                    if f.bmap[bb] not in L['latches']:
                        continue
                    g = f.inst_of(pe.resolve(v))
                    if not (g is not None and g.op == 'getelementptr' and gep_const_step(g) == 1 and
                            pe.ptr is not None and pe.same_ptr(g.ops[0]) == pe.ptr):
                        nxt_ok = False
        out[chr(ch) if 0 < ch < 128 else ch] = {'calls': calls, 'handler': handler, 'block': case['bb'], 'next_ok': nxt_ok}
    return {'table': out, 'width_atoi': aw, 'prec_atoi': ap, 'switch': sw, 'loop': L}


def is_field(srcs, atoi_call):
    """the value is the parsed field: its only call source is the given atoi, everything else is a va_arg load or 0"""
    calls = [s for s in srcs if s[0] == 'call']
    others = [s for s in srcs if s[0] not in ('call', 'load', 'const')]
    return calls == [('call', 'atoi', atoi_call.id)] and not others and \
        all(s[1] == 0 for s in srcs if s[0] == 'const')


# ----------------------------------------------------------------------------------------------
# the parser executed symbolically up to the conversion switch
# ----------------------------------------------------------------------------------------------
def maybits(f, chain):
    """value of the directive-word chain -> mask of the bits that may be set in it (constants, or / and / phi / select of
    chain members; anything else may set every bit)"""
    ALL = 0xffffffff
    m = {k: 0 for k in chain}

    def of(v):
        if v.k == 'ci':
            return v.ival & ALL
        if v.k == 'inst' and v.key() in m:
            return m[v.key()]
        if v.k == 'inst':
            i = f.insts[v.id]
            if i.op == 'select' and i.ty.get('bits') == 32:
                return of(i.ops[1]) | of(i.ops[2])
        return ALL
    changed = True
    while changed:
        changed = False
        for k in chain:
            i = f.insts[k[1]]
            if i.op == 'or':
                new = of(i.ops[0]) | of(i.ops[1])
            elif i.op == 'and':
                new = of(i.ops[0]) & of(i.ops[1])
            elif i.op == 'phi':
                new = 0
                for o in i.ops:
                    new |= of(o)
            elif i.op == 'select':
                new = of(i.ops[1]) | of(i.ops[2])
            else:
                new = ALL
            if new != m[k]:
                m[k] = new
                changed = True
    return m


def static_exit_loop(fn, L):
    """every exit test of the loop reads only loop-invariant values (R-LOOPVAR reports such a loop; the executor treats
    it exactly: it is left during the first pass or never)"""
    inv, is_inv = loop_invariant_values(fn, L)
    for (src, dst) in L['exits']:
        t = src.term
        if t.op == 'br' and 'f' in t.d:
            if not is_inv(t.ops[0]):
                return False
        elif t.op == 'switch':
            if not is_inv(t.ops[0]):
                return False
        else:
            return False
    return True


FMT = ('fmt',)
CLASSIFIERS = ('isdigit', 'isupper', 'islower', 'isalpha', 'isalnum', 'isxdigit', 'isspace', 'tolower', 'toupper')


def digit_class_sym(sx, byte):
    return Lin.sym(sx.opq('ext', 'isdigit', (vkey(byte),)))


def atoi_model(sx, st, fn, i, args):
    """atoi of text inside the format: a non-negative number (grammar: a field is a run of digits, no sign, no blanks) that
    is 0 when the first character is not a digit"""
    p = args[0]
    if not (isinstance(p, P) and p.base == sx.fmt_base):
        return None
    r = Lin.sym(sx.opq('ext', 'atoi', vkey(p)))
    st.cons.add_le(0, r)
    byte = Lin.sym(sx.opq('byte', p.key()))
    d = digit_class_sym(sx, byte)
    if st.cons.entails_eq(d, 0):
        return Lin(0)
    sx.atoi_tab[next(iter(r.t))] = (r, d)
    return r


def fmt_args():
    return [P(('fn', 'handler')), P(('arg', 1)), P(FMT), P(('arg', VALIST))]


class ParserRun:
    """__printf executed symbolically from its entry to the switch over the conversion character, the formatting routines
    never reached.  The states collected there relate the text of the directive (bytes of the format, results of atoi,
    arguments fetched for '*') to the width, the precision and the directive word that the routines will receive."""

    def __init__(self, mod, T, D):
        self.mod, self.T, self.D = mod, T, D
        f = self.f = mod.fn('__printf')
        swb = D['switch'].block
        chain = ops_chain(f, emitter_calls(f))
        mb = maybits(f, chain)
        bw = {}
        for k in chain:
            i = f.insts[k[1]]
            if i.op == 'phi' and any(i.block is L['header'] for L in f.loops):
                if mb[k] == 0xffffffff:
                    raise AnalysisBroken('__printf: the directive word is combined with values the bit analysis does not follow')
                bw[('__printf', i.id)] = mb[k]
        self.sx = sx = SX(mod, handler_arg=HANDLER, emitters=list(emitter_functions(mod)), fmt_base=FMT,
                          cut_blocks={('__printf', swb.name)}, bitword_phis=bw, static_exit=static_exit_loop,
                          pure_by_args=CLASSIFIERS, models={'atoi': atoi_model})
        sx.atoi_tab = {}
        sx.prune = False
        dot = T.get('prec_load')

        def on_load(sx_, st_, fn_, i_, p_, v_):
            # grammar: the character after the width field is not a digit (after a literal width that is what ended the scan,
            # which the note records as proved; after '*' it is the grammar)
            if dot is not None and i_.id == dot.id and fn_.name == '__printf':
                d = digit_class_sym(sx_, v_)
                st_.notes = st_.notes + (('nondigit-after-width', st_.cons.entails_eq(d, 0)),)
                st_.cons.add_eq(d, 0)
        sx.load_hook = on_load
        st = sx.start(f, fmt_args())
        self.rets = sx.run_function(f, st)
        self.states = sx.cut_states.get(swb.name, [])
        if not self.states:
            raise AnalysisBroken('__printf: no path reaches the switch over the conversion character')
        # the operands the routines receive, as values available at the switch
        self.W, self.PR, self.OPS = set(), set(), set()
        for ch, e in D['table'].items():
            for c in e['calls']:
                g = mod.fn(c['callee'])
                for n, p in enumerate(g.params):
                    if p['ty'].get('k') != 'int' or c['args'][n] is not None:
                        continue
                    if is_field(c['srcs'][n], D['width_atoi']):
                        self.W.add(c['call'].ops[n].key())
                    elif is_field(c['srcs'][n], D['prec_atoi']):
                        self.PR.add(c['call'].ops[n].key())
                self.OPS.add(c['ops_root'].key())
        for nm, ks in (('width', self.W), ('precision', self.PR), ('directive word', self.OPS)):
            if len(ks) != 1:
                raise AnalysisBroken('__printf: the formatting routines receive %d different %s values' % (len(ks), nm))
            k = next(iter(ks))
            if k[0] != 'i' or not f.dominates_block(f.insts[k[1]].block, swb):
                raise AnalysisBroken('__printf: the %s is not computed before the conversion switch' % nm)
        self.W, self.PR, self.OPS = (next(iter(x)) for x in (self.W, self.PR, self.OPS))
        # '*' fetches: the va_arg loads among the sources of width / precision
        self.star = {}
        for nm, k in (('w', self.W), ('p', self.PR)):
            lds = [s[1] for s in leaf_sources(f, V({'k': 'inst', 'id': k[1]})) if s[0] == 'load']
            self.star[nm] = lds
        self.pbit = T['prec'].bit_length() - 1 if T['prec'] else None
        self.lbit = T['flags']['-'].bit_length() - 1 if T['flags'].get('-') else None
        self.prepare()

    def prepare(self):
        """per state: resolve atoi of a non-digit to 0; add the grammar assumption (the character after the width field is
        not a digit: after a literal width that is what ended the scan, after '*' it is the grammar)"""
        sx = self.sx
        ld = self.T.get('prec_load')
        self.nondigit_proved = {}
        for s in self.states:
            pv = [n[1] for n in s.notes if n[0] == 'nondigit-after-width']
            self.nondigit_proved[id(s)] = bool(pv) and all(pv)
            for (r, d) in sx.atoi_tab.values():
                if s.cons.entails_eq(d, 0):
                    s.cons.add_eq(r, 0)
        # paths that took 'the number is positive' for a text that turned out not to start with a digit do not exist
        self.states = [s for s in self.states if sx.feasible(s, set(sy for c in s.cons.items for sy in c.t))]
        if not self.states:
            raise AnalysisBroken('__printf: no feasible path reaches the switch over the conversion character')

    def star_tests(self):
        """the loads of the characters compared with '*': [width test, precision test] in dominance order"""
        f = self.f
        out = []
        for i in f.all_insts():
            if i.op == 'icmp':
                cc = cmp_char(f, i)
                if cc is not None and cc[1] == ord('*') and cc[2] in ('eq', 'ne') and cc[0] not in out:
                    out.append(cc[0])
        out.sort(key=lambda l: sum(1 for o in out if o is not l and f.dominates(o, l)))
        return out

    def pos(self, s, ld):
        """offset in the format of the character read by load ld on the path of state s (Lin) or None"""
        if ld is None or ld.ops[0].k not in ('inst', 'arg'):
            return None
        p = s.env.get(ld.ops[0].key())
        if isinstance(p, P) and p.base == FMT and ('i', ld.id) in s.env:
            return p.off
        return None

    def bit(self, s, n):
        """value of bit n of the directive word in state s: 0, 1 or a Lin 0/1 symbol; None when not decomposed"""
        v = s.env.get(self.OPS)
        d = SX.bw_decode(v) if isinstance(v, Lin) else None
        if d is None:
            return None
        c, bits = d
        if n in bits:
            return Lin.sym(bits[n])
        return Lin((c >> n) & 1)

    def split(self, s, c):
        """[(state, truth)] refinements of a copy of s by condition c"""
        return self.sx.branch(s.fork(), c)

    def all_states(self, pred):
        """pred(state) -> True | False | None(not applicable); returns (number applicable, first failing state)"""
        n, bad = 0, None
        for s in self.states:
            r = pred(s)
            if r is None:
                continue
            n += 1
            if not r and bad is None:
                bad = s
        return n, bad


# ----------------------------------------------------------------------------------------------
# va_arg fetches
# ----------------------------------------------------------------------------------------------
def from_valist(f, v, depth=0):
    """does pointer v derive from the fields of the va_list parameter (x86-64 register save / overflow area)?"""
    if depth > 12:
        return False
    if v.k == 'arg':
        return v.argno == VALIST
    i = f.inst_of(v)
    if i is None:
        return False
    if i.op in ('bitcast', 'getelementptr', 'inttoptr', 'ptrtoint', 'and', 'add'):
        return from_valist(f, i.ops[0], depth + 1)
    if i.op == 'phi':
        return all(from_valist(f, o, depth + 1) for o in i.ops)
    if i.op == 'load':
        return from_valist(f, i.ops[0], depth + 1)
    return False


def vaarg_sites(mod, tables):
    """[dict(load, kind 'int'|'fp'|'ptr', bits, eff_bits, ext 'sext'|'zext'|None, convs {chars}, length name|'default'|None)]"""
    f = mod.fn('__printf')
    sw = conv_switch(f)
    lenbits = {m: n for n, m in tables['len'].items()}
    case_blocks = {}
    for c in sw.d['cases']:
        case_blocks.setdefault(c['bb'], []).append(chr(c['v']))
    sites = []
    for i in f.all_insts():
        if i.op != 'load' or not from_valist(f, i.ops[0]):
            continue
        pi = f.inst_of(i.ops[0])
        # bookkeeping loads of the va_list itself (gp_offset, reg_save_area, overflow_arg_area): address is a field gep
        if pi is not None and pi.op == 'getelementptr' and pi.ops[0].k == 'arg':
            continue
        ty = i.ty
        kind = 'fp' if ty.get('k') == 'fp' else ('ptr' if ty.get('k') == 'ptr' else 'int')
        bits = ty.get('bits') or (ty.get('size', 0) * 8)
        eff, ext = bits, None
        v = i
        for _ in range(6):
            us = [u for u in f.users(v) if u.op != 'dbg']
            if len(us) != 1 or us[0].op not in ('trunc', 'sext', 'zext', 'fpext', 'fptrunc'):
                break
            u = us[0]
            ub = u.ty.get('bits')
            if u.op == 'trunc':
                eff = min(eff, ub)
                ext = None
            elif u.op in ('sext', 'zext'):
                ext = u.op
            elif u.op == 'fptrunc':
                eff = min(eff, ub)
            v = u
        # which conversions
        convs = set()
        for bbname, chars in case_blocks.items():
            if f.dominates_block(f.bmap[bbname], i.block):
                convs.update(chars)
        # which length: nearest dominating test of a length bit taken on its true edge
        length = None
        if convs:
            length = 'default'
            b = i.block
            idom = f.idom
            while b is not None and b != '<root>':
                p = idom.get(b)
                if p is None or p == '<root>' or p is b:
                    break
                t = p.term
                if t.op == 'br' and 'f' in t.d and t.ops[0].k == 'inst':
                    c = f.insts[t.ops[0].id]
                    if c.op == 'icmp' and c.pred in ('ne', 'eq') and c.ops[1].k == 'ci' and c.ops[1].ival == 0:
                        a = f.inst_of(c.ops[0])
                        if a is not None and a.op == 'and' and a.ops[1].k == 'ci' and a.ops[1].ival in lenbits:
                            tgt = t.d['t'] if c.pred == 'ne' else t.d['f']
                            if f.dominates_block(f.bmap[tgt], i.block) and f.bmap[tgt] is not p and \
                                    len(f.bmap[tgt].preds) == 1:
                                length = lenbits[a.ops[1].ival]
                                break
                if p is sw.block:
                    break
                b = p
        sites.append({'load': i, 'kind': kind, 'bits': bits, 'eff_bits': eff, 'ext': ext, 'convs': convs,
                      'length': length})
    return sites


# ----------------------------------------------------------------------------------------------
# symbolic execution of the formatting routines in the context of one conversion
# ----------------------------------------------------------------------------------------------
def flag_param(f):
    """position of the directive-word parameter of a formatting routine: the i32 parameter that is only ever masked with
    constants (or handed on as the directive word of another routine)"""
    cands = []
    for n, p in enumerate(f.params):
        if p['ty'].get('k') != 'int' or p['ty'].get('bits') != 32:
            continue
        us = [u for u in f.users(V({'k': 'arg', 'i': n})) if u.op != 'dbg']
        if us and all((u.op == 'and' and any(o.k == 'ci' for o in u.ops)) or u.op == 'call' for u in us):
            if any(u.op == 'and' for u in us) or all(u.op == 'call' for u in us):
                cands.append(n)
    return cands[-1] if cands else None


def emitter_functions(mod):
    """formatting routines: defined functions (other than __printf) whose parameter 0 is the output callback"""
    top = mod.fn('__printf')
    hty = top.params[HANDLER]['ty']['s']
    out = {}
    for f in mod.defined():
        if f.name != '__printf' and f.params and f.params[0]['ty']['s'] == hty:
            out[f.name] = f
    return out


class Infeasible(Exception):
    pass


class CaseCtx:
    """decision context for closed-form models: every undecided comparison forks the case"""

    def __init__(self, sx, st, prefix):
        self.sx = sx
        self.st = st.fork()
        self.prefix = prefix
        self.trace = []
        self.desc = []

    def test(self, pred, a, b, what=None):
        a = a if isinstance(a, Lin) else Lin(a)
        b = b if isinstance(b, Lin) else Lin(b)
        c = ('cmp', pred, a, b)
        d = self.sx.decide(self.st, c)
        if d is not None:
            return d
        i = len(self.trace)
        choice = self.prefix[i] if i < len(self.prefix) else True
        self.trace.append(choice)
        sts = self.sx.assume(self.st, c, choice)
        if not sts:
            raise Infeasible()
        self.st = sts[0]
        self.desc.append('%s%s' % ('' if choice else 'not ', what or '%r %s %r' % (a, pred, b)))
        return choice

    def assume_eq(self, a, b):
        self.st.cons.add_eq(a, b)
        sy = set(a.t.keys()) | set((b if isinstance(b, Lin) else Lin(b)).t.keys())
        if not self.sx.feasible(self.st, sy):
            raise Infeasible()

    def bit(self, sym, mask, name):
        i = mask.bit_length() - 1
        b = Lin.sym((sym, 'bit', i))
        self.st.cons.add_le(0, b)
        self.st.cons.add_le(b, 1)
        return self.test('sge', b, 1, 'flag %s' % name)

    def max0(self, a, what=None):
        return a if self.test('sge', a, 0, what) else Lin(0)

    def eq(self, a, b):
        return self.st.cons.entails_eq(a, b)


def enum_cases(sx, st, fn, limit=20000):
    """run fn(ctx) for every feasible vector of decisions; yields (ctx, result)"""
    pending = [[]]
    n = 0
    while pending:
        prefix = pending.pop()
        ctx = CaseCtx(sx, st, prefix)
        try:
            res = fn(ctx)
        except Infeasible:
            res = None
            # alternatives of the decisions taken before the infeasible one are still scheduled below
        for i in range(len(prefix), len(ctx.trace)):
            if ctx.trace[i]:
                pending.append(ctx.trace[:i] + [False])
        if res is not None:
            n += 1
            if n > limit:
                raise AnalysisBroken('layout model: more than %d cases' % limit)
            yield ctx, res


def norm_segments(sx, ctx, segs, digit=None, strarg=None):
    """canonical form of an emission log inside one case: zero-length segments dropped, constant strings as text,
    the digit buffer and the string argument recognised, equal neighbours merged"""
    out = []
    for sg in segs:
        kind = sg[0]
        if kind == 'loop':
            # an emission loop the summariser does not understand (pointer-to-end walk, helper with its own loop form ...): what it
            # emits is unknown, so no layout verdict can be given
            raise AnalysisBroken('an emission loop of %s (%s) is of a form the layout extraction does not summarise'
                                 % (sg[1] if len(sg) > 1 else '?', sg[2] if len(sg) > 2 else '?'))
        cnt = sg[2] if kind != 'call' else sg[2]
        if not ctx.test('sge', cnt, 1, '%r >= 1' % cnt):
            if ctx.test('sle', cnt, 0) and not ctx.eq(cnt, 0):
                out.append(('negative-count', cnt))
            continue
        if kind == 'c':
            if out and out[-1][0] == 'c' and out[-1][1] == sg[1]:
                out[-1] = ('c', sg[1], out[-1][2] + cnt)
            else:
                out.append(('c', sg[1], cnt))
        elif kind == 'm':
            p = sg[1]
            if p.base[0] == 'g' and p.off.is_const() and cnt.is_const():
                b = sx.global_bytes(p.base[1]) or []
                txt = ''.join(chr(x) for x in b[p.off.c:p.off.c + cnt.c])
                if len(txt) != cnt.c or '\0' in txt:
                    out.append(('lit-overrun', p.base[1], cnt.c))
                elif out and out[-1][0] == 'lit':
                    out[-1] = ('lit', out[-1][1] + txt)
                else:
                    out.append(('lit', txt))
            elif digit is not None and p.base == digit[0] and ctx.eq(p.off, digit[1]):
                out.append(('digits', cnt))
            elif strarg is not None and p.base == strarg and ctx.eq(p.off, 0):
                out.append(('arg-chars', cnt))
            else:
                out.append(('mem', p.base, p.off, cnt))
        else:
            out.append((kind, sg[1], cnt))
    return out


def same_segments(ctx, a, b):
    if len(a) != len(b):
        return False
    for x, y in zip(a, b):
        if x[0] != y[0]:
            return False
        if x[0] == 'c':
            if x[1] != y[1] or not ctx.eq(x[2], y[2]):
                return False
        elif x[0] == 'lit':
            if x[1] != y[1]:
                return False
        elif x[0] in ('digits', 'arg-chars'):
            if not ctx.eq(x[1], y[1]):
                return False
        else:
            return False
    return True


def show_segments(segs):
    out = []
    for s in segs:
        if s[0] == 'c':
            out.append('%r x (%r)' % (chr(s[1]), s[2]))
        elif s[0] == 'lit':
            out.append(repr(s[1]))
        elif s[0] in ('digits', 'arg-chars'):
            out.append('%s(%r)' % (s[0], s[1]))
        else:
            out.append(repr(s))
    return '[' + ', '.join(out) + ']'


class Flags:
    """the directive word as seen by a model: names of ISO flags -> bit of the word, from the parser's own table"""

    def __init__(self, tables, sym='ops'):
        self.t = tables
        self.sym = sym

    def get(self, ctx, name):
        r = self._get(ctx, name)
        if not hasattr(ctx, 'flags'):
            ctx.flags = {}
        ctx.flags[name] = r
        return r

    def _get(self, ctx, name):
        if name in self.t['flags']:
            m = self.t['flags'][name]
        elif name == '.':
            m = self.t['prec']
        elif name == 'upper':
            m = self.t['upper']
        else:
            raise KeyError(name)
        if m is None:
            return False        # the parser has no such bit (R-OPSBITS reports that): the routines cannot see the flag
        return ctx.bit(self.sym, m, repr(name))


def model_int(ctx, fl, conv, w, p, u, nd, ran, pzeros=None):
    """ISO C 7.21.6.1 layout of d i u o x X.  nd: number of digits of |value| (symbol), ran: the implementation generated
    digits at all.  %p is implementation-defined in ISO C; the property asks for 0x followed by hex digits that parse
    back to the pointer: any number pzeros >= 0 of leading zeros is accepted (taken from the emission), the field is
    padded with blanks to the width on the side the - flag selects"""
    signed = conv in 'di'
    base = {'d': 10, 'i': 10, 'u': 10, 'o': 8, 'x': 16, 'X': 16, 'p': 16}[conv]
    ptr = conv == 'p'
    L = fl.get(ctx, '-')
    PL = fl.get(ctx, '+')
    SP = fl.get(ctx, ' ')
    H = fl.get(ctx, '#')
    Z = fl.get(ctx, '0')
    G = True if ptr else fl.get(ctx, '.')
    U = fl.get(ctx, 'upper')
    neg = signed and ctx.test('slt', u, 0, 'value < 0')
    zero = (not neg) and ctx.test('sle', u, 0, 'value == 0')
    if zero and ran:
        ctx.assume_eq(nd, 1)
    nodigits = G and zero and (not ptr) and ctx.test('sle', p, 0, 'precision == 0')
    ndo = Lin(0) if nodigits else nd
    if not nodigits and not ran:
        return None, 'no digits are generated although the value needs at least one'
    sign = '-' if neg else ('+' if signed and PL else (' ' if signed and SP else ''))
    alt = ''
    if base == 16 and (ptr or (H and not zero)):
        alt = '0X' if U else '0x'
    if ptr:
        zprec = pzeros if pzeros is not None else Lin(0)
    else:
        zprec = ctx.max0(p - ndo, 'precision >= digits') if G else Lin(0)
    if base == 8 and H and not ptr:
        # 7.21.6.1p6: the precision is increased, if and only if necessary, to force the first digit to be a zero
        if zero and not nodigits:
            pass
        elif not ctx.test('sge', zprec, 1, 'precision > digits'):
            zprec = Lin(1)
    prefix = sign + alt
    body = zprec + ndo + len(prefix)
    zflag = ctx.max0(w - body, 'width > body') if (Z and not L and not G and not ptr) else Lin(0)
    sp = ctx.max0(w - body - zflag, 'width > body')
    segs = []
    if not L:
        segs.append(('c', 32, sp))
    if prefix:
        segs.append(('lit', prefix))
    segs.append(('c', 48, zprec + zflag))
    segs.append(('digits', ndo))
    if L:
        segs.append(('c', 32, sp))
    return segs, None


def model_str(ctx, fl, w, p, slen, count_is=None):
    """%s: min(precision, length) characters of the argument, padded with spaces to the width; %c: exactly one"""
    L = fl.get(ctx, '-')
    G = fl.get(ctx, '.')
    if count_is is not None:
        n = Lin(count_is)
    elif G:
        n = p if ctx.test('sle', p, slen, 'precision <= length') else slen
    else:
        n = slen
    sp = ctx.max0(w - n, 'width > length')
    segs = []
    if not L:
        segs.append(('c', 32, sp))
    segs.append(('arg-chars', n))
    if L:
        segs.append(('c', 32, sp))
    return segs, None


def clean_model(ctx, segs):
    out = []
    for s in segs:
        if s[0] == 'lit':
            if s[1]:
                out.append(s)
            continue
        cnt = s[2] if s[0] == 'c' else s[1]
        if ctx.eq(cnt, 0):
            continue
        if not ctx.test('sge', cnt, 1):
            continue
        if s[0] == 'c' and out and out[-1][0] == 'c' and out[-1][1] == s[1]:
            out[-1] = ('c', s[1], out[-1][2] + cnt)
        else:
            out.append(s)
    return out


class Layout:
    """one formatting routine executed symbolically in the context of one conversion"""

    def __init__(self, mod, tables, callee, argspec, pre=(), join_at=None, wide=('u',), cstr=None, bits=None):
        self.mod = mod
        self.tables = tables
        self.f = mod.fn(callee)
        emitters = emitter_functions(mod)
        inline = [n for n in emitters if n != callee]
        self.sx = SX(mod, handler_arg=HANDLER, inline=inline, bit_args=['ops'], wide_syms=wide,
                     cstr_args=cstr or {}, join_at=join_at)
        st = self.sx.start(self.f, argspec, pre)
        for (mask, val) in (bits or ()):
            b = Lin.sym(('ops', 'bit', mask.bit_length() - 1))
            st.cons.add_le(0, b)
            st.cons.add_le(b, 1)
            st.cons.add_eq(b, val)
        self.rets = self.sx.run_function(self.f, st)

    def pcacc(self):
        """[(ok, state, ret)]: the returned value equals the number of callback calls"""
        out = []
        for s, rv in self.rets:
            ok = isinstance(rv, Lin) and s.cons.entails_eq(rv, s.E)
            out.append((ok, s, rv))
        return out
