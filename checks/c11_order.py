"""C11 extension: ORDER and CONTENT clauses of qsort / bsearch decided by ELEMENT IDENTITY on small concrete arrays, and
the values atol / atoi return for long digit strings.  (`run_bounds`, the same analysis for the non-ISO helpers lower_bound /
upper_bound of bsearch.c, is kept but not called: they are outside the statement of property C11.)

Technique (static only - no igris code is executed, no solver): an abstract interpreter over the functions' LLVM IR
(`c11_order_vm.Machine`) whose domain is

  * concrete integers and (object, offset) pointers (array length, element size, cursors, indices are concrete per
    scenario: the control flow that depends on them is decided exactly),
  * SYMBOLIC CONTENTS: byte k of input element e is the atom (e, k); memory is byte-granular, so a swap that moves whole
    elements, a byte loop, a word loop or an xor-exchange are all followed exactly, and an element that is torn (bytes of
    two elements mixed, a byte lost) is seen at the byte where it happens,
  * the COMPARATOR AS AN ORACLE: the set of all total preorders (weak orders, ties included) of the elements that are
    still consistent with the answers given so far is carried along the path; at a comparator call the set is partitioned
    by the sign of the answer and the path forks once per non-empty class.  Every path therefore sees answers that are
    consistent with one weak order, and the union of the leaves covers every weak order of the n elements (n!-many
    plus all tie groupings),
  * the comparator RESULT is an interval ([INT_MIN,-1], 0, [1,INT_MAX]): a branch that cannot be decided from the sign is
    reported (the result's magnitude is unspecified),
  * rand() is an unknown non-negative int; `% nmemb` forks over every residue (every pivot choice is analysed).

At the return of every leaf the array is compared with the definition (ISO C 7.22.5): permutation of the input elements,
ordered for every weak order left in the leaf's set; bsearch: pointer to an element that compares equal iff one exists.

atol / atoi (R-ATOVAL): the same machine with the characters of the text as RANGED byte symbols (one whole character class per
position: white space, digit, stopper) and linear forms over them; conditions that a class does not decide split the class
where they reach a branch.  Decides the value of texts of up to 18 (atoi: 9) digits - c11's R-PARSE stops at three.

Anything the machine cannot follow exactly (a call without summary, a branch on element contents, a path budget) makes the
scenario "unresolved": AnalysisBroken, never a verdict.
"""
import os
import multiprocessing
from concurrent.futures import ProcessPoolExecutor

from irlib import AnalysisBroken, keep_all_but_new_helpers
from common import libc_unit
import c11_order_vm as VM
from c11_order_vm import Machine, Unresolved, NULLP

QSORT_UNIT = 'compat/libc/stdlib/qsort.c'
BSEARCH_UNIT = 'compat/libc/stdlib/bsearch.c'

QSIZES = [1, 4, 8, 3]
BSIZES = [1, 4, 12, 3]
MAXPATHS = 3000000            # per job
MAXPATHS_ATO = 20000
MAXV = 6                      # violations collected per job before the job stops


# ----------------------------------------------------------------------
# scenario sets
# ----------------------------------------------------------------------
def weak_orders(n):
    """all total preorders of n elements as dense rank tuples (rank[e] in 0..m-1, every rank used)"""
    if n == 0:
        return [()]
    out = []

    def build(k, ranks, m):
        # place element k: into an existing class, or as a new class at any of the m+1 positions
        if k == n:
            out.append(tuple(ranks))
            return
        for c in range(m):
            build(k + 1, ranks + [c], m)
        for pos in range(m + 1):
            build(k + 1, [r + 1 if r >= pos else r for r in ranks] + [pos], m + 1)
    build(0, [], 0)
    return out


def sorted_search_scenarios(n):
    """sorted arrays of n keys with every tie grouping, and every position of the searched key: equal to a class
    (even rank), between two classes / before the first / behind the last (odd rank).  Scenario = ranks + (key rank,)"""
    out = []
    if n == 0:
        return [(1,)]
    for mask in range(1 << (n - 1)):
        ranks = [0]
        for i in range(n - 1):
            ranks.append(ranks[-1] + (2 if (mask >> i) & 1 else 0))
        for kr in range(-1, ranks[-1] + 2):
            out.append(tuple(ranks) + (kr,))
    return out


def sgn(x):
    return (x > 0) - (x < 0)


def show_order(r, names=None):
    n = len(r)
    if n == 0:
        return 'empty array'
    names = names or ['a[%d]' % i for i in range(n)]
    groups = {}
    for e, k in enumerate(r):
        groups.setdefault(k, []).append(names[e])
    return ' < '.join(' = '.join(groups[k]) for k in sorted(groups))


# ----------------------------------------------------------------------
# oracles
# ----------------------------------------------------------------------
class SortOracle:
    """qsort: both arguments must designate one whole input element: an element-aligned slot of the array, or a private
    copy of a whole element (the pivot copied out of the array)"""

    def __init__(self, n, K):
        self.n = n
        self.K = K

    def identify(self, m, st, p, which):
        K = self.K
        if not (isinstance(p, tuple) and p[0] == 'p'):
            raise Unresolved('comparator argument %d is not a pointer (%s)' % (which, VM.show(p)))
        if p[1] == 0:
            raise VM.Viol('cmpargs', 'comparator argument %d is a null pointer' % which)
        o = st.objs.get(p[1])
        if o is None:
            raise VM.Viol('cmpargs', 'comparator argument %d points to storage that is no longer alive' % which)
        off = p[2]
        if o.kind == 'array':
            if off < 0 or off + K > o.size:
                raise VM.Viol('cmpargs', 'comparator argument %d is array + %d: outside the array of %d element(s) of %d byte(s)'
                              % (which, off, self.n, K))
            if off % K:
                raise VM.Viol('cmpargs', 'comparator argument %d is array + %d: not the start of an element (size %d)'
                              % (which, off, K))
        elif off < 0 or off + K > o.size:
            raise VM.Viol('cmpargs', 'comparator argument %d points to %d byte(s) at offset %d of %s (%d bytes)'
                          % (which, K, off, o.name, o.size))
        bs = o.bytes[off:off + K]
        e = VM.whole_elem(bs, K)
        if e is None or e[0] != 'e':
            where = ('a[%d]' % (off // K)) if o.kind == 'array' else o.name
            raise VM.Viol('cmpargs', 'the comparator is handed %s, which does not hold one whole input element: bytes %s'
                          % (where, VM.show_bytes(bs)))
        return e[1]

    def call(self, m, st, args):
        if len(args) != 2:
            raise VM.Viol('cmpargs', 'the comparator is called with %d argument(s)' % len(args))
        ea = self.identify(m, st, args[0], 0)
        eb = self.identify(m, st, args[1], 1)
        return split_by(st.S, lambda r: sgn(r[ea] - r[eb]))


class SearchOracle:
    """bsearch family: compar(key, element): the first argument is the key object, the second an element-aligned slot
    inside the array"""

    def __init__(self, n, K):
        self.n = n
        self.K = K

    def call(self, m, st, args):
        K = self.K
        if len(args) != 2:
            raise VM.Viol('cmpargs', 'the comparator is called with %d argument(s)' % len(args))
        a, b = args
        ko = st.objs.get(a[1]) if isinstance(a, tuple) and a[0] == 'p' else None
        if ko is None or ko.kind != 'key' or a[2] != 0:
            raise VM.Viol('cmpargs', 'first comparator argument is %s, ISO C 7.22.5.1: the key' % VM.show_ptr(st, a))
        ao = st.objs.get(b[1]) if isinstance(b, tuple) and b[0] == 'p' else None
        if ao is None or ao.kind != 'array':
            raise VM.Viol('cmpargs', 'second comparator argument is %s, not an element of the array' % VM.show_ptr(st, b))
        off = b[2]
        if off < 0 or off + K > ao.size:
            raise VM.Viol('cmpargs', 'second comparator argument is array + %d: outside the array of %d element(s) of %d byte(s)'
                          % (off, self.n, K))
        if off % K:
            raise VM.Viol('cmpargs', 'second comparator argument is array + %d: not the start of an element (size %d)' % (off, K))
        e = VM.whole_elem(ao.bytes[off:off + K], K)
        k = VM.whole_elem(ko.bytes[0:K], K)
        if e is None or e[0] != 'e' or k is None or k[0] != 'k':
            raise VM.Viol('frame', 'the array or the key was modified before a comparison')
        idx = e[1]
        st.log.append(idx)
        return split_by(st.S, lambda r: sgn(r[-1] - r[idx]))


def split_by(S, f):
    cls = {-1: [], 0: [], 1: []}
    for r in S:
        cls[f(r)].append(r)
    out = []
    for s in (-1, 0, 1):
        if cls[s]:
            out.append((VM.NEG if s < 0 else (VM.POS if s > 0 else 0), cls[s], None))
    return out


# ----------------------------------------------------------------------
# jobs
# ----------------------------------------------------------------------
_MODS = {}


def unit(repo, rel):
    k = (repo, rel)
    if k not in _MODS:
        _MODS[k] = libc_unit(repo, rel, inline=keep_all_but_new_helpers())
    return _MODS[k]


def fn_of(mod, name, rel):
    f = mod.fn(name)
    if f is None or f.decl:
        raise AnalysisBroken('%s not defined in %s (anchor vanished)' % (name, rel))
    return f


def elem_bytes(tag, e, K):
    return [(tag, e, k) for k in range(K)]


def describe_sort(n, K, r, trail):
    t = 'qsort(a, %d, %d, cmp) with %s' % (n, K, show_order(r))
    if trail:
        t += ' and pivot choice(s) %s' % ', '.join(trail)
    return t


def job_qsort(a):
    repo, n, K, part = a
    mod = unit(repo, QSORT_UNIT)
    fn_of(mod, 'qsort', QSORT_UNIT)
    m = Machine(mod, SortOracle(n, K))
    st = m.new_state()
    arr = st.new_obj('array', n * K, 'the array')
    for e in range(n):
        arr.bytes[e * K:(e + 1) * K] = elem_bytes('e', e, K)
    st.S = weak_orders(n)
    st.readonly = set()
    base = ('p', arr.id, 0)
    m.enter(st, 'qsort', [base, n, K, VM.COMPAR])
    res = dict(paths=0, viol=[], unresolved=[], maxcmp=0, steps=0, covered=set(), total=len(st.S))

    def leaf(st, ret):
        o = st.objs[arr.id]
        slots = [VM.whole_elem(o.bytes[i * K:(i + 1) * K], K) for i in range(n)]
        r0 = st.S[0]
        for i, s in enumerate(slots):
            if s is None or s[0] != 'e':
                return ('permutation', '%s: at the return a[%d] holds bytes %s - not one whole input element'
                        % (describe_sort(n, K, r0, st.trail), i, VM.show_bytes(o.bytes[i * K:(i + 1) * K])))
        ids = [s[1] for s in slots]
        if sorted(ids) != list(range(n)):
            return ('permutation', '%s: the result is [%s] - input element(s) %s lost, %s duplicated'
                    % (describe_sort(n, K, r0, st.trail), ', '.join('a[%d]' % e for e in ids),
                       ', '.join('a[%d]' % e for e in range(n) if e not in ids) or 'none',
                       ', '.join(sorted(set('a[%d]' % e for e in ids if ids.count(e) > 1))) or 'none'))
        for r in st.S:
            for i in range(n - 1):
                if r[ids[i]] > r[ids[i + 1]]:
                    return ('sorted', '%s: the result is [%s] (input positions) - result[%d] compares greater than result[%d]'
                            % (describe_sort(n, K, r, st.trail), ', '.join('a[%d]' % e for e in ids), i, i + 1))
        return None
    explore(m, st, res, leaf, lambda st: describe_sort(n, K, st.S[0], st.trail), part)
    return ('qsort', n, K, res)


def describe_search(fname, n, K, r):
    if n == 0:
        return '%s(&key, a, 0, %d, cmp)' % (fname, K)
    kr = r[-1]
    ranks = r[:-1]
    if kr % 2 == 0:
        pos = 'key equal to ' + ' = '.join('a[%d]' % i for i in range(n) if ranks[i] == kr)
    elif kr < 0:
        pos = 'key less than every element'
    elif kr > ranks[-1]:
        pos = 'key greater than every element'
    else:
        lo = max(i for i in range(n) if ranks[i] < kr)
        pos = 'key between a[%d] and a[%d]' % (lo, lo + 1)
    return '%s(&key, a, %d, %d, cmp) on the sorted array %s, %s' % (fname, n, K, show_order(ranks), pos)


def flog2(n):
    return n.bit_length() - 1


def job_search(a):
    repo, fname, n, K = a
    mod = unit(repo, BSEARCH_UNIT)
    fn_of(mod, fname, BSEARCH_UNIT)
    m = Machine(mod, SearchOracle(n, K))
    st = m.new_state()
    arr = st.new_obj('array', n * K, 'the array')
    for e in range(n):
        arr.bytes[e * K:(e + 1) * K] = elem_bytes('e', e, K)
    key = st.new_obj('key', K, 'the key object')
    key.bytes[0:K] = elem_bytes('k', 0, K)
    st.readonly = {arr.id, key.id}
    st.S = sorted_search_scenarios(n)
    m.enter(st, fname, [('p', key.id, 0), ('p', arr.id, 0), n, K, VM.COMPAR])
    res = dict(paths=0, viol=[], unresolved=[], maxcmp=0, steps=0, covered=set(), total=len(st.S))
    limit = flog2(n) + 2 if n else 0

    def leaf(st, ret):
        for r in st.S:
            d = describe_search(fname, n, K, r)
            kr, ranks = r[-1], r[:-1]
            if not (isinstance(ret, tuple) and ret[0] == 'p'):
                raise Unresolved('%s returns %s' % (fname, VM.show(ret)))
            if fname == 'bsearch':
                want = [i for i in range(n) if ranks[i] == kr]
                if ret == NULLP:
                    if want:
                        return ('found', '%s: returns NULL although a[%d] compares equal to the key' % (d, want[0]))
                elif ret[1] != arr.id or ret[2] % K or not (0 <= ret[2] < n * K):
                    return ('found', '%s: returns %s, which is neither NULL nor an element of the array' % (d, VM.show_ptr(st, ret)))
                elif ret[2] // K not in want:
                    return ('found', '%s: returns &a[%d], which does not compare equal to the key%s'
                            % (d, ret[2] // K, '' if want else ' (no element does: the result must be NULL)'))
            else:
                # stdlib.h: lower_bound = "the smallest element greater or equal", upper_bound = "the smallest element
                # strictly greater"; in a sorted array that is the first such position.  When no element qualifies the
                # header promises nothing: decided is only that the result is not an element that fails the description
                if fname == 'lower_bound':
                    good = [i for i in range(n) if ranks[i] >= kr]
                    what = 'greater than or equal to'
                else:
                    good = [i for i in range(n) if ranks[i] > kr]
                    what = 'strictly greater than'
                if good:
                    if ret != ('p', arr.id, good[0] * K):
                        return ('bound', '%s: returns %s, the smallest element %s the key is a[%d]'
                                % (d, VM.show_ptr(st, ret), what, good[0]))
                elif ret[1] == arr.id and ret[2] % K == 0 and 0 <= ret[2] < n * K:
                    return ('bound', '%s: no element is %s the key, yet &a[%d] is returned (indistinguishable from a hit)'
                            % (d, what, ret[2] // K))
                elif ret != ('p', arr.id, n * K) and ret != NULLP:
                    return ('bound', '%s: no element is %s the key and the result %s is neither the end of the array nor '
                            'NULL' % (d, what, VM.show_ptr(st, ret)))
        if st.ncmp > limit:
            return ('comparisons', '%s: %d comparisons (elements %s) - a bisection of %d element(s) needs at most '
                    'floor(log2(%d)) + 2 = %d' % (describe_search(fname, n, K, st.S[0]), st.ncmp,
                                                  ', '.join('a[%d]' % i for i in st.log), n, max(n, 1), limit))
        return None
    explore(m, st, res, leaf, lambda st: describe_search(fname, n, K, st.S[0]))
    return (fname, n, K, res)


def explore(m, st0, res, leaf, describe, part=None):
    """depth-first over the forks of one scenario set.  part = (k, m): of the alternatives of the FIRST fork only those
    with index = k mod m are followed (large jobs are spread over processes that way; the parts together cover
    everything, whatever the first fork is)"""
    work = [st0]
    first = part is not None
    where0 = m.fn_where(st0)
    while work and len(res['viol']) < MAXV:
        st = work.pop()
        try:
            out = m.run(st)
        except VM.Viol as v:
            res['viol'].append((v.clause, '%s: %s' % (describe(st), v.text), m.where(st)))
            res['paths'] += 1
            continue
        except Unresolved as u:
            res['unresolved'].append('%s: %s [%s]' % (describe(st), u, m.where(st)))
            if len(res['unresolved']) > 3:
                break
            continue
        if out[0] == 'fork':
            alts = out[1]
            if first:
                first = False
                alts = [x for k, x in enumerate(alts) if k % part[1] == part[0]]
            work.extend(alts)
            if res['paths'] > MAXPATHS:
                res['unresolved'].append('%s: more than %d paths' % (describe(st0) if st0.S else '', MAXPATHS))
                break
            continue
        if first and part[0] != 0:
            continue                    # no fork at all: the single path belongs to part 0
        res['paths'] += 1
        res['covered'].update(st.S)
        res['steps'] = max(res['steps'], st.steps)
        res['maxcmp'] = max(res['maxcmp'], st.ncmp)
        try:
            bad = leaf(st, out[1])
        except Unresolved as u:
            res['unresolved'].append('%s: %s' % (describe(st), u))
            continue
        if bad:
            res['viol'].append((bad[0], bad[1], where0))


# ----------------------------------------------------------------------
# atol / atoi: value of long digit strings
# ----------------------------------------------------------------------
ATOL_UNIT = 'compat/libc/stdlib/atol.c'
NOCTYPE = ['-fno-builtin', '-D_GNU_SOURCE', '-D__weak_alias(a,b)=', '-D__NO_CTYPE']   # as c11.scan_unit: ctype predicates stay calls
SPC = (9, 13)
DIG = (48, 57)
ATO_DIGITS = {'atol': 18, 'atoi': 9}          # every text of that many digits is representable in the result type
ATO_BITS = {'atol': 64, 'atoi': 32}


def ato_unit(repo):
    k = (repo, ATOL_UNIT)
    if k not in _MODS:
        from irlib import compile_ir
        _MODS[k] = compile_ir(os.path.join(repo, ATOL_UNIT), repo, NOCTYPE, lang='c', inline=keep_all_but_new_helpers())
    return _MODS[k]


SHIM_UNITS = {'strtol': 'compat/libc/stdlib/strtol.c', 'strtoul': 'compat/libc/stdlib/strtoul.c',
              'strtoll': 'compat/libc/stdlib/strtoll.c', 'strtoull': 'compat/libc/stdlib/strtoull.c',
              'strtoimax': 'compat/libc/inttypes/strtoimax.c', 'strtoumax': 'compat/libc/inttypes/strtoumax.c'}


def shim_resolver(repo):
    """functions of the shim's other units that atol/atoi may be written in terms of (followed into their own IR)"""
    def resolve(name):
        rel = SHIM_UNITS.get(name)
        if rel is None or not os.path.exists(os.path.join(repo, rel)):
            return None
        k = (repo, rel)
        if k not in _MODS:
            from irlib import compile_ir
            _MODS[k] = compile_ir(os.path.join(repo, rel), repo, NOCTYPE, lang='c', inline=keep_all_but_new_helpers(),
                                  out_name='c11_order_%d_%s' % (os.getpid(), name))
        return _MODS[k].fn(name)
    return resolve


def preload(repo, mod, seen=None):
    """compile (in the parent, before the job processes are forked) every other shim unit the given unit calls into"""
    seen = set() if seen is None else seen
    res = shim_resolver(repo)
    for f in mod.defined():
        for c in f.calls():
            n = c.callee
            if n in SHIM_UNITS and n not in seen and (mod.fn(n) is None or mod.fn(n).decl):
                seen.add(n)
                g = res(n)
                if g is not None:
                    preload(repo, g.mod, seen)


def show_text(chars):
    out = []
    for c in chars:
        if isinstance(c, int):
            out.append(chr(c) if 33 <= c < 127 else '\\x%02x' % c)
        else:
            out.append('[%s-%s]' % tuple((chr(x) if 33 <= x < 127 else '\\x%02x' % x) for x in c))
    return '"' + ''.join(out) + '"'


class NoOracle:
    K = 0

    def call(self, m, st, args):
        raise Unresolved('indirect call')


def job_ato(a):
    repo, fname, nd = a
    mod = ato_unit(repo)
    f = fn_of(mod, fname, ATOL_UNIT)
    where0 = '%s:%d' % (f.file, f.line)
    res = dict(paths=0, viol=[], unresolved=[], maxcmp=2, steps=0, covered=set(), total=0)
    w = ATO_BITS[fname]
    for pre in ([], [SPC], [32, SPC]):
        for sign in (None, 43, 45):
            for stop in ([], [(33, 47), 55], [(58, 255), 55]):
                chars = list(pre) + ([sign] if sign else []) + [DIG] * nd + list(stop)
                res['total'] += 1
                m = Machine(mod, NoOracle(), shim_resolver(repo))
                st = m.new_state()
                txt = st.new_obj('text', len(chars) + 1, 'the text')
                ranges = {}
                for i, c in enumerate(chars):
                    if isinstance(c, int):
                        txt.bytes[i] = c
                    else:
                        txt.bytes[i] = ('t', i)
                        ranges[('t', i)] = c
                txt.bytes[len(chars)] = 0
                st.ranges = ranges
                st.readonly = {txt.id}
                st.S = [()]
                d0 = len(pre) + (1 if sign else 0)
                desc = '%s(%s)' % (fname, show_text(chars))
                sg = -1 if sign == 45 else 1
                try:
                    m.enter(st, fname, [('p', txt.id, 0)])
                except Unresolved as u:
                    res['unresolved'].append('%s: %s' % (desc, u))
                    continue
                work = [st]
                done = True
                while work and len(res['viol']) < MAXV:
                    st = work.pop()
                    sub = desc + ('' if not st.trail else ' with ' + ', '.join(st.trail))
                    try:
                        out = m.run(st)
                    except VM.Viol as v:
                        res['viol'].append((v.clause if v.clause == 'frame' else 'value', '%s: %s' % (sub, v.text), m.where(st)))
                        continue
                    except Unresolved as u:
                        res['unresolved'].append('%s: %s [%s]' % (sub, u, m.where(st)))
                        done = False
                        continue
                    if out[0] == 'fork':
                        work.extend(out[1])
                        if len(work) + res['paths'] > MAXPATHS_ATO:
                            res['unresolved'].append('%s: more than %d paths' % (desc, MAXPATHS_ATO))
                            done = False
                            break
                        continue
                    res['paths'] += 1
                    want = m.mk_lin(st, -48 * sg * sum(10 ** (nd - 1 - k) for k in range(nd)),
                                    tuple((('t', d0 + k), sg * 10 ** (nd - 1 - k)) for k in range(nd)), w)
                    got = out[1]
                    gl = m.lin_of(st, got, w) if got is not None else None
                    wl = m.lin_of(st, want, w)
                    same = gl is not None and (gl[0] - wl[0]) % (1 << w) == 0 and \
                        sorted((x, k % (1 << w)) for x, k in gl[1]) == sorted((x, k % (1 << w)) for x, k in wl[1])
                    if not same:
                        res['viol'].append(('value', '%s returns %s, ISO C 7.22.1.2 (strtol semantics, base 10): %s%s'
                                            % (sub, VM.show(got), '-(' if sg < 0 else '',
                                               ' + '.join('%d*(s[%d]-\'0\')' % (10 ** (nd - 1 - k), d0 + k) for k in range(nd)) +
                                               (')' if sg < 0 else '')), where0))
                if done:
                    res['covered'].add((tuple(pre), sign, tuple(stop)))
    return (fname, nd, 0, res)


JOBS = {'qsort': job_qsort, 'search': job_search, 'ato': job_ato}


def _dispatch(j):
    kind, a = j
    try:
        return ('ok', JOBS[kind](a))
    except AnalysisBroken as e:
        return ('broken', '%s %r: %s' % (kind, a[1:], e))


def run_jobs(jobs):
    if os.environ.get('VERIF_C11_SERIAL'):
        return [_dispatch(j) for j in jobs]
    n = min(len(jobs), max(2, min(16, (os.cpu_count() or 4))))
    ctx = multiprocessing.get_context('fork')
    with ProcessPoolExecutor(max_workers=n, mp_context=ctx) as ex:
        return list(ex.map(_dispatch, jobs))


# ----------------------------------------------------------------------
QCLAUSES = [
    ('permutation', 'at the return every slot holds one whole input element and every input element occurs exactly once'),
    ('sorted', 'at the return adjacent elements are ordered by the comparator (every weak order of the elements, ties included, '
               'every pivot choice)'),
    ('cmpargs', 'the comparator only sees whole input elements (element-aligned slots inside the array or a private copy of one)'),
    ('frame', 'every access stays inside the array and the function\'s own locals'),
    ('terminates', 'every path returns (no repeated state, no recursion on the same range)'),
    ('sign', 'only the sign of the comparator result is used'),
]
BCLAUSES = [
    ('found', 'returns an element that compares equal to the key when one exists, NULL otherwise'),
    ('cmpargs', 'the comparator is called as compar(key, whole element inside the array)'),
    ('comparisons', 'logarithmic: at most floor(log2(nmemb)) + 2 comparisons (none on an empty array)'),
    ('frame', 'the array and the key are not written, every access stays inside them'),
    ('terminates', 'every path returns (no repeated state)'),
    ('sign', 'only the sign of the comparator result is used'),
]
LCLAUSES = [
    ('bound', 'returns the first element that the header\'s description names when one exists, never an element that fails it'),
    ('cmpargs', 'the comparator is called as compar(key, whole element inside the array)'),
    ('frame', 'the array and the key are not written, every access stays inside them'),
    ('terminates', 'every path returns (no repeated state)'),
    ('sign', 'only the sign of the comparator result is used'),
]


ACLAUSES = [
    ('value', 'texts of [white space] [sign] 1..%d digits [stopper]: the result is the decimal value of the digits, negated after '
              '\'-\' (leading white space skipped, scanning stops at the first non-digit)'),
    ('frame', 'texts of [white space] [sign] 1..%d digits [stopper]: nothing is read behind the terminator, nothing is written'),
]


def run_ext(rep, repo, tier):
    """the clauses of property C11: qsort (R-QORDER), bsearch (R-BFIND), atol/atoi values (R-ATOVAL)"""
    _run(rep, repo, tier, ('qsort', 'bsearch', 'ato'))


def run_bounds(rep, repo, tier):
    """R-BOUNDS: lower_bound / upper_bound against the descriptions in compat/libc/include/stdlib.h.
    NOT CALLED: the two non-ISO helpers of bsearch.c are outside the statement of property C11 (strto*, atoi, atol, qsort,
    bsearch), so a rule on them would demand more than the property states.  Kept for whoever wants to look at them; when
    bsearch is written in terms of them, R-BFIND follows the calls and decides what bsearch needs of them anyway."""
    _run(rep, repo, tier, ('bounds',))


def _run(rep, repo, tier, parts):
    thorough = tier != 'quick'
    qn = 6 if thorough else 5
    bn = 9 if thorough else 7
    # compile once in the parent (children are forked)
    jobs = []
    analysed = []
    table = []
    if 'qsort' in parts:
        qmod = unit(repo, QSORT_UNIT)
        fn_of(qmod, 'qsort', QSORT_UNIT)
        analysed.append('qsort')
        table.append(('qsort', 'R-QORDER', QCLAUSES, QSIZES, qmod))
        for K in QSIZES:
            for n in range(qn, -1, -1):
                if n >= 6:
                    for k in range(n):
                        jobs.append(('qsort', (repo, n, K, (k, n))))
                else:
                    jobs.append(('qsort', (repo, n, K, None)))
    searchers = (['bsearch'] if 'bsearch' in parts else []) + (['lower_bound', 'upper_bound'] if 'bounds' in parts else [])
    if searchers:
        bmod = unit(repo, BSEARCH_UNIT)
        for fname in searchers:
            fn_of(bmod, fname, BSEARCH_UNIT)
            analysed.append(fname)
            table.append((fname, 'R-BFIND', BCLAUSES, BSIZES, bmod) if fname == 'bsearch' else
                         (fname, 'R-BOUNDS', LCLAUSES, BSIZES, bmod))
            for K in BSIZES:
                for n in range(bn, -1, -1):
                    jobs.append(('search', (repo, fname, n, K)))
    atos = ('atol', 'atoi') if 'ato' in parts else ()
    if atos:
        amod = ato_unit(repo)
        preload(repo, amod)
        for fname in atos:
            fn_of(amod, fname, ATOL_UNIT)
            analysed.append(fname)
            for nd in range(1, ATO_DIGITS[fname] + 1):
                jobs.append(('ato', (repo, fname, nd)))
    jobs.sort(key=lambda j: -(j[1][1] if j[0] == 'qsort' else 0))
    results = run_jobs(jobs)
    agg = {}
    allv = {}
    unresolved = []
    stats = {}
    cover = {}
    for (status, payload) in results:
        if status == 'broken':
            raise AnalysisBroken(payload)
        fname, n, K, res = payload
        s = stats.setdefault(fname, dict(paths=0, maxcmp=0, scenarios=0, scenarios_covered=0))
        s['paths'] += res['paths']
        c = cover.setdefault((fname, n, K), [res['total'], set()])
        c[1].update(res['covered'])
        s['maxcmp'] = max(s['maxcmp'], res['maxcmp'])
        for u in res['unresolved']:
            unresolved.append(u)
        for (clause, text, where) in res['viol']:
            allv.setdefault((fname, K, clause), []).append((n, text, where))
    for k, lst in allv.items():
        lst.sort(key=lambda x: x[0])
        n0, text, where = lst[0]
        more = [x for x in lst if x[0] != n0]
        if more:
            text += '; also for %s %s, e.g. %s' % ('digit count' if k[0] in ATO_DIGITS else 'nmemb',
                                                   ', '.join(str(x) for x in sorted(set(x[0] for x in more))), more[0][1])
        agg[k] = (n0, text, where)
    for (fname, n, K), (total, cov) in cover.items():
        stats[fname]['scenarios'] += total
        stats[fname]['scenarios_covered'] += len(cov)
    for (fname, rule, clauses, sizes, mod) in table:
        f = mod.fn(fname)
        where = '%s:%d' % (f.file, f.line)
        for K in sizes:
            for (clause, text) in clauses:
                bad = agg.get((fname, K, clause))
                rep.inst('%s:%s' % (rule, clause), fname, 'element size %d: %s' % (K, text), bad is None,
                         bad[2] if bad else where, bad[1] if bad else None)
    for fname in atos:
        f = amod.fn(fname)
        where = '%s:%d' % (f.file, f.line)
        for (clause, text) in ACLAUSES:
            bad = agg.get((fname, 0, clause))
            rep.inst('R-ATOVAL:%s' % clause, fname, text % ATO_DIGITS[fname], bad is None, bad[2] if bad else where,
                     bad[1] if bad else None)
    failing = bool(agg)
    rep.extra.setdefault('c11_order', {}).update(stats)
    if 'qsort' in parts:
        for c, _ in QCLAUSES:
            rep.floor('R-QORDER:' + c, len(QSIZES))
    if 'bsearch' in parts:
        for c, _ in BCLAUSES:
            rep.floor('R-BFIND:' + c, len(BSIZES))
    if 'bounds' in parts:
        for c, _ in LCLAUSES:
            rep.floor('R-BOUNDS:' + c, 2 * len(BSIZES))
    if atos:
        for c, _ in ACLAUSES:
            rep.floor('R-ATOVAL:' + c, 2)
    broken = []
    if unresolved:
        broken.append('c11_order: %d scenario(s) could not be analysed exactly, e.g. %s' % (len(unresolved), unresolved[0][:600]))
    if not failing:
        # every scenario (weak order / sorted array + key position / text) must have reached a return on some path; a job
        # stops after its first violations, so this only applies to a silent run
        for fname in analysed:
            sf = stats.get(fname, {})
            if sf.get('paths', 0) <= 0 or sf.get('scenarios_covered', 0) != sf.get('scenarios', -1):
                broken.append('c11_order: %s: %d of %d scenarios reached a return' % (fname, sf.get('scenarios_covered', 0),
                                                                                      sf.get('scenarios', 0)))
            if sf.get('maxcmp', 0) < 2:
                broken.append('c11_order: %s never calls the comparator twice (oracle not reached)' % fname)
    if broken:
        if failing:
            for b in broken:
                rep.defer_broken(b)
        else:
            raise AnalysisBroken('; '.join(broken))
    if 'qsort' in parts:
        rep.explanation += (
            ' ORDER/CONTENT (c11_order, element identity on concrete small arrays): qsort for nmemb 0..%d and element sizes %s '
            'with every element its own byte-wise symbol and the comparator an oracle consistent with one weak order per path '
            '(all weak orders incl. ties, all rand() %% nmemb pivot choices): the result is a permutation of whole input '
            'elements, ordered, the comparator only sees whole elements, all accesses in range, termination, sign-only use of '
            'the comparator result.' % (qn, QSIZES))
    if 'bsearch' in parts:
        rep.explanation += (
            ' bsearch for sorted arrays of 0..%d keys (all tie groupings), element sizes %s and every key position (equal to '
            'each class, between, before, behind): an equal element iff one exists, compar(key, element) only, at most '
            'floor(log2 n)+2 comparisons, nothing written.' % (bn, BSIZES))
    if atos:
        rep.explanation += (
            ' atol/atoi: the value of texts [white space][sign] 1..18 (atoi: 1..9) symbolic digits [stopper] equals the decimal '
            'closed form, nothing read behind the terminator.')
    if 'bounds' in parts:
        rep.explanation += (' lower_bound/upper_bound (outside the property): the first element named by the description in '
                            'stdlib.h when one exists.')
    if 'qsort' in parts or searchers:
        rep.assumptions += ['c11_order: the comparator is a function of the two elements\' contents that induces a total '
                            'preorder; object addresses are not within one element of the ends of the address space (base - '
                            'size does not wrap)']
