"""Verdict protocol shared by all checks: rule instances -> known-findings
matching -> KNOWN-FINDING / VIOLATION lines, replay files, evidence JSON,
exit code (0 held, 1 violation, 2 analysis broken)."""
import json
import os
import sys
import time

VERIF = os.path.dirname(os.path.dirname(os.path.abspath(__file__)))
# developer runs against scratch copies (seed / refactoring regressions, sub-agent drivers) set VERIF_EVIDENCE_DIR so that the
# evidence of the registered commands - written from /repo - is not overwritten
EVIDENCE_DIR = os.environ.get('VERIF_EVIDENCE_DIR') or os.path.join(VERIF, 'evidence')
KNOWN = os.path.join(VERIF, 'known_findings.json')


class Report:
    def __init__(self, pid, tier, repo, level='other'):
        self.pid = pid
        self.tier = tier
        self.repo = repo
        self.level = level
        self.t0 = time.time()
        self.instances = []     # dict(rule, function, key, ok, where, detail, premise)
        self.units = []
        self.functions = set()
        self.assumptions = []
        self.explanation = ''
        self.extra = {}
        self.floors = []        # (rule, minimum)
        self.trusted = []

    # ------------------------------------------------------------------
    def inst(self, rule, function, key, ok, where='', detail=None, nontrivial=True, fact=None):
        """one evaluated rule instance. (rule, function, key) is the stable
        identity used for known-findings matching; it contains no line
        numbers."""
        self.instances.append({'rule': rule, 'function': function, 'key': key, 'ok': bool(ok),
                               'where': where, 'detail': detail, 'nontrivial': nontrivial,
                               'fact': fact})
        if function:
            self.functions.add(function)

    def floor(self, rule, minimum):
        """the rule must have matched at least 'minimum' instances, else the
        analysis is broken (a rule matching nothing passes vacuously)"""
        self.floors.append((rule, minimum))

    def add_absint(self, rule_prefix, obligations):
        """import obligations from contracts.summarize()"""
        for o in obligations:
            kind = o['kind']
            if not o['ok'] and o.get('flagloop'):
                from irlib import AnalysisBroken
                self.defer_broken(AnalysisBroken('%s (%s: "%s" is not decided)' % (
                    o['flagloop'], rule_prefix, str(o.get('name') or o.get('detail') or kind)[:160])))
                continue
            if kind.startswith('bounds:') or kind == 'deref-null':
                key = o['id'].split('|', 2)[2] if False else None
            fnname = o['function']
            if kind in ('invariant', 'post', 'returns', 'ownership'):
                key = '%s:%s' % (kind, o['name'])
            else:
                stack = o.get('call_stack') or []
                root = o.get('root') or (stack[0].split('@')[0] if stack else fnname)
                leaf = o.get('leaf') or fnname
                key = '%s:%s' % (kind, o.get('objdesc') or o.get('detail_key') or leaf)
                if root != leaf:
                    key += ':in:' + leaf
                    fnname = root
            self.inst(rule_prefix + ':' + kind.split(':')[0], fnname, key, o['ok'], o.get('where', ''),
                      o.get('detail'), nontrivial=not o.get('vacuous', False) and o.get('nonvacuous', 1) > 0)

    # ------------------------------------------------------------------
    def finish(self):
        known = []
        if os.path.exists(KNOWN):
            with open(KNOWN) as f:
                known = json.load(f).get('findings', [])
        extra = os.environ.get('VERIF_KNOWN_EXTRA')     # developer overlay, never used by registered commands
        if extra and os.path.exists(extra):
            with open(extra) as f:
                x = json.load(f)
                known = known + (x if isinstance(x, list) else x.get('findings', []))
        mine = [k for k in known if k.get('property') == self.pid and k.get('status') == 'known']
        # merge instances by identity
        merged = {}
        for i in self.instances:
            ident = (i['rule'], i['function'], i['key'])
            m = merged.get(ident)
            if m is None:
                m = dict(i)
                m['count'] = 0
                merged[ident] = m
            m['count'] += 1
            if not i['ok'] and m['ok']:
                m['ok'] = False
                m['detail'] = i['detail']
                m['where'] = i['where']
        # floors
        broken = []
        for rule, minimum in self.floors:
            n = sum(1 for m in merged.values() if m['rule'] == rule or m['rule'].startswith(rule + ':'))
            if n < minimum:
                broken.append('rule %s matched %d instance(s), floor is %d' % (rule, n, minimum))
        # shape rules that did not recognise a form but were not allowed to stop the other rules (rep.defer_broken): they
        # count like a broken floor - analysis broken unless something else reports a violation
        broken += list(getattr(self, 'deferred_broken', []))
        fails = [m for m in merged.values() if not m['ok']]
        # (listed known findings are not violations: they must not turn an analysis-broken run into a pass)
        unlisted = [m for m in fails if not any(k.get('rule') == m['rule'] and k.get('function') == m['function'] and
                                                k.get('key') == m['key'] for k in mine)]
        if broken and not unlisted:
            for b in broken:
                print('ANALYSIS-BROKEN property=%s %s' % (self.pid, b))
            self.write_evidence(merged, [], [], broken)
            return 2
        for b in broken:
            # a change that breaks a rule may also remove instances: the violations are reported first
            print('NOTE property=%s %s' % (self.pid, b))
        violations = []
        knowns = []
        for m in fails:
            hit = None
            for k in mine:
                if k.get('rule') == m['rule'] and k.get('function') == m['function'] and k.get('key') == m['key']:
                    hit = k
                    break
            if hit:
                knowns.append((m, hit))
            else:
                violations.append(m)
        for m, k in knowns:
            print('KNOWN-FINDING: property=%s %s [%s %s %s] %s' % (
                self.pid, k.get('what', ''), m['rule'], m['function'], m['key'], m['where']))
        rdir = os.path.join(EVIDENCE_DIR, 'replay')
        n = 0
        for m in violations:
            n += 1
            os.makedirs(rdir, exist_ok=True)
            path = os.path.join(rdir, '%s-%d.json' % (self.pid, n))
            with open(path, 'w') as f:
                json.dump({'property': self.pid, 'rule': m['rule'], 'function': m['function'],
                           'key': m['key'], 'where': m['where'], 'detail': m['detail'],
                           'fact': m.get('fact'),
                           'rerun': 'python3 checks/run.py %s --tier %s --only "%s|%s|%s"' % (
                               self.pid, self.tier, m['rule'], m['function'], m['key'])}, f, indent=1)
            print('%s: %s in %s: %s' % (m['where'], m['rule'], m['function'], m['detail'] or m['key']))
            print('VIOLATION property=%s replay=%s' % (self.pid, path))
        self.write_evidence(merged, violations, knowns, [])
        return 1 if violations else 0

    def defer_broken(self, msg):
        """an AnalysisBroken condition of one rule that must not keep the remaining rules from running"""
        if not hasattr(self, 'deferred_broken'):
            self.deferred_broken = []
        self.deferred_broken.append(str(msg))

    def write_evidence(self, merged, violations, knowns, broken):
        insts = list(merged.values())
        total = len(insts)
        ok = sum(1 for m in insts if m['ok'])
        nontriv = sum(1 for m in insts if m.get('nontrivial'))
        samples = []
        seen_rules = set()
        for m in insts:
            if m['rule'] not in seen_rules and len(samples) < 40:
                seen_rules.add(m['rule'])
                samples.append({'rule': m['rule'], 'function': m['function'], 'instance': m['key'],
                                'where': m['where'], 'holds': m['ok'], 'fact': m.get('fact')})
        per_rule = {}
        for m in insts:
            r = per_rule.setdefault(m['rule'], {'instances': 0, 'hold': 0})
            r['instances'] += 1
            r['hold'] += 1 if m['ok'] else 0
        cov = {
            'explanation': self.explanation,
            'evaluations': total,
            'distinct_nontrivial': nontriv,
            'rule': 'one evaluation = one rule instance (rule, function, site/obligation) decided from the '
                    'current /repo sources; distinct by (rule, function, key); non-trivial = the instance has a '
                    'satisfiable premise (e.g. a feasible path reaches the obligation)',
            'samples': samples,
            'obligations': total,
            'discharged': ok,
            'checker_cmd': 'python3 checks/run.py %s --tier %s' % (self.pid, self.tier),
            'trusted_base': self.trusted or ['clang 14 front end + mem2reg/simplifycfg lowering to LLVM IR',
                                             'bin/irdump IR->JSON', 'checks/*.py analysis code'],
            'per_rule': per_rule,
            'units_analysed': self.units,
            'functions_analysed': sorted(self.functions)[:400],
            'n_functions': len(self.functions),
            'known_findings_reported': [{'rule': m['rule'], 'function': m['function'], 'key': m['key'],
                                         'what': k.get('what')} for m, k in knowns],
            'violations': [{'rule': m['rule'], 'function': m['function'], 'key': m['key'],
                            'where': m['where'], 'detail': m['detail']} for m in violations],
            'analysis_broken': broken,
            'exhaustive': True,
        }
        cov.update(self.extra)
        ev = {'property_id': self.pid, 'tier': self.tier,
              'seed': int(os.environ.get('VERIF_SEED', '0') or 0),
              'level': self.level, 'coverage': cov,
              'assumptions': self.assumptions,
              'wall_s': round(time.time() - self.t0, 3),
              'violations': len(violations)}
        os.makedirs(EVIDENCE_DIR, exist_ok=True)
        with open(os.path.join(EVIDENCE_DIR, '%s.json' % self.pid), 'w') as f:
            json.dump(ev, f, indent=1, default=str)
