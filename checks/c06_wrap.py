"""C06, libc front ends of the printf engine: compat/libc/stdio/sprintf.c (vsprintf, sprintf, snprintf) and fdprintf.c
(vfdprintf, fdprintf).  Rule R-WRAP, decided by symbolic execution (c06_sx) of each entry point with the local helpers
inlined and __printf left external:

  * the function that calls __printf hands it a callback of the unit, its own format and argument list, and a data object
    whose cursor field holds the destination buffer;
  * the string callback stores its character argument at the cursor and advances the cursor by one (and nothing else);
    a callback with a room counter stores only while room >= 1 and decrements it;
  * after __printf the terminator is stored through the cursor as __printf left it;
  * the count returned by __printf is what the caller gets (vfdprintf: unless the callback recorded a write error);
  * snprintf: the size argument n reaches the data object as a room of at most n - 1 characters (0 for n == 0, and then
    no terminator is stored);
  * the variadic front ends forward buffer / descriptor, format and their va_list and return the result unchanged;
  * the descriptor callback hands (character, descriptor of the data object) to fdputc.
"""
from common import *
from lin import Lin
from c06_sx import SX, P, vkey

UNITS = ['compat/libc/stdio/sprintf.c', 'compat/libc/stdio/fdprintf.c']
ENGINE = '__printf'
BUF = ('buf',)


class WSX(SX):
    """executor that remembers where opaque pointers were loaded from, logs stores as events, and (for callbacks) lets
    every pointer field of the data object point into one buffer at a symbolic offset"""

    def __init__(self, mod, **kw):
        self.data_base = kw.pop('data_base', None)
        SX.__init__(self, mod, **kw)
        self.prune = False
        self.loaded_from = {}
        self.int_loaded_from = {}
        self.engine_calls = []

    def load(self, st, fn, i, p):
        if self.data_base is not None and isinstance(p, P) and p.base == self.data_base and p.off.is_const():
            if i.ty.get('k') == 'ptr':
                return P(BUF, Lin.sym(('fld', p.off.c)))
            if i.ty.get('k') == 'int':
                v = st.mem.get((p.base, p.off.c, i.ty.get('size')))
                return v if v is not None else Lin.sym(('fld', p.off.c))
        v = SX.load(self, st, fn, i, p)
        if isinstance(v, P) and isinstance(p, P) and v.base[0] == 'o':
            self.loaded_from[v.base] = p
        if isinstance(p, P) and p.base[0] == 'a' and p.off.is_const() and i.ty.get('size'):
            # memory the executor knows nothing about (a call may have written it): a second load sees the same value
            k = (p.base, p.off.c, i.ty.get('size'))
            if k not in st.mem and v is not None:
                st.mem[k] = v
                if isinstance(v, Lin) and len(v.t) == 1:
                    self.int_loaded_from[next(iter(v.t))] = (p.base, p.off.c)
        return v

    def exec_inst(self, fn, i, st):
        if i.op == 'store':
            v = self.val(st, i.ops[0], fn)
            p = self.val(st, i.ops[1], fn)
            st.events = st.events + (('store', fn.name, i.id, p if isinstance(p, P) else None, v, i.d.get('store_size', 0)),)
            if self.data_base is not None and isinstance(p, P) and p.base == self.data_base and p.off.is_const():
                sz = i.d.get('store_size', 0)
                st.mem[(p.base, p.off.c, sz)] = v
                return [st]
        return SX.exec_inst(self, fn, i, st)


def engine_hook(sx, st, fn, i, args):
    data = args[1] if len(args) > 1 else None
    mem = {}
    if isinstance(data, P):
        for (b, off, sz), v in st.mem.items():
            if b == data.base:
                mem[off - (data.off.c if data.off.is_const() else 0)] = (sz, v)
    sx.engine_calls.append({'fn': fn, 'inst': i, 'args': args, 'mem': mem, 'state': st.fork()})
    st.events = st.events + (('engine', fn.name, i.id),)
    return None


def stores_of(s, after_engine=None):
    evs = list(s.events)
    if after_engine is not None:
        idx = [n for n, e in enumerate(evs) if e[0] == 'engine']
        evs = evs[idx[-1] + 1:] if idx else []
    return [e for e in evs if e[0] == 'store']


def run_entry(mod, f, args, pre=(), data_base=None):
    sx = WSX(mod, handler_arg=-1, inline=[g.name for g in mod.defined() if g.name != f.name],
             models={ENGINE: engine_hook}, data_base=data_base)
    st = sx.start(f, args, pre)
    rets = sx.run_function(f, st)
    return sx, rets


def entry_args(f, names=None):
    out = []
    for n, p in enumerate(f.params):
        k = p['ty'].get('k')
        out.append(P(('arg', n)) if k == 'ptr' else Lin.sym('a%d' % n))
    return out


def count_sym(sx, call):
    return Lin.sym(sx.opq('ext', ENGINE, call['fn'].name, call['inst'].id))


def where_fn(f):
    return '%s:%d' % (f.file, f.line)


def core_functions(mod):
    return [f for f in mod.defined() if f.calls(ENGINE)]


def fmt_forward(rep, name, f, sx, fmt_arg, extra=''):
    for c in sx.engine_calls:
        a = c['args']
        ok = len(a) == 4 and isinstance(a[2], P) and a[2] == P(('arg', fmt_arg)) and isinstance(a[3], P)
        va_ok = ok and (a[3].base[0] == 'a' or a[3] == P(('arg', len(f.params) - 1)))
        rep.inst('R-WRAP', name, 'hands its format and its argument list to the engine', ok and va_ok, c['inst'].where(),
                 None if ok and va_ok else 'the engine receives format %r and argument list %r' % (a[2] if len(a) > 2 else None,
                                                                                                  a[3] if len(a) > 3 else None))


def callback_of(mod, sx):
    cbs = set()
    for c in sx.engine_calls:
        a = c['args'][0]
        if isinstance(a, P) and a.base[0] == 'fn':
            cbs.add(a.base[1])
    if len(cbs) != 1:
        raise AnalysisBroken('%s: the callback handed to %s is not one function of the unit (%r)' % (mod.src, ENGINE, sorted(cbs)))
    g = mod.fn(next(iter(cbs)))
    if g is None or g.decl:
        raise AnalysisBroken('%s: callback %s is not defined in the unit' % (mod.src, next(iter(cbs))))
    return g


def string_callback_rule(rep, mod, cb, cur_off):
    """-> offset of the room field or None"""
    sx, rets = run_entry(mod, cb, [P(('arg', 0)), Lin.sym('c')], data_base=('arg', 0))
    c = Lin.sym('c')
    cur = Lin.sym(('fld', cur_off))
    room_off = None
    ok_store, ok_skip, d1, d2 = True, True, None, None
    nstore = 0
    for (s, rv) in rets:
        sts = stores_of(s)
        chars = [e for e in sts if e[3] is not None and e[3].base == BUF]
        if chars:
            nstore += 1
            good = len(chars) == 1 and chars[0][5] == 1 and isinstance(chars[0][4], Lin) and s.cons.entails_eq(chars[0][4], c) \
                and s.cons.entails_eq(chars[0][3].off, cur)
            adv = [e for e in sts if e[3] is not None and e[3] == P(('arg', 0), Lin(cur_off))]
            good = good and len(adv) == 1 and isinstance(adv[0][4], P) and adv[0][4].base == BUF and \
                s.cons.entails_eq(adv[0][4].off, cur + 1)
            others = [e for e in sts if e not in chars and e not in adv]
            for e in others:
                # a counter of the room left: decremented by one, and at least one before the decrement
                if e[3] is not None and e[3].base == ('arg', 0) and e[3].off.is_const() and isinstance(e[4], Lin):
                    r = Lin.sym(('fld', e[3].off.c))
                    # (the counter is unsigned: 'not zero', whichever sign the executor's integers give it, is 'at least one')
                    if s.cons.entails_eq(e[4], r - 1) and (s.cons.entails_le(1, r) or s.cons.entails_lt(r, 0)):
                        room_off = e[3].off.c
                        continue
                good = False
            if not good:
                ok_store, d1 = False, 'on a storing path the stores are %r' % ([(e[3], e[4]) for e in sts],)
        else:
            if sts:
                ok_skip, d2 = False, 'on a path that drops the character the stores are %r' % ([(e[3], e[4]) for e in sts],)
    if nstore == 0:
        ok_store, d1 = False, 'no path stores the character'
    rep.inst('R-WRAP', cb.name, 'stores its character at the cursor and advances the cursor by one', ok_store, where_fn(cb), d1)
    rep.inst('R-WRAP', cb.name, 'a dropped character changes nothing', ok_skip, where_fn(cb), d2)
    if room_off is not None:
        # the store happens only with room >= 1 (unsigned counter: != 0)
        r = Lin.sym(('fld', room_off))
        ok = True
        for (s, rv) in rets:
            if any(e[3] is not None and e[3].base == BUF for e in stores_of(s)):
                if s.cons.entails_eq(r, 0) or not (s.cons.entails_lt(r, 0) or s.cons.entails_lt(0, r)):
                    ok = False
        rep.inst('R-WRAP', cb.name, 'stores only while the room counter is not zero', ok, where_fn(cb),
                 None if ok else 'a storing path does not exclude room == 0')
    return room_off


def sprintf_rules(rep, mod):
    cores = core_functions(mod)
    if not cores:
        raise AnalysisBroken('%s: no function calls %s' % (mod.src, ENGINE))
    cb = None
    cur_off = None
    info = {}
    for f in cores:
        args = entry_args(f)
        pre = [-a for a in args if isinstance(a, Lin)]
        sx, rets = run_entry(mod, f, args, pre)
        if not sx.engine_calls or not rets:
            raise AnalysisBroken('%s: no path through %s reaches %s and returns' % (mod.src, f.name, ENGINE))
        cb = callback_of(mod, sx)
        fmt_pos = len(f.params) - 2
        fmt_forward(rep, f.name, f, sx, fmt_pos)
        # cursor field: the field of the data object that holds the destination buffer at the call
        offs = set()
        for c in sx.engine_calls:
            offs |= set(off for off, (sz, v) in c['mem'].items() if isinstance(v, P) and v == P(('arg', 0)))
        ok = len(offs) == 1
        rep.inst('R-WRAP', f.name, 'the cursor of the data object starts at the destination buffer', ok, where_fn(f),
                 None if ok else 'fields holding the buffer at the call: %r' % sorted(offs))
        if not ok:
            continue
        cur_off = next(iter(offs))
        data = sx.engine_calls[0]['args'][1]
        size_params = [n for n, a in enumerate(args) if isinstance(a, Lin)]
        # terminator and count on every returning path
        ok_t, ok_r, dt, dr = True, True, None, None
        for (s, rv) in rets:
            call = sx.engine_calls[-1]
            nul = []
            for e in stores_of(s, after_engine=True):
                p = e[3]
                if p is not None and p.base[0] == 'o' and p.off == Lin(0) and e[5] == 1 and isinstance(e[4], Lin) and \
                        e[4] == Lin(0) and sx.loaded_from.get(p.base) == P(data.base, data.off + cur_off):
                    nul.append(e)
                elif p is not None and (p.base == ('arg', 0) or p.base[0] == 'o'):
                    ok_t, dt = False, 'after the engine returns, %r is stored at %r' % (e[4], p)
            zero_size = size_params and all(s.cons.entails_le(args[n], 0) for n in size_params)
            if zero_size:
                if nul:
                    ok_t, dt = False, 'a terminator is stored although the size is 0'
            elif len(nul) != 1:
                ok_t, dt = False, '%d terminator stores through the final cursor on a returning path' % len(nul)
            if not (isinstance(rv, Lin) and s.cons.entails_eq(rv, count_sym(sx, call))):
                ok_r, dr = False, 'returns %r, the engine count is %r' % (rv, count_sym(sx, call))
        rep.inst('R-WRAP', f.name, 'the terminator is stored through the cursor the engine left', ok_t, where_fn(f), dt)
        rep.inst('R-WRAP', f.name, 'returns the count of the engine', ok_r, where_fn(f), dr)
        info[f.name] = (sx, rets, args, size_params)
    if cb is None or cur_off is None:
        return
    room_off = string_callback_rule(rep, mod, cb, cur_off)
    # front ends
    for name, nfixed in (('sprintf', 2), ('snprintf', 3)):
        f = mod.fn(name)
        if f is None or f.decl:
            raise AnalysisBroken('%s: function %s not found (anchor vanished)' % (mod.src, name))
        args = entry_args(f)
        pre = [-a for a in args if isinstance(a, Lin)]
        sx, rets = run_entry(mod, f, args, pre)
        if not sx.engine_calls or not rets:
            raise AnalysisBroken('%s: no path through %s reaches %s and returns' % (mod.src, name, ENGINE))
        fmt_forward(rep, name, f, sx, nfixed - 1)
        ok_b = all(any(isinstance(v, P) and v == P(('arg', 0)) and off == cur_off for off, (sz, v) in c['mem'].items())
                   for c in sx.engine_calls)
        rep.inst('R-WRAP', name, 'the cursor of the data object starts at the destination buffer', ok_b, where_fn(f),
                 None if ok_b else 'the data object handed to the engine does not hold the buffer in its cursor field')
        ok_r, dr = True, None
        for (s, rv) in rets:
            call = sx.engine_calls[-1]
            if not (isinstance(rv, Lin) and s.cons.entails_eq(rv, count_sym(sx, call))):
                ok_r, dr = False, 'returns %r, the engine count is %r' % (rv, count_sym(sx, call))
        rep.inst('R-WRAP', name, 'returns the count of the engine', ok_r, where_fn(f), dr)
        if name == 'snprintf':
            n = args[1]
            ok, detail = room_off is not None, None
            if not ok:
                detail = 'the callback keeps no count of the room left: it stores every character, whatever size was given ' \
                         '(snprintf(buf, 4, "%d", 123456) writes 7 bytes into a 4-byte buffer)'
            else:
                for c in sx.engine_calls:
                    s = c['state']
                    r = c['mem'].get(room_off)
                    r = r[1] if r else None
                    if not isinstance(r, Lin):
                        ok, detail = False, 'the room field is not set from the size (%r)' % (r,)
                        continue
                    for (s2, pos) in sx.branch(s.fork(), ('cmp', 'sge', n, Lin(1))):
                        good = s2.cons.entails_le(0, r) and (s2.cons.entails_le(r, n - 1) if pos else s2.cons.entails_eq(r, 0))
                        if not good:
                            ok, detail = False, 'with size n %s the room handed to the callback is %r' % ('>= 1' if pos else '== 0', r)
            rep.inst('R-WRAP', name, 'the size argument bounds what the callback stores (room <= n - 1)', ok, where_fn(f), detail)


def fdprintf_rules(rep, mod):
    cores = core_functions(mod)
    if not cores:
        raise AnalysisBroken('%s: no function calls %s' % (mod.src, ENGINE))
    cb = None
    fd_off = err_off = None
    for f in cores:
        args = entry_args(f)
        sx, rets = run_entry(mod, f, args)
        if not sx.engine_calls or not rets:
            raise AnalysisBroken('%s: no path through %s reaches %s and returns' % (mod.src, f.name, ENGINE))
        cb = callback_of(mod, sx)
        fmt_forward(rep, f.name, f, sx, len(f.params) - 2)
        c = sx.engine_calls[0]
        fdo = [off for off, (sz, v) in c['mem'].items() if isinstance(v, Lin) and v == args[0]]
        zo = [off for off, (sz, v) in c['mem'].items() if isinstance(v, Lin) and v == Lin(0)]
        ok = len(fdo) == 1 and len(zo) == 1
        rep.inst('R-WRAP', f.name, 'the data object carries the descriptor and a cleared error code', ok, where_fn(f),
                 None if ok else 'fields at the call: %r' % {k: v[1] for k, v in c['mem'].items()})
        if ok:
            fd_off, err_off = fdo[0], zo[0]
        # result: the count, unless an error code was recorded
        ok_r, dr = True, None
        data = c['args'][1]
        for (s, rv) in rets:
            cnt = count_sym(sx, sx.engine_calls[-1])
            if isinstance(rv, Lin) and s.cons.entails_eq(rv, cnt):
                continue
            # the other admissible result: the error field as loaded after the call, and only when it is not zero
            errs = [Lin.sym(k) for k in rv.t] if isinstance(rv, Lin) else []
            if isinstance(rv, Lin) and len(errs) == 1 and rv == errs[0] and \
                    (s.cons.entails_lt(rv, 0) or s.cons.entails_lt(0, rv)) and err_off is not None and \
                    sx.int_loaded_from.get(next(iter(rv.t))) == (data.base, err_off):
                continue
            ok_r, dr = False, 'returns %r, the engine count is %r' % (rv, cnt)
        rep.inst('R-WRAP', f.name, 'returns the count of the engine unless the callback recorded an error', ok_r, where_fn(f), dr)
    if cb is not None and fd_off is not None:
        sx = WSX(mod, handler_arg=-1, inline=[], data_base=('arg', 0), pure_by_args=())
        seen = []

        def putc_hook(sx_, st, fn, i, args):
            seen.append(args)
            return None
        ext = [i.callee for i in cb.all_insts() if i.op == 'call' and i.callee and not i.callee.startswith('llvm.')]
        sx.models = {n: putc_hook for n in ext}
        st = sx.start(cb, [P(('arg', 0)), Lin.sym('c')])
        rets = sx.run_function(cb, st)
        ok = len(seen) == len(rets) or len(seen) == 1
        ok = ok and bool(seen) and all(len(a) == 2 and isinstance(a[0], Lin) and a[0] == Lin.sym('c') and
                                       isinstance(a[1], Lin) and a[1] == Lin.sym(('fld', fd_off)) for a in seen)
        rep.inst('R-WRAP', cb.name, 'hands (character, descriptor of the data object) to the output primitive', ok, where_fn(cb),
                 None if ok else 'the output primitive is called with %r' % (seen,))
        # the error code is only ever set from a negative result of the primitive, and only while it is still clear
        ok_e, de = True, None
        for (s, rv) in rets:
            for e in stores_of(s):
                if e[3] is not None and e[3] == P(('arg', 0), Lin(err_off)):
                    v = e[4]
                    if not (isinstance(v, Lin) and s.cons.entails_lt(v, 0) and s.cons.entails_eq(Lin.sym(('fld', err_off)), 0)):
                        ok_e, de = False, 'the error field is overwritten with %r' % (v,)
                elif e[3] is not None:
                    ok_e, de = False, 'unexpected store to %r' % (e[3],)
        rep.inst('R-WRAP', cb.name, 'records the first negative result of the primitive as error code', ok_e, where_fn(cb), de)
    f = mod.fn('fdprintf')
    if f is None or f.decl:
        raise AnalysisBroken('%s: function fdprintf not found (anchor vanished)' % mod.src)
    args = entry_args(f)
    sx, rets = run_entry(mod, f, args)
    if not sx.engine_calls or not rets:
        raise AnalysisBroken('%s: no path through fdprintf reaches %s and returns' % (mod.src, ENGINE))
    fmt_forward(rep, 'fdprintf', f, sx, 1)
    c = sx.engine_calls[0]
    ok = fd_off is not None and isinstance(c['mem'].get(fd_off, (0, None))[1], Lin) and c['mem'][fd_off][1] == args[0]
    rep.inst('R-WRAP', 'fdprintf', 'the data object carries the descriptor', ok, where_fn(f),
             None if ok else 'fields at the call: %r' % {k: v[1] for k, v in c['mem'].items()})


def wrapper_rules(rep, repo):
    import os
    for rel in UNITS:
        if not os.path.exists(os.path.join(repo, rel)):
            raise AnalysisBroken('%s is gone' % rel)
    sprintf_rules(rep, libc_unit(repo, UNITS[0]))
    fdprintf_rules(rep, libc_unit(repo, UNITS[1]))
