"""C18 R-LANES: bit-lane evaluation of the fixed-width hex helpers (uintN_to_hex, hex_to_uintN).

The helpers are straight-line after unrolling (constant trip counts).  Every SSA value is evaluated to a tuple of BIT
symbols, least significant first:
    ('c', 0|1)            constant bit
    ('in', k)             bit k of the integer argument
    ('hex', p, b)         bit b of the character hex[p] (read through the pointer argument)
    ('f', name, args, b)  bit b of the result of the digit map `name` (half2hex, hex2byte, HIHALF, LOHALF, hex2half)
                          applied to the evaluated argument tuples -- the maps are opaque here, their value contracts are
                          R-HEXDIGIT
    ('top',)              unknown
trunc/zext/sext, shifts by constants, and/or/xor with the per-bit absorbing rules, add of bit-disjoint values, byte
granular memory for locals (the UINT16_HI(out) = ... lane macros write through a char pointer into the local).  The rule
is then independent of how the lanes are addressed (lane macros, shifts and masks, counted loops, calls of the narrower
helper): hex[2k] must be half2hex of the HIGH nibble of byte lane N-1-k, hex[2k+1] half2hex of its LOW nibble, and byte
lane N-1-k of the result of hex_to_uintN must be hex2byte(hex[2k], hex[2k+1]).  A form outside the domain (a value with
an unknown bit where a digit is expected, a branch) is analysis-broken, never a violation."""
from irlib import AnalysisBroken
from c01 import trace_const

TOP = ('top',)
C0 = ('c', 0)
C1 = ('c', 1)
MAPS = ('half2hex', 'hex2byte', 'hex2half', 'HIHALF', 'LOHALF')


def _const_bits(v, n):
    return tuple(('c', (v >> b) & 1) for b in range(n))


def _and(a, b):
    if a == C0 or b == C0:
        return C0
    if a == C1:
        return b
    if b == C1:
        return a
    return a if a == b and a != TOP else TOP


def _or(a, b):
    if a == C1 or b == C1:
        return C1
    if a == C0:
        return b
    if b == C0:
        return a
    return a if a == b and a != TOP else TOP


def _xor(a, b):
    if a == C0:
        return b
    if b == C0:
        return a
    if a[0] == 'c' and b[0] == 'c':
        return ('c', a[1] ^ b[1])
    return TOP


class LaneEval:
    def __init__(self, f, hex_arg=0, in_arg=None):
        if len(f.blocks) != 1:
            raise AnalysisBroken('%s: %d basic blocks after unrolling (a data-dependent branch or an uncounted loop): the '
                                 'bit-lane evaluation needs straight-line code' % (f.name, len(f.blocks)))
        self.f = f
        self.hex_arg = hex_arg
        self.in_arg = in_arg
        self.val = {}
        self.mem = {}          # (alloca id, byte offset) -> 8 bits
        self.out = {}          # byte offset from the pointer argument -> 8 bits (stores)
        self.ret = None
        self.reads_out = False
        for i in f.all_insts():
            self.step(i)

    def bits_of(self, v, n=None):
        if v.k == 'ci':
            return _const_bits(v.uval, v.width)
        if v.k == 'arg':
            if v.argno == self.in_arg:
                w = self.f.params[v.argno]['ty'].get('bits')
                return tuple(('in', k) for k in range(n or w or 64))
            return tuple(TOP for _ in range(n or 64))
        if v.k == 'inst':
            r = self.val.get(v.id)
            if r is not None:
                return r
        return tuple(TOP for _ in range(n or 64))

    def step(self, i):
        f = self.f
        op = i.op
        n = i.bits
        if op in ('dbg', 'getelementptr', 'bitcast', 'alloca', 'ret', 'br'):
            if op == 'ret' and i.ops:
                self.ret = self.bits_of(i.ops[0])
            return
        if op == 'store':
            size = i.d.get('store_size')
            bits = self.bits_of(i.ops[0], 8 * size if size else None)
            root, off = trace_const(f, i.ops[1])
            if size is None or len(bits) != 8 * size:
                bits = tuple(TOP for _ in range(8 * (size or 1)))
            for k in range(size or 1):
                byte = bits[8 * k:8 * k + 8]
                if root.k == 'inst' and f.insts[root.id].op == 'alloca':
                    self.mem[(root.id, off + k)] = byte
                elif root.k == 'arg' and root.argno == self.hex_arg:
                    self.out[off + k] = byte
                else:
                    # a store through an untracked pointer may alias any local
                    self.mem = {}
            return
        if op == 'load':
            size = (n or 8) // 8
            root, off = trace_const(f, i.ops[0])
            bits = []
            for k in range(size):
                if root.k == 'inst' and f.insts[root.id].op == 'alloca':
                    bits.extend(self.mem.get((root.id, off + k), (TOP,) * 8))
                elif root.k == 'arg' and root.argno == self.hex_arg and self.in_arg is None:
                    bits.extend(('hex', off + k, b) for b in range(8))
                else:
                    if root.k == 'arg' and root.argno == self.hex_arg:
                        self.reads_out = True
                    bits.extend((TOP,) * 8)
            self.val[i.id] = tuple(bits)
            return
        if n is None:
            return
        if op == 'trunc':
            self.val[i.id] = self.bits_of(i.ops[0])[:n]
        elif op == 'zext':
            a = self.bits_of(i.ops[0])
            self.val[i.id] = a + (C0,) * (n - len(a))
        elif op == 'sext':
            a = self.bits_of(i.ops[0])
            self.val[i.id] = a + (a[-1],) * (n - len(a))
        elif op in ('shl', 'lshr', 'ashr') and i.ops[1].k == 'ci':
            a = self.bits_of(i.ops[0], n)
            s = i.ops[1].uval
            if len(a) != n or s >= n:
                self.val[i.id] = (TOP,) * n
            elif op == 'shl':
                self.val[i.id] = (C0,) * s + a[:n - s]
            else:
                fill = C0 if op == 'lshr' else a[-1]
                self.val[i.id] = a[s:] + (fill,) * s
        elif op in ('and', 'or', 'xor'):
            a = self.bits_of(i.ops[0], n)
            b = self.bits_of(i.ops[1], n)
            g = {'and': _and, 'or': _or, 'xor': _xor}[op]
            self.val[i.id] = tuple(g(x, y) for x, y in zip(a, b)) if len(a) == len(b) == n else (TOP,) * n
        elif op == 'add':
            a = self.bits_of(i.ops[0], n)
            b = self.bits_of(i.ops[1], n)
            if len(a) == len(b) == n and all(x == C0 or y == C0 for x, y in zip(a, b)):
                self.val[i.id] = tuple(_or(x, y) for x, y in zip(a, b))
            else:
                self.val[i.id] = (TOP,) * n
        elif op == 'mul' and i.ops[1].k == 'ci' and i.ops[1].uval & (i.ops[1].uval - 1) == 0 and i.ops[1].uval:
            a = self.bits_of(i.ops[0], n)
            s = i.ops[1].uval.bit_length() - 1
            self.val[i.id] = ((C0,) * s + a[:n - s]) if len(a) == n and s < n else (TOP,) * n
        elif op == 'call' and i.callee in MAPS:
            g = self.f.mod.fn(i.callee)
            want = [p['ty'].get('bits') for p in g.params] if g is not None else []
            args = []
            for k, o in enumerate(i.ops):
                a = self.bits_of(o, want[k] if k < len(want) else None)
                args.append(a)
            args = tuple(args)
            if any(TOP in a for a in args):
                self.val[i.id] = (TOP,) * n
            else:
                self.val[i.id] = tuple(('f', i.callee, args, b) for b in range(n))
        else:
            self.val[i.id] = (TOP,) * n


def lane_bits(lane):
    return tuple(('in', 8 * lane + b) for b in range(8))


def hex_bits(p):
    return tuple(('hex', p, b) for b in range(8))


def call_bits(name, *args):
    return tuple(('f', name, tuple(args), b) for b in range(8))


def hi_forms(lane):
    x = lane_bits(lane)
    return (call_bits('HIHALF', x), x[4:] + (C0,) * 4)


def lo_forms(lane):
    x = lane_bits(lane)
    return (call_bits('LOHALF', x), x[:4] + (C0,) * 4)


def describe(bits, nbytes=8):
    """readable form of an evaluated byte"""
    if bits is None:
        return 'nothing'
    if TOP in bits:
        return 'a value outside the bit-lane domain'
    if all(b[0] == 'c' for b in bits):
        return 'the constant %d' % sum(b[1] << k for k, b in enumerate(bits))
    if all(b[0] == 'in' for b in bits):
        ks = [b[1] for b in bits]
        if ks == list(range(ks[0], ks[0] + len(ks))):
            if ks[0] % 8 == 0 and len(ks) == 8:
                return 'byte lane %d' % (ks[0] // 8)
            return 'bits %d..%d of the argument' % (ks[0], ks[-1])
    if all(b[0] == 'hex' for b in bits) and len(set(b[1] for b in bits)) == 1 and [b[2] for b in bits] == list(range(8)):
        return 'hex[%d]' % bits[0][1]
    if all(b[0] == 'f' for b in bits) and len(set((b[1], b[2]) for b in bits)) == 1:
        return '%s(%s)' % (bits[0][1], ', '.join(describe(a) for a in bits[0][2]))
    for lane in range(nbytes):
        if bits in hi_forms(lane):
            return 'HIHALF(byte lane %d)' % lane
        if bits in lo_forms(lane):
            return 'LOHALF(byte lane %d)' % lane
    k = 0
    parts = []
    while k < len(bits):
        j = k
        while j + 1 < len(bits) and bits[j + 1][0] == bits[k][0] and (bits[k][0] == 'c' or (
                bits[k][0] == 'in' and bits[j + 1][1] == bits[j][1] + 1)):
            j += 1
        if bits[k][0] == 'c':
            parts.append('%d constant bit(s)' % (j - k + 1))
        elif bits[k][0] == 'in':
            parts.append('argument bits %d..%d' % (bits[k][1], bits[j][1]))
        else:
            parts.append(bits[k][0])
        k = j + 1
    return 'bits [' + ', '.join(parts) + ']'


def lanes_to_hex(rep, mod, fname, nbytes):
    """uintN_to_hex: hex[2k] = half2hex(HIHALF(byte lane N-1-k)), hex[2k+1] = half2hex(LOHALF(same lane))"""
    f = mod.fn(fname)
    if f is None or f.decl:
        raise AnalysisBroken('%s not found' % fname)
    where = '%s:%d' % (f.file, f.line)
    ev = LaneEval(f, hex_arg=0, in_arg=1)
    for k in range(nbytes):
        want_lane = nbytes - 1 - k
        for h, half, forms in ((0, 'HIHALF', hi_forms(want_lane)), (1, 'LOHALF', lo_forms(want_lane))):
            p = 2 * k + h
            got = ev.out.get(p)
            ok = got is not None and got in [call_bits('half2hex', a) for a in forms]
            if not ok and got is not None and TOP in got:
                raise AnalysisBroken('%s: the value stored to hex[%d] is outside the bit-lane domain (rewritten digit '
                                     'production?)' % (fname, p))
            rep.inst('R-LANES', fname, 'hex[%d]=half2hex(%s(byte %d))' % (p, half, want_lane), ok, where,
                     None if ok else 'hex[%d] is %s; the most significant byte must come first, high nibble before '
                     'low nibble: half2hex(%s(byte lane %d)) is required' % (p, describe(got, nbytes), half, want_lane),
                     fact={'position': p, 'value': describe(got, nbytes)})
    extra = [p for p in ev.out if p >= 2 * nbytes or p < 0]
    ok = not extra and len(ev.out) == 2 * nbytes
    rep.inst('R-LANES', fname, 'writes-exactly-%d-chars' % (2 * nbytes), ok, where,
             None if ok else 'writes positions %s' % sorted(ev.out))


def hex_to_lanes(rep, mod, fname, nbytes):
    """hex_to_uintN: byte lane N-1-k = hex2byte(hex[2k], hex[2k+1])"""
    f = mod.fn(fname)
    if f is None or f.decl:
        raise AnalysisBroken('%s not found' % fname)
    where = '%s:%d' % (f.file, f.line)
    ev = LaneEval(f, hex_arg=0, in_arg=None)
    ret = ev.ret
    if ret is None or len(ret) != 8 * nbytes:
        raise AnalysisBroken('%s: returned value has %s bits, %d expected' % (fname, None if ret is None else len(ret),
                                                                              8 * nbytes))
    for k in range(nbytes):
        lane = nbytes - 1 - k
        got = ret[8 * lane:8 * lane + 8]
        ok = got == call_bits('hex2byte', hex_bits(2 * k), hex_bits(2 * k + 1))
        if not ok and TOP in got:
            raise AnalysisBroken('%s: byte lane %d of the result is outside the bit-lane domain (rewritten digit '
                                 'parsing?)' % (fname, lane))
        rep.inst('R-LANES', fname, 'byte %d=hex2byte(hex[%d],hex[%d])' % (lane, 2 * k, 2 * k + 1), ok, where,
                 None if ok else 'byte lane %d of the result is %s; hex2byte(hex[%d], hex[%d]) is required (most '
                 'significant byte first)' % (lane, describe(got, nbytes), 2 * k, 2 * k + 1),
                 fact={'lane': lane, 'value': describe(got, nbytes)})
