"""C12 helper: interval analysis of floating-point SSA values (IEEE-754 binary32 / binary64, round to nearest even).

The abstract interpreter treats floats as opaque; the renderers however turn floats into integers (`(int32_t)f`,
`(char)f`, `(uint64_t)a`) and the characters they print are computed from those integers.  This module decides, per
conversion site, whether the operand is provably inside the range of the integer type (outside it the conversion is
undefined behaviour) and which integer interval the result lies in.

range of a value = (lo, hi, nan): every non-NaN value it can take is in [lo, hi] (extended reals), nan says whether it can
be NaN.  Facts come from conditional branches on fcmp that dominate the point of use (SSA values are immutable, so a
dominating comparison still holds), from select conditions, and from the edge a phi operand arrives over.  Loop-carried
phis get an interval that is checked to be inductive (one widening attempt, otherwise unbounded).

Special transfer rule: x - (T)(int)x for a floating x of type T is the fractional part of x: it is computed exactly
(the integer part of a binary float is representable in its own format) and lies in [0, 1) for x >= 0, in (-1, 1)
otherwise, provided the conversion is defined.  Conversions are assumed to be defined when a later value is evaluated
(each conversion site is reported on its own): "no earlier undefined behaviour"."""
import math
import struct

INF = float('inf')
TOP = (-INF, INF, True)


def rn32(x):
    """round to nearest binary32"""
    if x != x or x in (INF, -INF):
        return x
    try:
        return struct.unpack('<f', struct.pack('<f', x))[0]
    except OverflowError:
        return INF if x > 0 else -INF


def step32(x, up):
    """neighbour of the binary32 value x"""
    if x != x:
        return x
    if x == INF:
        return INF if up else struct.unpack('<f', struct.pack('<I', 0x7f7fffff))[0]
    if x == -INF:
        return -INF if not up else -struct.unpack('<f', struct.pack('<I', 0x7f7fffff))[0]
    if x == 0.0:
        t = struct.unpack('<f', struct.pack('<I', 1))[0]
        return t if up else -t
    b = struct.unpack('<I', struct.pack('<f', x))[0]
    b = b + 1 if (x > 0) == up else b - 1
    return struct.unpack('<f', struct.pack('<I', b))[0]


def below(c, bits):
    """largest value of the format strictly below c"""
    if bits == 32:
        r = rn32(c)
        return r if r < c else step32(r, False)
    return math.nextafter(c, -INF)


def above(c, bits):
    if bits == 32:
        r = rn32(c)
        return r if r > c else step32(r, True)
    return math.nextafter(c, INF)


def outward(lo, hi, bits):
    """result interval of an operation whose exact real result lies in [lo, hi] (lo/hi computed in double precision,
    hence themselves within one ulp of the exact bound), after rounding to the format"""
    lo = math.nextafter(lo, -INF) if lo not in (INF, -INF) else lo
    hi = math.nextafter(hi, INF) if hi not in (INF, -INF) else hi
    if bits == 32:
        return rn32(lo), rn32(hi)
    return lo, hi


REL = {'oeq': ('o', 'e'), 'ogt': ('o', 'g'), 'oge': ('o', 'ge'), 'olt': ('o', 'l'), 'ole': ('o', 'le'),
       'one': ('o', 'lg'), 'ord': ('o', 'leg'), 'ueq': ('u', 'e'), 'ugt': ('u', 'g'), 'uge': ('u', 'ge'),
       'ult': ('u', 'l'), 'ule': ('u', 'le'), 'une': ('u', 'lg'), 'uno': ('u', '')}


def cf_value(v):
    d = v.d
    if 'bitsd' in d:
        try:
            return struct.unpack('<d', struct.pack('<Q', int(d['bitsd'])))[0]
        except (ValueError, struct.error):
            pass
    s = str(d.get('v'))
    try:
        return float(s.replace('+Inf', 'inf').replace('-Inf', '-inf'))
    except ValueError:
        return float('nan')


def union(a, b):
    if a is None:
        return b
    if b is None:
        return a
    return (min(a[0], b[0]), max(a[1], b[1]), a[2] or b[2])


def subset(a, b):
    return a[0] >= b[0] and a[1] <= b[1] and (b[2] or not a[2])


class FRange:
    def __init__(self, mod, f, axioms=None):
        self.mod = mod
        self.f = f
        self.axioms = axioms or {}     # value key -> range established by another rule (e.g. NaN/inf diverted earlier)
        self.memo = [{}]
        self.assume = {}
        self.block_facts = {}
        self.loop_by_header = {L['header']: L for L in f.loops}

    # -- facts -------------------------------------------------------------------------------------------------
    def cond_fact(self, c, truth):
        """(fcmp inst id, truth) for an i1 value that is an fcmp (possibly negated by xor true)"""
        f = self.f
        for _ in range(4):
            if c.k != 'inst':
                return None
            i = f.insts[c.id]
            if i.op == 'fcmp':
                return (i.id, truth)
            if i.op == 'xor' and any(o.k == 'ci' and o.ival in (1, -1) for o in i.ops):
                c = [o for o in i.ops if not (o.k == 'ci')][0]
                truth = not truth
                continue
            return None
        return None

    def edge_fact(self, p, to):
        t = p.term
        if t.op != 'br' or 'f' not in t.d or t.d['t'] == t.d['f']:
            return None
        if to.name == t.d['t']:
            return self.cond_fact(t.ops[0], True)
        if to.name == t.d['f']:
            return self.cond_fact(t.ops[0], False)
        return None

    def facts_at(self, b):
        r = self.block_facts.get(b)
        if r is None:
            out = set()
            f = self.f
            for d in f.blocks:
                if d is b or not f.dominates_block(d, b):
                    continue
                for s in d.succs:
                    if len(s.preds) == 1 and f.dominates_block(s, b):
                        ft = self.edge_fact(d, s)
                        if ft is not None:
                            out.add(ft)
            r = frozenset(out)
            self.block_facts[b] = r
        return r

    # -- ranges ------------------------------------------------------------------------------------------------
    def at(self, v, b):
        """range of value v as seen by an instruction of block b"""
        return self.rng(v, self.facts_at(b))

    def lookup(self, k):
        for m in reversed(self.memo):
            if k in m:
                return m[k]
        return None

    def rng(self, v, facts):
        if v.k == 'cf':
            c = cf_value(v)
            return (INF, -INF, True) if c != c else (c, c, False)
        if v.k not in ('inst', 'arg'):
            return TOP
        k = (v.key(), facts)
        r = self.lookup(k)
        if r is not None:
            return r
        if v.k == 'inst' and v.id in self.assume:
            base = self.assume[v.id]
        elif v.key() in self.axioms:
            base = self.axioms[v.key()]
        elif v.k == 'arg':
            base = TOP
        else:
            base = self.transfer(self.f.insts[v.id], facts)
        r = self.refine(v, base, facts)
        self.memo[-1][k] = r
        return r

    def bits_of(self, v):
        if v.k == 'inst':
            return self.f.insts[v.id].ty.get('bits', 64)
        if v.k == 'arg':
            return self.f.params[v.argno]['ty'].get('bits', 64)
        return 64

    def refine(self, v, r, facts, depth=0):
        """intersect r with what the facts say about v (directly, or about fpext(v) / fabs(v))"""
        f = self.f
        lo, hi, nan = r
        bits = self.bits_of(v)
        for (cid, truth) in facts:
            c = f.insts[cid]
            a, b = c.ops[0], c.ops[1]
            mine = [n for n, o in enumerate((a, b)) if o.key() == v.key()] if a.k != 'cf' or b.k != 'cf' else []
            if not mine:
                continue
            kind, rel = REL.get(c.pred, ('u', 'leg'))
            if not truth:
                rel = ''.join(x for x in 'leg' if x not in rel)
                may_unord = kind == 'o'
            else:
                may_unord = kind == 'u'
            if len(mine) == 2:
                # fcmp p x, x : only the NaN-ness is informative
                if not may_unord:
                    nan = False
                elif rel == '':
                    lo, hi = INF, -INF          # x is NaN on this path
                continue
            other = b if mine[0] == 0 else a
            if mine[0] == 1:
                rel = rel.translate(str.maketrans('lg', 'gl'))
            if not may_unord:
                nan = False
            o = self.rng(other, frozenset()) if other.k != 'cf' else self.rng(other, facts)
            if may_unord and o[2]:
                continue                        # the comparison may have failed because the other side is NaN
            olo, ohi = o[0], o[1]
            if olo > ohi:
                continue
            if 'g' not in rel and rel:
                hi = min(hi, ohi if 'e' in rel else below(ohi, bits))
            if 'l' not in rel and rel:
                lo = max(lo, olo if 'e' in rel else above(olo, bits))
            if 'e' not in rel and olo == ohi:
                if hi == olo:
                    hi = below(olo, bits)
                if lo == olo:
                    lo = above(olo, bits)
        if depth == 0 and v.k in ('inst', 'arg'):
            for u in f.users(v):
                if u.op == 'fpext':
                    d = self.refine(V_of(u), (lo, hi, nan), facts, 1)
                    lo, hi, nan = max(lo, d[0]), min(hi, d[1]), nan and d[2]
                elif u.op == 'call' and (u.callee or '').startswith('llvm.fabs'):
                    d = self.refine(V_of(u), (0.0, INF, nan), facts, 1)
                    lo, hi, nan = max(lo, -d[1]), min(hi, d[1]), nan and d[2]
        return (lo, hi, nan)

    def irange(self, v, signed):
        """integer interval of an integer SSA value (through sext/zext, conversions from floats, constants)"""
        f = self.f
        if v.k == 'ci':
            return (v.ival, v.ival)
        if v.k == 'inst':
            i = f.insts[v.id]
            if i.op in ('fptosi', 'fptoui'):
                c = self.conv(i)
                return (c['lo'], c['hi'])
            if i.op == 'sext':
                return self.irange(i.ops[0], True)
            if i.op == 'zext':
                r = self.irange(i.ops[0], False)
                if r[0] >= 0:
                    return r
                sw = f.insts[i.ops[0].id].bits if i.ops[0].k == 'inst' else 64
                return (0, (1 << sw) - 1)
            w = i.bits
        elif v.k == 'arg':
            w = f.params[v.argno]['ty'].get('bits', 64)
        else:
            w = 64
        return (-(1 << (w - 1)), (1 << (w - 1)) - 1) if signed else (0, (1 << w) - 1)

    def frac_pattern(self, i):
        """fsub X, (T)(int)X  ->  the conversion instruction, or None"""
        f = self.f
        if i.op != 'fsub':
            return None
        x, y = i.ops
        if y.k != 'inst':
            return None
        c = f.insts[y.id]
        if c.op not in ('sitofp', 'uitofp') or c.ty.get('bits') != self.bits_of(x):
            return None
        z = c.ops[0]
        signed = c.op == 'sitofp'
        while z.k == 'inst' and f.insts[z.id].op in ('sext', 'zext'):
            if f.insts[z.id].op == 'zext' and signed:
                pass
            z = f.insts[z.id].ops[0]
        if z.k != 'inst':
            return None
        t = f.insts[z.id]
        if t.op in ('fptosi', 'fptoui') and t.ops[0].key() == x.key():
            return t
        return None

    def transfer(self, i, facts):
        f = self.f
        op = i.op
        bits = i.ty.get('bits', 64)
        if op == 'phi':
            return self.phi(i, facts)
        if op == 'select':
            ft = self.cond_fact(i.ops[0], True)
            ff = self.cond_fact(i.ops[0], False)
            a = self.rng(i.ops[1], facts | {ft} if ft else facts)
            b = self.rng(i.ops[2], facts | {ff} if ff else facts)
            return union(a, b)
        if op in ('fpext', 'freeze'):
            return self.rng(i.ops[0], facts)
        if op == 'fptrunc':
            lo, hi, nan = self.rng(i.ops[0], facts)
            return (rn32(lo), rn32(hi), nan) if bits == 32 else (lo, hi, nan)
        if op == 'fneg':
            lo, hi, nan = self.rng(i.ops[0], facts)
            return (-hi, -lo, nan)
        if op == 'call' and (i.callee or '').startswith('llvm.fabs'):
            lo, hi, nan = self.rng(i.ops[0], facts)
            if lo > hi:
                return (lo, hi, nan)
            return (0.0 if lo <= 0 <= hi else min(abs(lo), abs(hi)), max(abs(lo), abs(hi)), nan)
        if op in ('sitofp', 'uitofp'):
            lo, hi = self.irange(i.ops[0], op == 'sitofp')
            a, b = outward(float(lo), float(hi), bits)
            return (a, b, False)
        if op == 'load':
            g = self.const_table(i.ops[0])
            if g is not None:
                return g
            return TOP
        if op in ('fadd', 'fsub', 'fmul'):
            c = self.frac_pattern(i)
            if c is not None:
                x = self.rng(i.ops[0], facts)
                one = below(1.0, bits)
                return (0.0 if x[0] >= 0 else -one, one, False)
            a = self.rng(i.ops[0], facts)
            b = self.rng(i.ops[1], facts)
            if a[0] > a[1] or b[0] > b[1]:
                return (INF, -INF, True)
            nan = a[2] or b[2]
            if op == 'fsub':
                b = (-b[1], -b[0], b[2])
            if op in ('fadd', 'fsub'):
                if (a[0] == -INF and b[1] == INF) or (a[1] == INF and b[0] == -INF):
                    nan = True
                lo = a[0] + b[0] if not (a[0] == -INF or b[0] == -INF) else -INF
                hi = a[1] + b[1] if not (a[1] == INF or b[1] == INF) else INF
            else:
                infs = any(x in (INF, -INF) for x in a[:2] + b[:2])
                zero = (a[0] <= 0 <= a[1]) or (b[0] <= 0 <= b[1])
                if infs and zero:
                    return TOP
                ps = [x * y for x in a[:2] for y in b[:2]]
                lo, hi = min(ps), max(ps)
            lo, hi = outward(lo, hi, bits)
            return (lo, hi, nan)
        return TOP

    def const_table(self, p):
        """load through a GEP into a constant global array of floating-point numbers: hull of its elements"""
        f = self.f
        if p.k == 'inst' and f.insts[p.id].op == 'getelementptr' and f.insts[p.id].ops[0].k == 'global':
            g = self.mod.globals.get(f.insts[p.id].ops[0].name)
            init = g.get('init') if g else None
            if g and g.get('const') and g['ty'].get('elem') in ('double', 'float') and isinstance(init, list) and init and \
                    all(isinstance(x, (int, float)) for x in init):
                xs = [float(x) for x in init]
                if all(x == x for x in xs):
                    return (min(xs), max(xs), False)
        return None

    def phi(self, ph, facts):
        f = self.f
        L = self.loop_by_header.get(ph.block)

        def incoming(inside):
            r = None
            for (bb, v) in ph.incoming:
                p = f.bmap[bb]
                if (L is not None and p in L['blocks']) != inside:
                    continue
                fs = set(self.facts_at(p))
                if len(p.succs) > 1:
                    e = self.edge_fact(p, ph.block)
                    if e is not None:
                        fs.add(e)
                r = union(r, self.rng(v, frozenset(fs)))
            return r
        if L is None:
            r = incoming(False)
            return r if r is not None else TOP
        init = incoming(False)
        if init is None:
            return TOP
        cand = init
        for attempt in range(2):
            self.assume[ph.id] = cand
            self.memo.append({})
            try:
                latch = incoming(True)
            finally:
                top = self.memo.pop()
                del self.assume[ph.id]
            if latch is None or subset(latch, cand):
                self.memo[-1].update(top)
                return cand
            cand = union(cand, latch)
        return TOP

    # -- conversion sites --------------------------------------------------------------------------------------
    def conv(self, i):
        """float -> integer conversion instruction: dict(ok, lo, hi (integer interval of the result, clipped to the
        type), range (operand interval), why)"""
        w = i.bits
        signed = i.op == 'fptosi'
        tlo, thi = (-(1 << (w - 1)), (1 << (w - 1)) - 1) if signed else (0, (1 << w) - 1)
        lo, hi, nan = self.at(i.ops[0], i.block)
        ok = not nan and (lo > hi or (lo > tlo - 1 and hi < thi + 1))
        why = None
        if not ok:
            why = 'the operand ranges over [%r, %r]%s, the conversion is defined only inside (%d, %d)' % (
                lo, hi, ' or is NaN' if nan else '', tlo - 1, thi + 1)
        rlo = tlo if lo == -INF or lo != lo else max(tlo, int(math.trunc(lo)) if abs(lo) < 1e300 else tlo)
        rhi = thi if hi == INF or hi != hi else min(thi, int(math.trunc(hi)) if abs(hi) < 1e300 else thi)
        if lo > hi:
            rlo, rhi = tlo, thi
        return dict(ok=ok, lo=rlo, hi=rhi, range=(lo, hi, nan), why=why)


def V_of(inst):
    from irlib import V
    return V({'k': 'inst', 'id': inst.id})
