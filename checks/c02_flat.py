"""C02, CONTENT clauses of igris::flat_map and igris::flat_set - extension of c02.py (run_ext is called at the end of
c02.run).

c02.py decides shape-level facts about the flat containers (R-FLATSEARCH: which search routine a member calls, R-TEMPREF:
no reference to a temporary).  It does not decide WHICH element a lookup returns, WHERE an insertion puts its element or
WHAT the container holds afterwards.  This module decides that on a finite partition of the entry states:

    size n in 0..4 (thorough: 0..6); storage block with exactly n slots (a growing insertion reallocates), with one spare
    slot (it shifts in place) and, for n == 0, no block at all; keys k0 < k1 < ... < k(n-1) SYMBOLIC (one symbol per key,
    one per mapped value; only their order is fixed); the key argument in every gap (below k0, between two neighbours,
    above the last: n+1 cases) and equal to every present key (n cases); and, for flat_map, the ORDER in which the keys
    sit in the storage (below).

Representation invariants (assumed on entry, required again at every return):

    flat_set  keys STRICTLY ASCENDING: insert and count position / look up with std::lower_bound, so its answers depend on
              the order; entry states are the ascending storages.
    flat_map  keys PAIRWISE DIFFERENT, in ANY order: every lookup is a linear key-equality scan, operator[] and emplace
              append, only insert positions with upper_bound.  Property C02 promises the answers of lookup, count, at,
              operator[] and size - not the iteration order - so an unsorted storage is legitimate, and since every order
              is reachable (m[2]; m[1];) every member runs on storages in several orders: all permutations up to 3 keys
              (thorough 4), above that ascending, descending and two mixed orders.  A member that silently relies on
              ascending keys (a binary search for the duplicate test) is caught on the other orders.

In one element of the partition every size is a constant, so every element address is a constant and every loop of the
member and of the libstdc++ code it instantiates (std::vector<T>::insert/push_back/_M_realloc_insert, std::find_if,
std::lower_bound, ...) runs on concrete bounds: the interpreter (checks/absint.py, nothing is executed) walks the -O0 IR of
the member including the vector internals, every comparison between keys is decided by the order the scenario fixes.
The CONTENT stays abstract: an element is identified by the symbol of its key and of its mapped value (the identity
technique of c14_ident.py, carried here by the int values themselves instead of by probe-type events).  At every return
the elements found in [begin(), end()) and the result are compared with the reference semantics.  For flat_map the content
is the MAPPING key -> mapped value plus the size (the order of the storage is irrelevant), for flat_set the sequence:

    find / count / contains / at / operator[] (key present)
                 the iterator / reference designates exactly the element whose key equals the argument (at, operator[]:
                 its mapped value), count is 1; key absent: end(), 0, false, at throws, the const operator[] returns a
                 reference to a value-initialised T outside the storage; the content is untouched and stays in its block
    lower_bound / upper_bound (flat_set only, when they exist)    the first element with key >= / > the argument
    operator[] (key absent), emplace, insert
                 afterwards the container holds every old element with its old mapped value plus ONE element
                 (key, T() | the value argument) - wherever it was put (flat_set: at the sorted position); the
                 returned reference / iterator designates the element with THAT key in the storage as it is at the
                 return (also after a reallocation), `inserted` is true; key present: nothing is overwritten or
                 duplicated, the result designates the present element, `inserted` is false
    erase(key) / erase(iterator) (when they exist)     exactly that element disappears, the others keep their values,
                 result 1 | 0 resp. (flat_set) the iterator behind the erased element
    flat_map(initializer_list)        one element per distinct key (the first occurrence, as std::map); the list is
                 given in every weak order of its keys (lengths 0..3, thorough ..4)
    size / empty / begin / end        n, n == 0, the ends of the element range
    no member throws in a scenario in which it has to return (only at() on an absent key throws)
    clear / swap / copy construction / copy assignment     no element; the two contents exchanged; an equal content in a
                 block of its own with the source untouched

Memory clause on the way: every load / store / memcpy of the scenario lies inside the object it addresses and no freed
block is accessed (exact: all offsets are constants).

A scenario that cannot be analysed exactly (a loop not decided by the scenario, a value the scenario does not define, an
unsummarised external call) is unresolved: it removes the ':analysed' instance of its member, which breaks the floor of
the rule (exit 2) - it is never reported as held or as violated."""
import multiprocessing
import os
import sys

from common import *
from absval import PtrVal, IntVal, CondVal, AggVal, State, NULL, TOP, mk_const
from lin import Lin
from irlib import tyname, V

MAP_RULE = 'R-FLATMAP'
SET_RULE = 'R-FLATSET'
MAP_SCOPE = 'igris::flat_map<int, int'
SET_SCOPE = 'igris::flat_set<int'


class Unresolved(Exception):
    """the scenario cannot be analysed exactly (never a verdict)"""


# ----------------------------------------------------------------------------------------------------------------
# interpreter
# ----------------------------------------------------------------------------------------------------------------
def top_level_fields(s):
    """number of fields of a literal struct type spelling '{ a, b }'"""
    s = s.strip()
    if not (s.startswith('{') and s.endswith('}')):
        return None
    depth, n, quoted, seen = 0, 0, False, False
    for ch in s[1:-1]:
        if ch == '"':
            quoted = not quoted
        if quoted:
            seen = True
            continue
        if ch in '{(<[':
            depth += 1
        elif ch in '})>]':
            depth -= 1
        elif ch == ',' and depth == 0:
            n += 1
            continue
        if not ch.isspace():
            seen = True
    return n + 1 if seen else 0


class FlatInterp(Interp):
    """every loop must be decided by the (concrete) scenario: no widening, no invariant inference; a by-value load of a
    small literal struct (`{ iterator, bool }` results) is re-assembled from its cells"""

    def __init__(self, mod, externals=None):
        Interp.__init__(self, mod, externals=externals)
        self.throws = 0
        self.violations = []        # (clause, detail)
        self.access_hook = self.on_access

    def run_loop(self, fn, L, st, frm, rets):
        self.loops_seen += 1
        r = self.try_peel(fn, L, st, frm, rets)
        if r is None:
            raise Unresolved('the loop at %s in %s is not decided by the scenario within %d iterations'
                             % (L['header'].term.where(), fn.srcname or fn.name, self.max_peel))
        return r

    def load(self, st, p, ty, inst):
        if ty.get('k') == 'struct' and isinstance(p, PtrVal) and not p.is_null and p.off.is_const() and ty.get('size'):
            nf = top_level_fields(ty.get('s', ''))
            lo, hi = p.off.c, p.off.c + ty['size']
            cells = sorted((off, sz, v) for (o, off, sz), v in st.mem.items() if o == p.obj and lo <= off and off + sz <= hi)
            if nf and len(cells) == nf:
                self.check_access(st, p, ty['size'], inst, 'load')
                if st.bottom:
                    return TOP
                return AggVal([v for (_o, _s, v) in cells])
        return Interp.load(self, st, p, ty, inst)

    def do_gep(self, st, base, gep, fn):
        if isinstance(base, PtrVal) and base.is_null:
            # nullptr + 0 is nullptr (begin() + 0 of the empty std::vector); anything else stays unknown
            zero = True
            for s_ in gep['steps']:
                if s_['k'] == 'field':
                    zero = zero and s_['off'] == 0
                else:
                    iv = self.val(st, V(s_['v']), fn)
                    zero = zero and isinstance(iv, IntVal) and iv.const() == 0
            if zero:
                return base
        return Interp.do_gep(self, st, base, gep, fn)

    def cast(self, st, inst, a):
        if inst.op == 'ptrtoint' and isinstance(a, PtrVal) and a.is_null:
            # the empty std::vector holds three null pointers; end - begin, end_of_storage - begin are 0
            r = mk_const(inst.ty.get('bits', 64), 0)
            r.pint = a
            return r
        return Interp.cast(self, st, inst, a)

    def on_access(self, interp, st, inst, p, size, kind):
        """exact memory clause of a concrete scenario.  A violating access ends its path (the engine would continue under
        the assumption that the access was in bounds, which is contradictory for constant offsets)."""
        if not isinstance(p, PtrVal) or p.is_null:
            return
        o = st.objs.get(p.obj)
        if o is None:
            return
        where = inst.where() if inst is not None else '?'
        fname = (inst.fn.srcname or inst.fn.name) if inst is not None else '?'
        bad = None
        if p.obj in st.ghost.get('freed', ()):
            bad = ('memory:no-access-to-a-freed-block', '%s of %s at %s (%s): the block was released earlier in the same call'
                   % (kind, self.describe_obj(st, p.obj), where, fname))
        elif o.size is not None:
            size = size if isinstance(size, Lin) else Lin(size)
            if not (p.off.is_const() and size.is_const() and o.size.is_const()):
                raise Unresolved('%s at %s: offset %r / size %r is not a constant in a concrete scenario'
                                 % (kind, where, p.off, size))
            lo, hi = (0, o.size.c) if p.lo is None or not (p.lo.is_const() and p.hi.is_const()) else (p.lo.c, p.hi.c)
            if not (lo <= p.off.c and p.off.c + size.c <= hi):
                bad = ('memory:accesses-inside-the-object', '%s of %d byte(s) at offset %d of %s (%d bytes) at %s (%s)'
                       % (kind, size.c, p.off.c, self.describe_obj(st, p.obj), o.size.c, where, fname))
        if bad is not None:
            if self.recording == 0:
                self.violations.append(bad)
            st.bottom = True


def ext_throw(interp, st, i, args):
    if interp.recording == 0:
        interp.throws += 1
    st.bottom = True
    return []


def ext_delete(interp, st, i, args):
    p = args[0] if args else None
    if isinstance(p, PtrVal) and not p.is_null:
        st.ghost['freed'] = tuple(st.ghost.get('freed', ())) + (p.obj,)
    return [(st, None)]


def ext_new_checked(interp, st, i, args):
    n = args[0]
    c = n.const() if isinstance(n, IntVal) else None
    if c is None:
        raise Unresolved('operator new with a size that is not a constant in a concrete scenario (%r)' % (n,))
    o = st.new_obj('heap', Lin(c), 'heap', {'desc': 'block of %d bytes allocated in %s' % (c, i.fn.srcname or i.fn.name)})
    return [(st, PtrVal(o.id, Lin(0), None, None, True))]


EXT = {'__cxa_allocate_exception': lambda interp, st, i, args: [(st, interp.unknown_ptr(st, 'exc', True))],
       '__cxa_throw': ext_throw, '__cxa_free_exception': lambda interp, st, i, args: [(st, None)],
       '_ZNSt12out_of_rangeC1EPKc': lambda interp, st, i, args: [(st, None)],
       '_ZNSt12out_of_rangeC1ERKNSt7__cxx1112basic_stringIcSt11char_traitsIcESaIcEEE': lambda interp, st, i, args: [(st, None)],
       '_ZdlPv': ext_delete, '_ZdlPvm': ext_delete, '_ZdaPv': ext_delete, '_Znwm': ext_new_checked, '_Znam': ext_new_checked}


# ----------------------------------------------------------------------------------------------------------------
# representation
# ----------------------------------------------------------------------------------------------------------------
class Layout:
    """where the element range lives: the three pointers of the std::vector inside the class (found by their libstdc++
    field names in the debug info), the element stride, the offset of the mapped value inside an element"""

    def __init__(self, mod, fn):
        this = fn.params[0]
        if this['name'] != 'this' or this['ty']['k'] != 'ptr':
            raise AnalysisBroken('%s: first parameter is not this' % fn.name)
        self.elem_ty = this['ty']['elem']
        self.sname = tyname(self.elem_ty)
        self.size = this['ty'].get('elemsize')
        fl = mod.flat_fields(self.sname)
        got = {}
        for f in fl:
            for suffix in ('_M_start', '_M_finish', '_M_end_of_storage'):
                if f['name'].endswith('.' + suffix) or f['name'] == suffix:
                    if suffix in got:
                        raise AnalysisBroken('%s holds more than one std::vector: representation not recognised' % self.sname)
                    got[suffix] = f
        if len(got) != 3 or not self.size:
            raise AnalysisBroken('%s: the storage is no longer a std::vector member (fields %s): representation not '
                                 'recognised' % (self.sname, [f['name'] for f in fl]))
        self.off_start = got['_M_start']['off']
        self.off_finish = got['_M_finish']['off']
        self.off_eos = got['_M_end_of_storage']['off']
        pty = got['_M_start']['ty']
        self.esz = pty.get('elemsize')
        et = pty.get('elem', '')
        if et == 'i32':
            self.is_map = False
            self.sorted = True      # flat_set positions AND looks up by std::lower_bound: its answers depend on the order
            self.val_off = None
            self.pair_ty = None
        else:
            self.is_map = True
            self.sorted = False     # flat_map looks up by linear key-equality scans: only the uniqueness of keys matters
            self.pair_ty = et
            sec = [f for f in mod.flat_fields(tyname(et)) if f['name'] == 'second']
            if len(sec) != 1 or sec[0]['ty'].get('bits') != 32 or self.esz != 8:
                raise AnalysisBroken('%s: element type %s is not std::pair<int,int>' % (self.sname, et))
            self.val_off = sec[0]['off']
        if not self.esz:
            raise AnalysisBroken('%s: element size unknown' % self.sname)


def name_str(nm):
    k = nm[0]
    if k in ('k', 'v', 'ok', 'ov', 'ik', 'iv'):
        return '%s%d' % ({'k': 'k', 'v': 'v', 'ok': 'o.k', 'ov': 'o.v', 'ik': 'il.k', 'iv': 'il.v'}[k], nm[1])
    return {'key': 'key', 'val': 'value', 'zero': 'T()'}[k]


class Scene:
    """one element of the partition: the entry state and the names of its symbols"""

    def __init__(self, lay, sc):
        self.lay = lay
        self.sc = sc
        self.st = State()
        self.syms = {}          # name tuple -> Lin
        self.known = set()      # symbols the scenario defines
        self.vals = {}          # name tuple -> IntVal
        self.objs = {}          # 'this' / 'other' -> (object, block or None)
        self.interp = None

    def sym(self, name, bits=32):
        x = self.st.fresh_int(bits, True, 'c02f_' + name_str(name).replace('.', '_'))
        self.syms[name] = x.s
        self.vals[name] = x
        self.known.update(x.s.t.keys())
        return x

    def lin(self, name):
        if name == ('zero',):
            return Lin(0)
        return self.syms[name]

    def container(self, who, n, cap, kname, vname, perm=None):
        """n elements whose keys are kname0 < kname1 < ... (ranks); slot i of the storage holds the key of rank perm[i]
        with its mapped value (perm None: ascending)"""
        lay, st = self.lay, self.st
        perm = tuple(range(n)) if perm is None else tuple(perm)
        if sorted(perm) != list(range(n)):
            raise AnalysisBroken('storage order %r is not a permutation of %d keys' % (perm, n))
        o = st.new_obj('param', Lin(lay.size), who, {'desc': '*%s' % who})
        blk = None
        if cap is None:
            if n:
                raise AnalysisBroken('scenario with elements but without a block')
            for off in (lay.off_start, lay.off_finish, lay.off_eos):
                st.mem[(o.id, off, 8)] = NULL
        else:
            blk = st.new_obj('heap', Lin(lay.esz * cap), who + '_block',
                             {'desc': 'storage block of *%s (%d slots)' % (who, cap)})
            st.mem[(o.id, lay.off_start, 8)] = PtrVal(blk.id, Lin(0))
            st.mem[(o.id, lay.off_finish, 8)] = PtrVal(blk.id, Lin(lay.esz * n))
            st.mem[(o.id, lay.off_eos, 8)] = PtrVal(blk.id, Lin(lay.esz * cap))
        prev = None
        ks, vs = [], []
        for r in range(n):
            k = self.sym((kname, r))
            if prev is not None:
                st.cons.add_lt(prev.s, k.s)
            prev = k
            ks.append(k)
            vs.append(self.sym((vname, r)) if lay.is_map else None)
        for i in range(n):
            st.mem[(blk.id, lay.esz * i, 4)] = ks[perm[i]]
            if lay.is_map:
                st.mem[(blk.id, lay.esz * i + lay.val_off, 4)] = vs[perm[i]]
        self.objs[who] = (o, blk)
        return o

    def place_key(self, n, where):
        """the key argument: ('gap', p) strictly between k(p-1) and k(p); ('eq', j) equal to kj"""
        key = self.sym(('key',))
        st = self.st
        if where[0] == 'eq':
            st.cons.add_eq(key.s, self.syms[('k', where[1])])
        else:
            p = where[1]
            if p > 0:
                st.cons.add_lt(self.syms[('k', p - 1)], key.s)
            if p < n:
                st.cons.add_lt(key.s, self.syms[('k', p)])
        return key

    # ---- state at a return ---------------------------------------------------------------------------------------
    def determinate(self, l):
        return all(s in self.known for s in l.t)

    def form(self, T, v, what):
        if not isinstance(v, IntVal):
            raise Unresolved('%s is not an integer value (%r)' % (what, v))
        l = T.as_s(v)
        if l is None:
            l = T.force_s(v)
        if not self.determinate(l):
            raise Unresolved('%s is a value the scenario does not define (%r)' % (what, l))
        return l

    def read(self, T, who):
        """-> (block object id | None, offset of begin, [(key Lin, value Lin | None)])"""
        lay = self.lay
        o = self.objs[who][0]
        ps = []
        for off in (lay.off_start, lay.off_finish, lay.off_eos):
            p = T.mem.get((o.id, off, 8))
            if not isinstance(p, PtrVal):
                raise Unresolved('a storage pointer of *%s is not a pointer value at a return (%r)' % (who, p))
            ps.append(p)
        b, e, c = ps
        if b.is_null or e.is_null:
            if not (b.is_null and e.is_null):
                raise Unresolved('begin and end of *%s: one is null, the other is not' % who)
            return None, 0, []
        if b.obj != e.obj or not b.off.is_const() or not e.off.is_const():
            raise Unresolved('begin and end of *%s are not constant positions in one block (%r, %r)' % (who, b, e))
        d = e.off.c - b.off.c
        if d < 0 or d % lay.esz:
            raise Unresolved('end - begin of *%s is %d bytes' % (who, d))
        n = d // lay.esz
        if n > 64:
            raise Unresolved('size of *%s is %d' % (who, n))
        blk = T.objs.get(b.obj)
        if blk is None or blk.size is None or not blk.size.is_const() or e.off.c > blk.size.c or b.off.c < 0:
            raise Unresolved('the element range of *%s is not inside a block of known size' % who)
        if b.obj in T.ghost.get('freed', ()):
            raise Unresolved('*%s designates a released block at a return' % who)
        out = []
        for i in range(n):
            base = b.off.c + lay.esz * i
            kv = T.mem.get((b.obj, base, 4))
            if kv is None:
                raise Unresolved('slot %d of *%s holds no value the scenario defines (never written)' % (i, who))
            k = self.form(T, kv, 'key of slot %d of *%s' % (i, who))
            v = None
            if lay.is_map:
                vv = T.mem.get((b.obj, base + lay.val_off, 4))
                if vv is None:
                    raise Unresolved('mapped value of slot %d of *%s holds no value the scenario defines' % (i, who))
                v = self.form(T, vv, 'mapped value of slot %d of *%s' % (i, who))
            out.append((k, v))
        return b.obj, b.off.c, out

    def show_lin(self, T, l):
        if l is None:
            return ''
        if l.is_const():
            return str(l.c)
        for nm, x in self.syms.items():
            if nm != ('key',) and T.cons.entails_eq(l, x):
                return name_str(nm)
        for nm, x in self.syms.items():
            if T.cons.entails_eq(l, x):
                return name_str(nm)
        return repr(l)

    def show(self, T, seq):
        if self.lay.is_map:
            return '[' + ', '.join('(%s,%s)' % (self.show_lin(T, k), self.show_lin(T, v)) for (k, v) in seq) + ']'
        return '[' + ', '.join(self.show_lin(T, k) for (k, v) in seq) + ']'

    def show_names(self, seq):
        if self.lay.is_map:
            return '[' + ', '.join('(%s,%s)' % (name_str(k), name_str(v)) for (k, v) in seq) + ']'
        return '[' + ', '.join(name_str(k) for (k, v) in seq) + ']'


# ----------------------------------------------------------------------------------------------------------------
# reference semantics
# ----------------------------------------------------------------------------------------------------------------
class Expect:
    """content / other: list of (key name, value name | None) expected in [begin, end) at every return, None: not
    constrained.  exact: the sequence slot by slot (only asked of the sorted container; otherwise the content is the
    mapping key -> value, i.e. a set of elements, and the order of the storage is irrelevant).
    frame: *this keeps its block and every slot.  result: see check_result.  fresh_block: *this must not share the block
    of other (copies)."""

    def __init__(self, content=None, exact=False, frame=False, other=None, result=None, fresh_block=False, throws=False):
        self.content = content
        self.exact = exact
        self.frame = frame
        self.other = other
        self.result = result
        self.fresh_block = fresh_block
        self.throws = throws


def elems(kname, vname, n, is_map):
    return [((kname, i), (vname, i) if is_map else None) for i in range(n)]


def expect(kind, sc, is_map):
    n = sc['n']
    perm = sc.get('perm') or tuple(range(n))
    byrank = elems('k', 'v', n, is_map)
    me = [byrank[r] for r in perm]          # in slot order
    w = sc.get('key')
    present = w is not None and w[0] == 'eq'
    j = w[1] if w is not None else None
    KEY = ('key',)
    if kind == 'find':
        return Expect(me, True, True, result=('iter-of-key', KEY) if present else ('end',))
    if kind == 'at':
        if present:
            return Expect(me, True, True, result=('mapped-of-key', KEY))
        return Expect(throws=True)
    if kind == 'cindex':
        return Expect(me, True, True, result=('mapped-of-key', KEY) if present else ('default-ref',))
    if kind == 'count':
        return Expect(me, True, True, result=('int', 1 if present else 0))
    if kind == 'contains':
        return Expect(me, True, True, result=('bool', present))
    if kind in ('lower_bound', 'upper_bound'):
        if is_map:
            raise AnalysisBroken('lower_bound / upper_bound have no meaning on a storage that is not ordered by key')
        return Expect(me, True, True, result=('pos', j + 1 if present and kind == 'upper_bound' else j))
    if kind == 'erase_key' and present:
        j = perm.index(j)                   # slot of the present key (identity for the sorted container)
    if kind in ('index', 'emplace', 'insert', 'sinsert'):
        if present:
            res = {'index': ('mapped-of-key', KEY), 'emplace': ('iter-flag', KEY, False), 'insert': ('iter-or-pair', KEY, False),
                   'sinsert': ('none-or-pair', KEY, False)}[kind]
            return Expect(me, True, True, result=res)
        newv = None if not is_map else (('zero',) if kind == 'index' else ('val',))
        res = {'index': ('mapped-of-key', KEY), 'emplace': ('iter-flag', KEY, True), 'insert': ('iter-or-pair', KEY, True),
               'sinsert': ('none-or-pair', KEY, True)}[kind]
        return Expect(me + [(KEY, newv)], False, False, result=res)
    if kind == 'erase_key':
        if present:
            return Expect(me[:j] + me[j + 1:], True, False, result=('int', 1))
        return Expect(me, True, True, result=('int', 0))
    if kind == 'erase_iter':
        p = sc['pos']
        return Expect(me[:p] + me[p + 1:], True, False, result=('pos-or-none', p) if not is_map else None)
    if kind == 'size':
        return Expect(me, True, True, result=('int', n))
    if kind == 'empty':
        return Expect(me, True, True, result=('bool', n == 0))
    if kind == 'begin':
        return Expect(me, True, True, result=('pos', 0))
    if kind == 'end':
        return Expect(me, True, True, result=('pos', n))
    if kind == 'clear':
        return Expect([], True, False)
    o = sc.get('other')
    if o is not None:
        operm = o[2] if len(o) > 2 and o[2] is not None else tuple(range(o[0]))
        obr = elems('ok', 'ov', o[0], is_map)
        oth = [obr[r] for r in operm]
        if kind == 'swap':
            return Expect(oth, True, False, other=me)
        if kind in ('copy_ctor', 'assign'):
            return Expect(oth, True, False, other=oth, fresh_block=True)
    if kind == 'ilist_ctor':
        ranks = sc['ranks']
        want = []
        for r in sorted(set(ranks)):
            i = ranks.index(r)
            want.append((('ik', i), ('iv', i) if is_map else None))
        return Expect(want, False, False)
    raise AnalysisBroken('no reference semantics for member kind %s' % kind)


# ----------------------------------------------------------------------------------------------------------------
# scenarios
# ----------------------------------------------------------------------------------------------------------------
def caps_for(n):
    """capacities: exact fit (an insertion reallocates) and one spare slot (it shifts in place); the empty container
    without a block (None) instead of an exact fit"""
    return [n if n > 0 else None, n + 1]


def key_places(n):
    return [('gap', p) for p in range(n + 1)] + [('eq', j) for j in range(n)]


def weak_orders(L):
    """every way to order L keys with ties: tuples of ranks using exactly 0..m-1"""
    out = []

    def rec(prefix):
        if len(prefix) == L:
            m = max(prefix) + 1 if prefix else 0
            if set(prefix) == set(range(m)):
                out.append(tuple(prefix))
            return
        for r in range(L):
            rec(prefix + [r])
    rec([])
    return out


def cap_str(cap):
    return 'no block' if cap is None else 'capacity %d' % cap


def key_str(n, w):
    if w[0] == 'eq':
        return 'key == k%d' % w[1]
    p = w[1]
    if n == 0:
        return 'any key'
    if p == 0:
        return 'key < k0'
    if p == n:
        return 'key > k%d' % (n - 1)
    return 'k%d < key < k%d' % (p - 1, p)


def orders(n, is_sorted, full):
    """storage orders of n unique keys (slot i holds the key of rank perm[i]).  The sorted container: ascending only.  The
    container with linear lookups reaches every order (m[2]; m[1];): every permutation up to `full` keys, above that
    ascending, descending and two mixed orders (even ranks descending then odd ranks; a rotation)"""
    asc = tuple(range(n))
    if is_sorted or n <= 1:
        return [asc]
    if n <= full:
        import itertools
        return [tuple(p) for p in itertools.permutations(range(n))]
    desc = tuple(reversed(asc))
    mixed = tuple([r for r in range(n) if r % 2 == 0][::-1] + [r for r in range(n) if r % 2 == 1])   # 4: (2,0,1,3)
    rot = tuple(list(asc[n // 2:]) + list(asc[:n // 2]))                                                  # 4: (2,3,0,1)
    out = []
    for p in (asc, desc, mixed, rot):
        if p not in out:
            out.append(p)
    return out


def perm_str(perm):
    return 'stored as [%s]' % ','.join('k%d' % r for r in perm) if list(perm) != sorted(perm) else 'stored ascending'


def scenarios(kind, N, LN, is_sorted=True, full=3):
    out = []
    if kind in ('find', 'at', 'cindex', 'count', 'contains', 'lower_bound', 'upper_bound', 'index', 'emplace', 'insert',
                'sinsert', 'erase_key'):
        for n in range(N + 1):
            for perm in orders(n, is_sorted, full):
                for cap in caps_for(n):
                    for w in key_places(n):
                        out.append(dict(n=n, cap=cap, perm=perm, key=w, label='size %d %s, %s, %s'
                                        % (n, perm_str(perm), cap_str(cap), key_str(n, w))))
    elif kind == 'erase_iter':
        for n in range(1, N + 1):
            for perm in orders(n, is_sorted, full):
                for cap in caps_for(n):
                    for p in range(n):
                        out.append(dict(n=n, cap=cap, perm=perm, pos=p, label='size %d %s, %s, position %d'
                                        % (n, perm_str(perm), cap_str(cap), p)))
    elif kind in ('size', 'empty', 'begin', 'end', 'clear'):
        for n in range(N + 1):
            for perm in orders(n, is_sorted, full):
                for cap in caps_for(n):
                    out.append(dict(n=n, cap=cap, perm=perm, label='size %d %s, %s' % (n, perm_str(perm), cap_str(cap))))
    elif kind in ('swap', 'copy_ctor', 'assign'):
        for n in range(N + 1):
            if kind == 'copy_ctor' and n > 0:
                continue
            # whole-content members do not look at keys: ascending and (unsorted container) descending and one mixed order
            # of the other container, ascending / descending of *this
            for perm in orders(n, is_sorted, 0)[:2]:
                for cap in caps_for(n):
                    if kind == 'copy_ctor' and cap is not None:
                        continue
                    for m in range(N + 1):
                        for perm2 in orders(m, is_sorted, 0)[:3]:
                            for cap2 in caps_for(m):
                                out.append(dict(n=n, cap=cap, perm=perm, other=(m, cap2, perm2),
                                                label='size %d %s, %s; other size %d %s, %s'
                                                % (n, perm_str(perm), cap_str(cap), m, perm_str(perm2), cap_str(cap2))))
    elif kind == 'ilist_ctor':
        for L in range(LN + 1):
            for ranks in weak_orders(L):
                out.append(dict(n=0, cap=None, ranks=ranks,
                                label='list of %d element(s), key ranks %s' % (L, list(ranks))))
    else:
        raise AnalysisBroken('no scenarios for member kind %s' % kind)
    return out


# ----------------------------------------------------------------------------------------------------------------
# members
# ----------------------------------------------------------------------------------------------------------------
def ptr_to(p, what):
    return p['ty']['k'] == 'ptr' and p['ty'].get('elem') == what


def classify(fn, lay):
    """-> (kind, argument roles) of a member or None (not a member this module has clauses for).  The roles are decided
    from the parameter TYPES and positions, never from their names."""
    b = base_name(fn)
    ps = fn.params[1:]
    const = fn.name.startswith('_ZNK')
    cls = lay.elem_ty
    keyish = len(ps) >= 1 and (ptr_to(ps[0], 'i32') or (ps[0]['ty']['k'] == 'int' and ps[0]['ty']['bits'] == 32))
    one_key = len(ps) == 1 and keyish
    elem_ptr = lay.pair_ty if lay.is_map else 'i32'
    if b in ('lower_bound', 'upper_bound') and not lay.sorted:
        return None                 # no meaning on a storage that is not ordered by key
    if b in ('find', 'at', 'count', 'contains', 'lower_bound', 'upper_bound') and one_key:
        return (b, ['key'])
    if b == 'operator[]' and one_key:
        return ('cindex' if const else 'index', ['key'])
    if b == 'emplace' and lay.is_map and len(ps) == 2 and keyish and \
            (ptr_to(ps[1], 'i32') or (ps[1]['ty']['k'] == 'int' and ps[1]['ty']['bits'] == 32)):
        return ('emplace', ['key', 'val'])
    if b == 'insert' and lay.is_map and len(ps) == 1 and ptr_to(ps[0], lay.pair_ty):
        return ('insert', ['pair'])
    if b == 'insert' and not lay.is_map and one_key:
        return ('sinsert', ['key'])
    if b == 'erase' and len(ps) == 1:
        if lay.is_map:
            if ptr_to(ps[0], elem_ptr):
                return ('erase_iter', ['iter'])
            return ('erase_key', ['key']) if keyish else None
        # the set: erase(const Key&) and erase(iterator) have the same IR signature (int*); told apart by the declared type
        dit = fn.d.get('ditypes') or []
        decl = dit[2]['type'] if len(dit) > 2 else ''
        if not decl or not ptr_to(ps[0], 'i32'):
            return ('erase_key', ['key']) if ps[0]['ty']['k'] == 'int' else None
        return ('erase_iter', ['iter']) if 'iterator' in decl else ('erase_key', ['key'])
    if b in ('size', 'empty', 'begin', 'end', 'cbegin', 'cend', 'clear') and not ps:
        return ({'cbegin': 'begin', 'cend': 'end'}.get(b, b), [])
    if b == 'swap' and len(ps) == 1 and ptr_to(ps[0], cls):
        return ('swap', ['other'])
    if b == 'operator=' and len(ps) == 1 and ptr_to(ps[0], cls):
        return ('assign' if copy_overload(fn) else None, ['other'])
    if b in ('flat_map', 'flat_set'):
        if len(ps) == 1 and ptr_to(ps[0], cls):
            return ('copy_ctor' if copy_overload(fn) else None, ['other'])
        if lay.is_map and len(ps) == 1 and ps[0]['ty']['k'] == 'ptr' and 'initializer_list' in ps[0]['ty'].get('elem', ''):
            return ('ilist_ctor', ['ilist'])
        if lay.is_map and len(ps) == 2 and ptr_to(ps[0], lay.pair_ty) and ps[1]['ty']['k'] == 'int':
            return ('ilist_ctor', ['ilist-array', 'ilist-len'])
    return None


def copy_overload(fn):
    from irlib import demangle1
    d = demangle1(fn.name).replace(' ', '')
    return 'const&)' in d


def build(scene, fn, kind, roles):
    """entry state and arguments of one scenario"""
    lay, sc, st = scene.lay, scene.sc, scene.st
    args = []
    if kind in ('copy_ctor', 'ilist_ctor'):
        o = st.new_obj('param', Lin(lay.size), 'this', {'desc': '*this (under construction)'})
        scene.objs['this'] = (o, None)
        args.append(PtrVal(o.id))
    else:
        args.append(PtrVal(scene.container('this', sc['n'], sc['cap'], 'k', 'v', sc.get('perm')).id))
    key = None
    if 'key' in roles or 'pair' in roles:
        key = scene.place_key(sc['n'], sc['key'])
    for role, p in zip(roles, fn.params[1:]):
        if role == 'key':
            if p['ty']['k'] == 'int':
                args.append(key)
            else:
                o = st.new_obj('param', Lin(4), 'key', {'desc': 'the key argument'})
                st.mem[(o.id, 0, 4)] = key
                args.append(PtrVal(o.id))
        elif role == 'val':
            v = scene.sym(('val',))
            if p['ty']['k'] == 'int':
                args.append(v)
            else:
                o = st.new_obj('param', Lin(4), 'value', {'desc': 'the mapped-value argument'})
                st.mem[(o.id, 0, 4)] = v
                args.append(PtrVal(o.id))
        elif role == 'pair':
            o = st.new_obj('param', Lin(lay.esz), 'value', {'desc': 'the value_type argument'})
            st.mem[(o.id, 0, 4)] = key
            st.mem[(o.id, lay.val_off, 4)] = scene.sym(('val',))
            args.append(PtrVal(o.id))
        elif role == 'iter':
            blk = scene.objs['this'][1]
            args.append(PtrVal(blk.id, Lin(lay.esz * sc['pos'])))
        elif role == 'other':
            m, cap2, perm2 = sc['other']
            args.append(PtrVal(scene.container('other', m, cap2, 'ok', 'ov', perm2).id))
        elif role in ('ilist', 'ilist-array'):
            ranks = sc['ranks']
            L = len(ranks)
            arr = st.new_obj('param', Lin(lay.esz * L), 'il_array', {'desc': 'backing array of the initializer_list'})
            for i in range(L):
                st.mem[(arr.id, lay.esz * i, 4)] = scene.sym(('ik', i))
                st.mem[(arr.id, lay.esz * i + lay.val_off, 4)] = scene.sym(('iv', i))
            order = sorted(range(L), key=lambda i: (ranks[i], i))
            for a, b in zip(order, order[1:]):
                if ranks[a] == ranks[b]:
                    st.cons.add_eq(scene.syms[('ik', a)], scene.syms[('ik', b)])
                else:
                    st.cons.add_lt(scene.syms[('ik', a)], scene.syms[('ik', b)])
            if role == 'ilist':
                lo = st.new_obj('param', Lin(16), 'init', {'desc': 'the initializer_list object'})
                st.mem[(lo.id, 0, 8)] = PtrVal(arr.id, Lin(0))
                st.mem[(lo.id, 8, 8)] = mk_const(64, L)
                args.append(PtrVal(lo.id))
            else:
                args.append(PtrVal(arr.id, Lin(0)))
        elif role == 'ilist-len':
            args.append(mk_const(64, len(sc['ranks'])))
        else:
            raise AnalysisBroken('role %s' % role)
    return args


# ----------------------------------------------------------------------------------------------------------------
# checking one return
# ----------------------------------------------------------------------------------------------------------------
def same_elem(T, a, b):
    return T.cons.entails_eq(a[0], b[0]) and (a[1] is None or T.cons.entails_eq(a[1], b[1]))


def match_set(T, want, seq):
    """index of the first element of want that no (unused) slot of seq holds, None when the two are the same mapping"""
    used = set()
    for wi, w in enumerate(want):
        hit = [i for i in range(len(seq)) if i not in used and same_elem(T, w, seq[i])]
        if not hit:
            return wi
        used.add(hit[0])
    return None


def check_return(scene, kind, ex, T, rv, entry, out):
    lay = scene.lay
    blk, boff, seq = scene.read(T, 'this')
    want = [(scene.lin(k), None if v is None else scene.lin(v)) for (k, v) in ex.content] if ex.content is not None else None
    if lay.sorted:
        # invariant of the sorted container: strictly ascending keys
        bad = [i for i in range(len(seq) - 1) if not T.cons.entails_lt(seq[i][0], seq[i + 1][0])]
        out('invariant:keys-strictly-ascending', not bad,
            None if not bad else 'at return the container holds %s: the key in slot %d is not below the key in slot %d '
            '(the binary searches of the lookups need ascending keys)' % (scene.show(T, seq), bad[0], bad[0] + 1))
    else:
        # invariant of the container with linear lookups: keys pairwise different (any order)
        bad = [(i, j) for i in range(len(seq)) for j in range(i + 1, len(seq))
               if not (T.cons.entails_lt(seq[i][0], seq[j][0]) or T.cons.entails_lt(seq[j][0], seq[i][0]))]
        out('invariant:keys-pairwise-different', not bad,
            None if not bad else 'at return the container holds %s: slots %d and %d carry the same key (count() of that '
            'key is 2, size() counts it twice)' % (scene.show(T, seq), bad[0][0], bad[0][1]))
    if want is not None:
        ok = len(seq) == len(want)
        out('content:size', ok, None if ok else 'at return the container holds %d element(s) %s, the reference holds %d: %s'
            % (len(seq), scene.show(T, seq), len(want), scene.show_names(ex.content)))
        if ok:
            if ex.exact and lay.sorted:
                badi = [i for i in range(len(seq)) if not same_elem(T, want[i], seq[i])]
                out('content:elements', not badi,
                    None if not badi else 'at return the container holds %s, the reference sequence is %s (first difference '
                    'in slot %d)' % (scene.show(T, seq), scene.show_names(ex.content), badi[0]))
            else:
                missing = match_set(T, want, seq)
                out('content:elements', missing is None,
                    None if missing is None else 'at return the container holds %s: the element %s of the reference %s is '
                    'missing (or has another mapped value)' % (scene.show(T, seq), scene.show_names([ex.content[missing]]),
                                                             scene.show_names(ex.content)))
    if ex.frame:
        eblk, eoff = entry
        ok = blk == eblk and boff == eoff
        out('frame:same-block', ok, None if ok else 'a member that does not insert or erase moved the elements to another '
            'block (references and iterators are invalidated)')
    if ex.other is not None:
        oblk, ooff, oseq = scene.read(T, 'other')
        owant = [(scene.lin(k), None if v is None else scene.lin(v)) for (k, v) in ex.other]
        if lay.sorted:
            ok = len(oseq) == len(owant) and all(same_elem(T, a, b) for a, b in zip(owant, oseq))
        else:
            ok = len(oseq) == len(owant) and match_set(T, owant, oseq) is None
        out('content:other', ok, None if ok else 'at return the other container holds %s, the reference is %s'
            % (scene.show(T, oseq), scene.show_names(ex.other)))
        if ex.fresh_block:
            ok = blk is None or blk != oblk
            out('content:copy-owns-its-block', ok, None if ok else 'after the copy both containers designate the same block')
    if ex.result is not None:
        check_result(scene, ex.result, T, rv, blk, boff, seq, out)


def find_key(scene, T, seq, name):
    k = scene.lin(name)
    hits = [i for i in range(len(seq)) if T.cons.entails_eq(seq[i][0], k)]
    return hits


def describe_ptr(scene, T, p, blk, boff, seq):
    lay = scene.lay
    if not isinstance(p, PtrVal):
        return repr(p)
    if p.is_null:
        return 'a null pointer'
    if p.obj != blk:
        if p.obj in T.ghost.get('freed', ()):
            return 'a position in a block that has been released (dangling)'
        o = T.objs.get(p.obj)
        return 'a position outside the storage' + (' (%s)' % o.info['desc'] if o is not None and o.info.get('desc') else '')
    if not p.off.is_const():
        return 'begin() + %r bytes' % (p.off - boff)
    d = p.off.c - boff
    i, r = divmod(d, lay.esz)
    if 0 <= i < len(seq):
        part = '' if r == 0 else (' (its mapped value)' if lay.is_map and r == lay.val_off else ' + %d bytes' % r)
        return 'slot %d holding %s%s' % (i, scene.show(T, [seq[i]]), part)
    if i == len(seq) and r == 0:
        return 'end()'
    return 'begin() + %d bytes' % d


def check_result(scene, res, T, rv, blk, boff, seq, out):
    lay = scene.lay
    kind = res[0]

    def ptr_is(p, idx, extra):
        """p == begin + idx * esz + extra in the block of *this as of the return"""
        if not isinstance(p, PtrVal):
            raise Unresolved('the result is not a pointer value (%r)' % (p,))
        if blk is None:
            return p.is_null and idx == 0 and extra == 0
        return (not p.is_null) and p.obj == blk and T.cons.entails_eq(p.off, boff + idx * lay.esz + extra)

    def elem_clause(p, name, extra, clause):
        hits = find_key(scene, T, seq, name)
        if len(hits) != 1:
            out(clause, False, 'at return the container holds %s: %d element(s) carry the key of the call, so the result '
                'cannot designate "the" element with that key' % (scene.show(T, seq), len(hits)))
            return
        ok = ptr_is(p, hits[0], extra)
        out(clause, ok, None if ok else 'the result designates %s, expected %sslot %d holding %s (container at return: %s)'
            % (describe_ptr(scene, T, p, blk, boff, seq), 'the mapped value of ' if extra else '', hits[0],
               scene.show(T, [seq[hits[0]]]), scene.show(T, seq)))

    def flag_clause(v, want):
        c = None
        if isinstance(v, IntVal):
            c = v.const()
        elif isinstance(v, CondVal):
            d = scene.interp.decide(T, v)
            c = None if d is None else int(d)
        if c is None:
            raise Unresolved('the boolean result is not decided (%r)' % (v,))
        ok = bool(c) == want
        out('result:inserted-flag' if kind in ('iter-flag', 'iter-or-pair', 'none-or-pair') else 'result:value', ok,
            None if ok else 'the boolean result is %s, expected %s' % (bool(c), want))

    if kind == 'iter-of-key':
        elem_clause(rv, res[1], 0, 'result:designates-the-element-with-the-key')
    elif kind == 'mapped-of-key':
        elem_clause(rv, res[1], lay.val_off, 'result:designates-the-mapped-value-of-the-key')
    elif kind == 'end':
        ok = ptr_is(rv, len(seq), 0)
        out('result:end-when-absent', ok, None if ok else 'the key is absent but the result is %s, expected end()'
            % describe_ptr(scene, T, rv, blk, boff, seq))
    elif kind == 'pos':
        ok = ptr_is(rv, res[1], 0)
        out('result:position', ok, None if ok else 'the result is %s, expected begin() + %d'
            % (describe_ptr(scene, T, rv, blk, boff, seq), res[1]))
    elif kind == 'pos-or-none':
        if rv is not None:
            ok = ptr_is(rv, res[1], 0)
            out('result:position', ok, None if ok else 'the result is %s, expected begin() + %d (the element behind the '
                'erased one)' % (describe_ptr(scene, T, rv, blk, boff, seq), res[1]))
    elif kind == 'int':
        if not isinstance(rv, IntVal) or rv.const() is None:
            raise Unresolved('the integer result is not a constant (%r)' % (rv,))
        ok = rv.const() == res[1]
        out('result:value', ok, None if ok else 'the result is %d, expected %d' % (rv.const(), res[1]))
    elif kind == 'bool':
        flag_clause(rv, res[1])
    elif kind == 'default-ref':
        if not isinstance(rv, PtrVal):
            raise Unresolved('the result is not a pointer value (%r)' % (rv,))
        o = T.objs.get(rv.obj) if not rv.is_null else None
        ok = o is not None and rv.obj != blk and o.kind == 'global'
        val = None
        if ok:
            val = scene.interp.load(T.fork(), rv, {'k': 'int', 'bits': 32, 'size': 4, 's': 'i32'}, None)
            ok = isinstance(val, IntVal) and val.const() == 0
        out('result:absent-key-reads-as-T()', ok,
            None if ok else 'the key is absent but the result designates %s%s, expected a value-initialised T with static '
            'storage' % (describe_ptr(scene, T, rv, blk, boff, seq), '' if val is None else ' holding %r' % (val,)))
    elif kind in ('iter-flag', 'iter-or-pair', 'none-or-pair'):
        it, flag = rv, None
        if isinstance(rv, AggVal) and len(rv.elems) == 2:
            it, flag = rv.elems
        elif kind == 'iter-flag':
            raise Unresolved('the result is not an (iterator, bool) pair (%r)' % (rv,))
        if it is not None and not (kind == 'none-or-pair' and not isinstance(it, PtrVal)):
            elem_clause(it, res[1], 0, 'result:designates-the-element-with-the-key')
        if flag is not None:
            flag_clause(flag, res[2])
    else:
        raise AnalysisBroken('result kind %s' % kind)


# ----------------------------------------------------------------------------------------------------------------
# one scenario
# ----------------------------------------------------------------------------------------------------------------
def run_scenario(mod, fn, lay, kind, roles, sc, peel):
    findings = []
    unresolved = None
    nret = 0
    it = FlatInterp(mod, externals=dict(EXT))
    it.max_peel = peel
    it.max_peel_states = 16
    try:
        scene = Scene(lay, sc)
        scene.interp = it
        args = build(scene, fn, kind, roles)
        ex = expect(kind, sc, lay.is_map)
        entry = (None, 0)
        if kind not in ('copy_ctor', 'ilist_ctor'):
            eb, eo, _seq = scene.read(scene.st, 'this')
            entry = (eb, eo)
        it.stack = [(fn.name, 'entry')]
        rets = it.run_function(fn, scene.st, args)
        it.stack = []
        if it.unknown_calls:
            raise Unresolved('call(s) to unsummarised external function(s) %s' % sorted(it.unknown_calls))
        for ob in it.obligs.values():
            if ob.kind == 'deref-null' and not ob.ok:
                findings.append(('memory:no-null-dereference', False, ob.detail + ' at ' + ob.where))
        for (clause, detail) in it.violations:
            findings.append((clause, False, detail))
        if not it.violations:
            findings.append(('memory:accesses-inside-the-object', True, None))

        def out(clause, ok, detail):
            findings.append((clause, bool(ok), detail))
        dropped = bool(it.violations) or any(c == 'memory:no-null-dereference' for (c, _o, _d) in findings)
        if not rets and not dropped and not it.throws:
            raise Unresolved('no path of this scenario reaches a return (%d throw(s))' % it.throws)
        if ex.throws:
            if rets or not dropped:
                ok = not rets and it.throws > 0
                out('result:absent-key-throws', ok, None if ok else 'the key is absent but the member returns normally on %d '
                    'path(s) instead of throwing' % len(rets))
        else:
            out('result:does-not-throw', it.throws == 0,
                None if it.throws == 0 else 'the member throws on %d path(s) of a scenario in which it has to return' % it.throws)
            for (T, rv) in rets:
                nret += 1
                check_return(scene, kind, ex, T, rv, entry, out)
    except Unresolved as e:
        unresolved = str(e)
    except AnalysisBroken as e:
        unresolved = 'engine: ' + str(e)
    except RecursionError:
        unresolved = 'engine: recursion limit'
    finally:
        it.stack = []
    if unresolved is not None:
        # violations seen before the analysis lost track are still violations of an exact scenario
        findings = [f for f in findings if not f[1] and f[0].startswith('memory:')]
    return {'findings': findings, 'unresolved': unresolved, 'returns': nret}


_CTX = {}


def _work(k):
    c = _CTX
    (mi, si) = c['tasks'][k]
    fn, kind, roles, scs = c['members'][mi]
    sys.setrecursionlimit(20000)
    return (mi, si, run_scenario(c['mod'], fn, c['lay'], kind, roles, scs[si], c['peel']))


def nice(fn):
    return fn.qualname + sig_suffix(fn)


def run_class(rep, rule, repo, mod, scope, required, N, LN, label, FULL=3):
    fns = class_methods(mod, scope)
    fns = [f for f in fns if f.srcname != 'operator()' and '{lambda' not in f.scope and f.params and f.params[0]['name'] == 'this']
    if not fns:
        raise AnalysisBroken('%s: no member instantiated (witness out of date)' % label)
    lay = None
    members = []
    have = {}
    for f in fns:
        if tyname(f.params[0]['ty'].get('elem', '')).split('.')[0] not in ('class', 'struct'):
            continue
        if lay is None:
            lay = Layout(mod, f)
        if f.params[0]['ty'].get('elem') != lay.elem_ty:
            continue
        c = classify(f, lay)
        if c is None or c[0] is None:
            continue
        kind, roles = c
        members.append((f, kind, roles, scenarios(kind, N, LN, lay.sorted, FULL)))
        have[kind] = have.get(kind, 0) + 1
    for k, cnt in required.items():
        if have.get(k, 0) < cnt:
            raise AnalysisBroken('%s: %d member(s) of kind %s with a content clause, expected >= %d (anchor vanished, '
                                 'signature changed or witness out of date)' % (label, have.get(k, 0), k, cnt))
    names = [nice(m[0]) for m in members]
    # overloads that differ only in the declared type (set: erase(const int&) / erase(iterator), both int* in the IR)
    names = [nm if names.count(nm) == 1 else '%s [%s]' % (nm, members[k][1]) for k, nm in enumerate(names)]
    if len(set(names)) != len(names):
        raise AnalysisBroken('%s: two members share the name %s' % (label, [n for n in names if names.count(n) > 1][0]))
    tasks = [(mi, si) for mi, m in enumerate(members) for si in range(len(m[3]))]
    _CTX.clear()
    _CTX.update(mod=mod, members=members, lay=lay, tasks=tasks, peel=2 * max(N, LN) + 8)
    workers = min(16, os.cpu_count() or 2, max(1, len(tasks) // 24))
    if workers > 1 and not os.environ.get('VERIF_FLAT_SERIAL'):
        with multiprocessing.get_context('fork').Pool(workers) as pool:
            results = pool.map(_work, range(len(tasks)), chunksize=max(1, len(tasks) // (workers * 8)))
    else:
        results = [_work(k) for k in range(len(tasks))]
    per = {}
    for (mi, si, r) in results:
        per.setdefault(mi, []).append((si, r))
    stats = {'members': 0, 'scenarios': 0, 'returns': 0, 'unresolved': []}
    table = {}
    for mi, (fn, kind, roles, scs) in enumerate(members):
        fname = names[mi]
        where = '%s:%d' % (relpath(repo, fn.file), fn.line)
        rs = sorted(per.get(mi, []), key=lambda x: x[0])
        nret = sum(r['returns'] for (_s, r) in rs)
        stats['scenarios'] += len(rs)
        stats['returns'] += nret
        table[fname] = {'kind': kind, 'scenarios': len(rs), 'returns': nret}
        unres = []
        for (si, r) in rs:
            for (clause, ok, detail) in r['findings']:
                sub = clause.split(':', 1)[0]
                rep.inst('%s:%s' % (rule, sub), fname, clause, ok, where,
                         None if ok else 'scenario {%s}: %s' % (scs[si]['label'], detail),
                         fact={'scenario': scs[si]['label'], 'unit': label})
            if r['unresolved'] is not None:
                unres.append((scs[si]['label'], r['unresolved']))
        if unres:
            for (pl, why) in unres:
                stats['unresolved'].append('%s {%s}: %s' % (fname, pl, why))
        else:
            stats['members'] += 1
            rep.inst('%s:analysed' % rule, fname, 'every-scenario-analysed', True, where,
                     fact={'kind': kind, 'scenarios': len(rs), 'returns': nret, 'unit': label})
    exx = rep.extra.setdefault('flat_content', {})
    exx[label] = {'members': table, 'scenarios': stats['scenarios'], 'returns_checked': stats['returns'],
                  'unresolved': stats['unresolved'][:40]}
    for u in stats['unresolved'][:12]:
        print('NOTE %s (%s) scenario not analysable, no verdict: %s' % (rule, label, u))
    if len(stats['unresolved']) > 12:
        print('NOTE %s (%s): %d more unresolved scenario(s)' % (rule, label, len(stats['unresolved']) - 12))
    return stats, len(members)


MAP_REQUIRED = {'find': 2, 'at': 2, 'index': 1, 'cindex': 1, 'count': 1, 'emplace': 1, 'insert': 1, 'size': 1, 'empty': 1,
                'begin': 2, 'end': 2, 'clear': 1, 'swap': 1, 'ilist_ctor': 1, 'copy_ctor': 1, 'assign': 1}
SET_REQUIRED = {'sinsert': 1, 'count': 1, 'size': 1, 'begin': 2, 'end': 1, 'clear': 1, 'copy_ctor': 1, 'assign': 1}

# distinct (rule, member, clause) identities on today's members (optional members only add)
FLOORS = {MAP_RULE: {'invariant': 20, 'content': 45, 'frame': 15, 'result': 41, 'memory': 20},
          SET_RULE: {'invariant': 9, 'content': 22, 'frame': 6, 'result': 14, 'memory': 9}}

EXPLANATION = (
    ' Contents of the flat containers (rules R-FLATMAP for igris::flat_map<int,int>, R-FLATSET for igris::flat_set<int>): '
    'every instantiated member is interpreted (abstract interpretation of the -O0 IR including the libstdc++ std::vector / '
    'algorithm code it instantiates, nothing is executed) once per element of a partition of its entry states: size 0..4 '
    '(thorough ..6), block with exactly size slots / one spare slot / no block, SYMBOLIC keys k0 < k1 < ... and mapped '
    'values, the key argument in every gap and equal to every present key.  Representation invariants assumed on entry and '
    'required at every return: flat_set - keys strictly ascending (its insert / count use std::lower_bound); flat_map - keys '
    'pairwise different in ANY order (its lookups are linear key-equality scans; the property promises lookup answers, not '
    'iteration order), and therefore every member of flat_map runs on storages in several orders (all permutations up to 3 '
    'keys, thorough 4; above that ascending, descending and two mixed orders).  At every return the content - flat_map: the '
    'mapping key -> mapped value and the size, flat_set: the sequence - and the result are compared with the reference: '
    'lookups (find, count, at, operator[], contains when it exists) designate exactly the element with that key or end() / '
    '0 / throw / a static T() and leave the content in its block; operator[] on an absent key, emplace and insert add '
    'exactly one element (key, T() | value) and keep every other element with its mapped value, the result designates the '
    'element with that key in the storage as of the return, the inserted flag tells whether the key was absent, a present '
    'key is neither overwritten nor duplicated; erase (when it exists) removes exactly that element; '
    'flat_map(initializer_list) yields one element per distinct key (first occurrence) for every weak order of up to 3 '
    '(thorough 4) list keys; size / empty / begin / end; clear, swap, copy construction and copy assignment (whole '
    'contents, deep copy).  Every access of a scenario lies inside its object and touches no released block.  Not decided: '
    'iteration order of flat_map (not part of the property), key / mapped types other than int (a non-trivial element type '
    'is covered for igris::vector by R-IDENT-VEC, the flat containers sit on std::vector), exception safety, operator== / '
    '!=, reverse iterators, reserve / capacity / shrink_to_fit (forwarders to std::vector), sizes above the partition (no '
    'size-dependent case in the code), a key argument that aliases an element while the storage is reallocated (cannot '
    'happen: such a key is present).')


def run_ext(rep, repo, tier, only=None):
    """called at the end of c02.run"""
    rep.explanation = (rep.explanation or '') + EXPLANATION
    rep.assumptions += ['flat containers: std::vector, std::pair and the std algorithms are interpreted as compiled (libstdc++ '
                        'of the image), operator new does not fail',
                        'flat containers: on entry flat_set holds strictly ascending keys, flat_map pairwise different keys in any order '
                        '(the class invariants)']
    N = 4 if tier != 'thorough' else 6
    LN = 3 if tier != 'thorough' else 4
    mod = compile_ir(os.path.join(WIT, 'w_c02_flat_members.cpp'), repo, exceptions=True)
    rep.units.append('witness/w_c02_flat_members.cpp -> content of igris/container/flat_map.h, flat_set.h')
    total = 0
    for (rule, scope, req, label) in ((MAP_RULE, MAP_SCOPE, MAP_REQUIRED, 'igris::flat_map<int,int> sizes 0..%d' % N),
                                      (SET_RULE, SET_SCOPE, SET_REQUIRED, 'igris::flat_set<int> sizes 0..%d' % N)):
        if only and rule not in only:
            continue
        st, nm = run_class(rep, rule, repo, mod, scope, req, N, LN, label, FULL=3 if tier != 'thorough' else 4)
        total += st['scenarios']
        rep.floor(rule + ':analysed', nm)
        for sub, k in FLOORS[rule].items():
            rep.floor('%s:%s' % (rule, sub), k)
    if not only and total < (2700 if tier != 'thorough' else 9000):
        raise AnalysisBroken('flat content rules: only %d (member, scenario) pairs analysed' % total)
