"""C17 CRC routines: GF(2)-linear transformer of every update step compared with
the transformer generated from the polynomial/bit order; bounds/width of data reads."""
from common import *
from irlib import UNROLL_PASSES, UNROLL_ARGS, V
from gf2 import BV, BlockEval, crc_step_ref, ONE
from absval import PtrVal


def rename(bv, mapping):
    """substitute symbol prefixes: mapping old symbol -> frozenset of new symbols (or None for 0)"""
    out = []
    for b in bv.bits:
        acc = frozenset()
        for s in b:
            acc = acc ^ mapping.get(s, frozenset([s]))
        out.append(acc)
    return BV(bv.w, out)


def sym_map(prefix, w, to):
    return {'%s%d' % (prefix, i): frozenset(['%s%d' % (to, i)]) for i in range(w)}


def data_loop(f):
    """the loop that consumes the data: innermost loop containing an i8 load"""
    best = None
    for L in f.loops:
        if any(i.op == 'load' and i.bits == 8 for b in L['blocks'] for i in b.insts):
            if best is None or len(L['blocks']) < len(best['blocks']):
                best = L
    return best


def eval_loop_body(mod, f, L):
    if len(L['blocks']) != 1:
        raise AnalysisBroken('%s: the data loop is not a single straight-line block after unrolling '
                             '(%d blocks): update step not expressible' % (f.name, len(L['blocks'])))
    b = list(L['blocks'])[0]
    ev = BlockEval(f, mod)
    phis = [i for i in b.insts if i.op == 'phi']
    for ph in phis:
        if ph.ty.get('k') == 'int':
            ev.env[('i', ph.id)] = BV.sym(ph.bits, 'phi:%s.' % (ph.name or ph.id))
    ev.run_block(b)
    return b, ev, phis


def check_step(rep, mod, fname, width, poly, reflected, where_note, state_bits=None):
    f = mod.fn(fname)
    if f is None or f.decl:
        raise AnalysisBroken('%s not found (anchor vanished)' % fname)
    L = data_loop(f)
    if L is None:
        raise AnalysisBroken('%s: no loop reading data bytes found' % fname)
    from gf2 import TableNotAffine
    try:
        b, ev, phis = eval_loop_body(mod, f, L)
    except TableNotAffine as e:
        rep.inst('R-CRCSTEP', fname, 'step==definition(poly=0x%X,%s)' % (poly, 'lsb-first' if reflected else 'msb-first'),
                 False, '%s:%d' % (f.file, f.line), e.detail())
        return
    loads = [(i, v) for (i, v) in ev.loads if i.bits == 8]
    if len(loads) != 1:
        raise AnalysisBroken('%s: expected exactly one data byte load per iteration, found %d' % (fname, len(loads)))
    dsym = loads[0][1]
    dpref = next(iter(dsym.bits[0]))[:-1]
    # the state phi: integer phi whose next value depends on the data byte
    cand = []
    for ph in phis:
        if ph.ty.get('k') != 'int':
            continue
        nxt = None
        for (bb, v) in ph.incoming:
            if f.bmap[bb] in L['blocks']:
                nxt = ev.val(v)
        if isinstance(nxt, BV) and any(s.startswith(dpref) for s in nxt.syms()):
            cand.append((ph, nxt))
    where = '%s:%d' % (f.file, f.line)
    if len(cand) != 1:
        rep.inst('R-CRCSTEP', fname, 'state-variable', False, where,
                 '%d loop-carried integers depend on the data byte; expected exactly the CRC register' % len(cand))
        return
    ph, nxt = cand[0]
    ppref = 'phi:%s.' % (ph.name or ph.id)
    m = {}
    m.update(sym_map(ppref, ph.bits, 'c'))
    m.update(sym_map(dpref, 8, 'd'))
    got = rename(nxt, m)
    foreign = [s for s in got.syms() if s != ONE and s[0] not in 'cd']
    c = BV.sym(width, 'c')
    d = BV.sym(8, 'd')
    if state_bits is None:
        want = crc_step_ref(c, d, poly, width, reflected)
        got_cmp = got
    else:
        # register holds the CRC shifted left (mmc crc7): r = s << 1
        s = BV.sym(state_bits, 's')
        r = s.zext(width).shl(width - state_bits)
        sub = {'c%d' % i: (r.bits[i]) for i in range(width)}
        got_cmp = rename(got, sub)
        ref = crc_step_ref(s, BV.sym(8, 'd'), poly, state_bits, False)
        want = ref.zext(width).shl(width - state_bits)
    ok = (not foreign) and got_cmp.w == want.w and got_cmp == want
    detail = None
    if not ok:
        bad = [i for i in range(min(got_cmp.w, want.w)) if got_cmp.bits[i] != want.bits[i]]
        detail = ('update step of %s differs from the %s CRC-%d step with polynomial 0x%X (%s): register bit(s) %s; '
                  'e.g. bit %s is %s, definition gives %s%s'
                  % (fname, 'reflected' if reflected else 'MSB-first', state_bits or width, poly, where_note, bad[:8],
                     bad[0] if bad else '?', '^'.join(sorted(got_cmp.bits[bad[0]])) if bad else '?',
                     '^'.join(sorted(want.bits[bad[0]])) if bad else '?',
                     '; depends on non-CRC values %s' % foreign[:4] if foreign else ''))
    rep.inst('R-CRCSTEP', fname, 'step==definition(poly=0x%X,%s)' % (poly, 'lsb-first' if reflected else 'msb-first'),
             ok, where, detail, fact={'register_bits': width, 'matrix_rows': [sorted(x) for x in got_cmp.bits][:4]})
    # fold structure: seed and result
    init = None
    for (bb, v) in ph.incoming:
        if f.bmap[bb] not in L['blocks']:
            init = v
    return f, L, ph, init


def fold_rule(rep, f, L, ph, init, seed_param, shift=0):
    """R-FOLD: the register starts from the seed parameter (or 0) and the function returns it"""
    where = '%s:%d' % (f.file, f.line)
    ok = False
    if seed_param is None:
        ok = init is not None and init.k == 'ci' and init.uval == 0
        what = 'constant 0'
    else:
        ok = init is not None and init.k == 'arg' and f.params[init.argno]['name'] == seed_param
        what = 'parameter ' + seed_param
    rep.inst('R-FOLD', f.name, 'register-seeded-from:%s' % what, ok, where,
             None if ok else 'the CRC register is not initialised from %s' % what)
    # returned value: phi over {seed (empty input), register}
    good = True
    n = 0
    for r in f.returns():
        if not r.ops:
            continue
        n += 1
        v = r.ops[0]
        sh = 0
        ins = f.inst_of(v)
        # allow trunc/zext and the final ">> shift"
        for _ in range(6):
            if ins is not None and ins.op in ('trunc', 'zext'):
                v = ins.ops[0]
                ins = f.inst_of(v)
            elif ins is not None and ins.op in ('lshr', 'ashr') and ins.ops[1].k == 'ci':
                sh += ins.ops[1].uval
                v = ins.ops[0]
                ins = f.inst_of(v)
            else:
                break
        srcs = []
        if ins is not None and ins.op == 'phi':
            srcs = [x for (_, x) in ins.incoming]
        else:
            srcs = [v]
        for s_ in srcs:
            si = f.inst_of(s_)
            if s_.k == 'arg' and seed_param is not None and f.params[s_.argno]['name'] == seed_param:
                continue
            if s_.k == 'ci' and seed_param is None and s_.uval == 0:
                continue
            if si is not None and (si.id == ph.id or any(x.k == 'inst' and x.id == si.id for (_, x) in ph.incoming)):
                continue
            good = False
        if sh != shift:
            good = False
    rep.inst('R-FOLD', f.name, 'returns-register%s' % ('>>%d' % shift if shift else ''), good and n > 0, where,
             None if good and n else 'the value returned is not the CRC register (shifted by %d)' % shift)


def whole_rule(rep, mod, fname, width, poly, reflected, seed_name, data_name, len_name, word=False, shift=0,
               state_bits=None, lengths=(0, 1, 2, 3, 4, 5, 7, 8, 9)):
    """R-CRCWHOLE: for fixed small lengths the whole function, evaluated in the GF(2) domain with symbolic seed and
    symbolic data bytes, equals the definition folded over the bytes; control flow must not depend on the data"""
    from gf2 import FuncEval, DataDependentBranch, TableNotAffine, ReadOutside
    f = mod.fn(fname)
    where = '%s:%d' % (f.file, f.line)
    names = [p['name'] for p in f.params]
    for L in lengths:
        args = []
        for p in f.params:
            if p['name'] == len_name:
                args.append(BV.const(p['ty']['bits'], L))
            elif p['name'] == seed_name:
                args.append(BV.sym(p['ty']['bits'], 'c'))
            elif p['name'] == data_name:
                args.append(('p', 'data', 0))
            else:
                args.append(BV.sym(p['ty'].get('bits', 8), 'x_' + p['name']))
        from gf2 import NeedSplit

        def runs(choices, subst, depth=0):
            """[(substitution, evaluator, result)]: one evaluation per outcome of every select that is not affine.  On the
            side where `x == constant` holds the bits of x (plain input symbols) are replaced by the constant, so that a
            special case for one seed / byte value is compared with the definition at exactly that value"""
            e_ = FuncEval(f, mod, args)
            e_.read_limit = L
            e_.select_choice = dict(choices)
            try:
                return [(subst, e_, e_.run())]
            except NeedSplit as ns:
                if depth >= 4:
                    raise DataDependentBranch(ns.inst)
                ci = f.inst_of(ns.inst.ops[0])
                if ci is None or ci.op != 'icmp' or ci.pred not in ('eq', 'ne') or not any(o.k == 'ci' for o in ci.ops):
                    raise DataDependentBranch(ns.inst)
                xv = [o for o in ci.ops if o.k != 'ci'][0]
                kc = [o for o in ci.ops if o.k == 'ci'][0].uval
                probe = FuncEval(f, mod, args)
                probe.read_limit = L
                probe.select_choice = dict(choices)
                probe.select_choice[ns.inst.id] = True
                try:
                    probe.run()
                except Exception:
                    pass
                x = probe.env.get(('i', xv.id)) if xv.k == 'inst' else probe.env.get(('a', xv.argno))
                if not isinstance(x, BV) or not all(len(b_) == 1 and ONE not in b_ for b_ in x.bits):
                    raise DataDependentBranch(ns.inst)
                m_eq = dict(subst)
                for n_, b_ in enumerate(x.bits):
                    m_eq[next(iter(b_))] = (kc >> n_) & 1
                eq_arm = (ci.pred == 'eq')          # the select's condition is true on the equal side iff pred is eq
                out_ = []
                c1 = dict(choices); c1[ns.inst.id] = eq_arm
                out_ += runs(c1, m_eq, depth + 1)
                c2 = dict(choices); c2[ns.inst.id] = not eq_arm
                out_ += runs(c2, subst, depth + 1)
                return out_

        def sub(bv, m):
            if not m or not isinstance(bv, BV):
                return bv
            o_ = []
            for b_ in bv.bits:
                acc = frozenset()
                for x_ in b_:
                    if x_ in m:
                        if m[x_]:
                            acc = acc ^ frozenset([ONE])
                    else:
                        acc = acc ^ frozenset([x_])
                o_.append(acc)
            return BV(bv.w, o_)
        try:
            alts = runs({}, {})
            ev = alts[0][1]
            out = alts[0][2]
        except ReadOutside as e:
            rep.inst('R-CRCWHOLE', fname, 'length=%d' % L, False, e.inst.where(),
                     'with length %d the routine reads %d byte(s) at offset %d of the data' % (L, e.nb, e.off))
            continue
        except DataDependentBranch as e:
            rep.inst('R-CRCWHOLE', fname, 'length=%d' % L, False, e.inst.where(),
                     'with length %d the control flow depends on the data or seed value (branch at %s): some inputs '
                     'take a path that does not apply the CRC definition' % (L, e.inst.where()))
            continue
        except TableNotAffine as e:
            rep.inst('R-CRCWHOLE', fname, 'length=%d' % L, False, where, e.detail())
            continue
        bad_reads = [r for r in ev.reads if r[1] < 0 or r[1] + r[2] > L]
        if bad_reads:
            r = bad_reads[0]
            rep.inst('R-CRCWHOLE', fname, 'length=%d' % L, False, r[3].where(),
                     'with length %d the routine reads %d byte(s) at offset %d of the data' % (L, r[2], r[1]))
            continue
        # reference
        sw = state_bits or width
        st = BV.sym(width, 'c') if seed_name else BV.const(width, 0)
        if state_bits:
            st = BV.const(state_bits, 0)
        if word:
            k = 0
            while k < L:
                n = min(4, L - k)
                wbits = []
                for j in range(4):
                    wbits += (ev.byte('data', k + j).bits if j < n else [frozenset()] * 8)
                st = crc_step_ref(st, BV(32, wbits), poly, 32, False, nbits=32)
                k += 4
        else:
            for k in range(L):
                st = crc_step_ref(st, ev.byte('data', k), poly, sw, reflected)
        want = st
        ok = True
        for (m_, e2, o2) in alts:
            if e2 is not ev:
                # (byte symbols are named by position: the reference built from `ev` serves every alternative)
                pass
            okk = isinstance(o2, BV) and o2.w >= sw and sub(o2.trunc(sw), m_) == sub(want, m_) and \
                all(not b for b in sub(o2, m_).bits[sw:])
            if not okk:
                ok = False
                out = sub(o2, m_)
                want = sub(want, m_)
                break
        rep.inst('R-CRCWHOLE', fname, 'length=%d' % L, ok, where,
                 None if ok else 'for length %d the value returned differs from the definition folded over the %d byte(s) '
                 '(seed and data symbolic): got bit0=%s, definition bit0=%s' % (
                     L, L, '^'.join(sorted(out.bits[0])) if isinstance(out, BV) else out,
                     '^'.join(sorted(want.bits[0]))))


def strm_paths(rep, mod, f):
    """igris_strmcrc8 with control flow: every path is evaluated in the GF(2) domain.  A branch that tests the data byte or
    the register for equality with a constant splits the analysis - on the equal side the tested bits are replaced by the
    constant - so that e.g. an early return for one byte value is compared with the definition at exactly that value."""
    where = '%s:%d' % (f.file, f.line)
    want = crc_step_ref(BV.sym(8, 'c'), BV.sym(8, 'd'), 0x31, 8, False)

    def sub(bv, m):
        out = []
        for b in bv.bits:
            acc = frozenset()
            for x in b:
                if x in m:
                    if m[x]:
                        acc = acc ^ frozenset([ONE])
                else:
                    acc = acc ^ frozenset([x])
            out.append(acc)
        return BV(bv.w, out)
    results = []        # (substitution, final register)

    def walk(b, prev, env, crc, m, depth):
        if depth > 40:
            raise AnalysisBroken('igris_strmcrc8: too many paths')
        ev = BlockEval(f, mod)
        ev.env = dict(env)
        for i in b.insts:
            if i.op == 'phi':
                for (bb, v) in i.incoming:
                    if prev is not None and bb == prev.name:
                        ev.env[('i', i.id)] = ev.val(v)
        for i in b.insts:
            if i.op in ('dbg', 'phi') or i is b.term:
                continue
            if i.op == 'load' and i.ops[0].k == 'arg' and i.ops[0].argno == 0:
                ev.env[('i', i.id)] = crc
            elif i.op == 'store' and i.ops[1].k == 'arg' and i.ops[1].argno == 0:
                crc = ev.val(i.ops[0])
            elif i.op in ('load', 'store', 'call', 'invoke'):
                raise AnalysisBroken('igris_strmcrc8: %s at %s not understood' % (i.op, i.where()))
            else:
                ev.step(i)
        t = b.term
        if t.op == 'ret':
            results.append((dict(m), sub(crc, m)))
            return
        if t.op != 'br':
            raise AnalysisBroken('igris_strmcrc8: terminator %s' % t.op)
        if 'f' not in t.d:
            return walk(f.bmap[t.d['t']], b, ev.env, crc, m, depth + 1)
        c = ev.val(t.ops[0])
        cc = sub(c, m).concrete() if isinstance(c, BV) else None
        if cc is not None:
            return walk(f.bmap[t.d['t'] if cc else t.d['f']], b, ev.env, crc, m, depth + 1)
        ci = f.inst_of(t.ops[0])
        if ci is None or ci.op != 'icmp' or ci.pred not in ('eq', 'ne') or not any(o.k == 'ci' for o in ci.ops):
            raise AnalysisBroken('igris_strmcrc8: branch at %s depends on the data in a way that is not understood' % t.where())
        x = ev.val([o for o in ci.ops if o.k != 'ci'][0])
        k = [o for o in ci.ops if o.k == 'ci'][0].uval
        x = sub(x, m)
        eq_m = dict(m)
        for j, bit in enumerate(x.bits):
            want_bit = (k >> j) & 1
            if len(bit) == 1 and ONE not in bit:
                eq_m[next(iter(bit))] = want_bit
            elif bit == (frozenset([ONE]) if want_bit else frozenset()):
                continue
            elif not bit or bit == frozenset([ONE]):
                eq_m = None           # constant bit that differs: the equal side is unreachable
                break
            else:
                raise AnalysisBroken('igris_strmcrc8: compared value at %s is not a plain byte' % t.where())
        eq_side = t.d['t'] if ci.pred == 'eq' else t.d['f']
        ne_side = t.d['f'] if ci.pred == 'eq' else t.d['t']
        if eq_m is not None:
            walk(f.bmap[eq_side], b, ev.env, crc, eq_m, depth + 1)
        walk(f.bmap[ne_side], b, ev.env, crc, m, depth + 1)      # no information on this side: all values
    env0 = {('a', 1): BV.sym(8, 'd')}
    walk(f.entry, None, env0, BV.sym(8, 'c'), {}, 0)
    bad = None
    for m, got in results:
        w = sub(want, m)
        if got != w:
            vals = {}
            for sname, v in m.items():
                vals.setdefault(sname[0], 0)
                vals[sname[0]] |= v << int(sname[1:])
            bad = ('on the path taken for %s the register becomes %s, the definition gives %s'
                   % (' and '.join('%s == 0x%02x' % ({'c': 'crc', 'd': 'byte'}.get(k_, k_), v) for k_, v in sorted(vals.items()))
                      or 'all inputs', [x for x in got.show()][:8], [x for x in w.show()][:8]))
            break
    ok = bad is None and bool(results)
    rep.inst('R-CRCSTEP', 'igris_strmcrc8', 'step==definition(poly=0x31,msb-first)', ok, where,
             None if ok else 'streaming CRC-8 step differs from the MSB-first polynomial 0x31 definition: %s' % bad)
    rep.inst('R-CRCSTEP', 'igris_strmcrc8', 'residue-zero(f(c,d)=L(c^d),L(0)=0)', ok, where,
             None if ok else 'the step is not the linear function of crc XOR byte on every path: message followed by its CRC does not '
             'give 0')


def strm_rule(rep, mod):
    f = mod.fn('igris_strmcrc8')
    if f is None or f.decl:
        raise AnalysisBroken('igris_strmcrc8 not found')
    if not f.loops and len(f.blocks) != 1:
        return strm_paths(rep, mod, f)
    if f.loops or len(f.blocks) != 1:
        raise AnalysisBroken('igris_strmcrc8 is not straight-line after unrolling (%d blocks)' % len(f.blocks))
    ev = BlockEval(f, mod)
    ev.env[('a', 1)] = BV.sym(8, 'd')
    b = f.blocks[0]
    ev.run_block(b)
    stores = [i for i in b.insts if i.op == 'store']
    where = '%s:%d' % (f.file, f.line)
    if not stores or not ev.loads:
        raise AnalysisBroken('igris_strmcrc8: no load/store of *crc found')
    final = ev.val(stores[-1].ops[0])
    first = ev.loads[0][1]
    cpref = next(iter(first.bits[0]))[:-1]
    got = rename(final, sym_map(cpref, 8, 'c'))
    want = crc_step_ref(BV.sym(8, 'c'), BV.sym(8, 'd'), 0x31, 8, False)
    ok = got == want
    bad = [i for i in range(8) if got.bits[i] != want.bits[i]]
    rep.inst('R-CRCSTEP', 'igris_strmcrc8', 'step==definition(poly=0x31,msb-first)', ok, where,
             None if ok else 'streaming CRC-8 step differs from the MSB-first polynomial 0x31 definition in bit(s) %s' % bad)
    # residue property: step depends only on c ^ d and maps 0 to 0  =>  crc(m . crc(m)) == 0
    lin = all(ONE not in b_ for b_ in got.bits) and all(
        (('c%d' % k) in b_) == (('d%d' % k) in b_) for b_ in got.bits for k in range(8))
    rep.inst('R-CRCSTEP', 'igris_strmcrc8', 'residue-zero(f(c,d)=L(c^d),L(0)=0)', lin, where,
             None if lin else 'the step is not a linear function of crc XOR byte: message followed by its CRC does not give 0')


def word_rule(rep, mod):
    """igris_crc32: word-wise MSB-first CRC-32 (poly 0x04C11DB7) over little-endian words assembled from bytes"""
    f = mod.fn('igris_crc32')
    if f is None or f.decl:
        raise AnalysisBroken('igris_crc32 not found')
    where = '%s:%d' % (f.file, f.line)
    n = 0
    for b in f.blocks:
        xs = [i for i in b.insts if i.op == 'load' and i.bits == 32 and i.ops[0].k == 'inst' and
              f.insts[i.ops[0].id].op == 'getelementptr' and f.insts[i.ops[0].id].ops[0].k == 'global']
        if len(xs) < 8:
            continue
        # a block performing the 8 nibble steps
        ev = BlockEval(f, mod)
        for ph in [i for i in b.insts if i.op == 'phi' and i.ty.get('k') == 'int']:
            ev.env[('i', ph.id)] = BV.sym(ph.bits, 'phi:%s.' % (ph.name or ph.id))
        from gf2 import TableNotAffine
        try:
            ev.run_block(b)
        except TableNotAffine as e:
            n += 1
            rep.inst('R-CRCSTEP', 'igris_crc32', 'word-step:lookup-table', False, where, e.detail())
            continue
        # result: last 32-bit value computed in the block that is used by a phi / outside
        outs = [i for i in b.insts if i.op == 'xor' and i.bits == 32]
        if not outs:
            continue
        res = ev.val(V({'k': 'inst', 'id': outs[-1].id}))
        syms = res.syms() - {ONE}
        prefixes = sorted(set(s.rstrip('0123456789') for s in syms))
        byte_loads = [(i, v) for (i, v) in ev.loads if i.bits == 8]
        word_loads = [(i, v) for (i, v) in ev.loads if i.bits == 32]
        crcp = [p for p in prefixes if p.startswith('phi:crc') or p.startswith('phi:')]
        n += 1
        tag = 'body' if byte_loads or word_loads else 'tail'
        # canonical naming: register c, message word w
        m = {}
        reg = [p for p in prefixes if p.startswith('phi:') and 'crc' in p]
        if len(reg) != 1:
            # the step is written in a form this rule cannot decompose; the whole-function evaluation (R-CRCWHOLE) decides igris_crc32 for
            # fixed lengths in any form
            raise AnalysisBroken('igris_crc32 word step (%s): ' % tag + ('cannot identify the CRC register among %s' % prefixes))
        m.update(sym_map(reg[0], 32, 'c'))
        if word_loads:
            rep.inst('R-CRCSTEP', 'igris_crc32', 'word-step:%s' % tag, False, b.insts[0].where(),
                     'the message is read as whole 32-bit words through the data pointer (alignment and '
                     'length-of-tail dependent)')
            continue
        if byte_loads:
            lanes = {}
            for (ld, v) in byte_loads:
                lane = lane_of(f, ld)
                if lane is None or lane in lanes:
                    lanes = None
                    break
                lanes[lane] = v
            if not lanes or sorted(lanes) != [0, 1, 2, 3]:
                # the step is written in a form this rule cannot decompose; the whole-function evaluation (R-CRCWHOLE) decides igris_crc32 for
                # fixed lengths in any form
                raise AnalysisBroken('igris_crc32 word step (%s): ' % tag + ('cannot map the byte loads to the four lanes of a word'))
            for lane, v in lanes.items():
                pref = next(iter(v.bits[0]))[:-1]
                for k in range(8):
                    m['%s%d' % (pref, k)] = frozenset(['w%d' % (8 * lane + k)])
        else:
            other = [p for p in prefixes if p != reg[0]]
            if len(other) != 1:
                # the step is written in a form this rule cannot decompose; the whole-function evaluation (R-CRCWHOLE) decides igris_crc32 for
                # fixed lengths in any form
                raise AnalysisBroken('igris_crc32 word step (%s): ' % tag + ('tail step depends on %s' % other))
            m.update(sym_map(other[0], 32, 'w'))
        got = rename(res, m)
        want = crc_step_ref(BV.sym(32, 'c'), BV.sym(32, 'w'), 0x04C11DB7, 32, False, nbits=32)
        ok = got == want
        bad = [i for i in range(32) if got.bits[i] != want.bits[i]]
        rep.inst('R-CRCSTEP', 'igris_crc32', 'word-step:%s==definition(poly=0x04C11DB7,msb-first)' % tag, ok,
                 b.insts[0].where(),
                 None if ok else 'CRC-32 word step (%s) differs from the definition in register bit(s) %s' % (tag, bad[:8]))
    if n < 2:
        raise AnalysisBroken('igris_crc32: expected a body and a tail step of 8 nibble look-ups each, found %d (form not recognised; '
                             'R-CRCWHOLE decides the function for fixed lengths)' % n)


def lane_of(f, ld):
    """byte lane = constant addend of the index expression of the load address"""
    a = f.inst_of(ld.ops[0])
    if a is None or a.op != 'getelementptr':
        return None
    idx = [s for s in a.d['gep']['steps'] if s['k'] == 'index']
    if not idx:
        return None
    v = V(idx[-1]['v'])
    for _ in range(4):
        if v.k == 'ci':
            return v.uval % 4
        i = f.inst_of(v)
        if i is None:
            return None
        if i.op in ('zext', 'sext'):
            v = i.ops[0]
            continue
        if i.op in ('add', 'or') and i.ops[1].k == 'ci':
            return i.ops[1].uval % 4
        if i.op in ('mul', 'shl'):
            return 0
        return None
    return None


def run(rep, repo, tier):
    rep.explanation = (
        'Each CRC routine is lowered with full unrolling of its fixed 8-iteration bit loops; the per-byte (per-word) '
        'update step is then evaluated in a GF(2)-affine bit-vector domain, giving the exact transformer '
        '(register, data) -> register for ALL inputs, table look-ups included (tables are proved affine in their '
        'index). It must equal the transformer generated from the mathematical definition (Dallas CRC-8 reflected '
        '0x8C for both the bit-serial and the 2x16-table routine, CRC-16 0x1021, MMC CRC-7 0x09, streaming CRC-8 '
        '0x31, CRC-32 0x04C11DB7 word-wise). Fold structure (seeded from the parameter, result returned) gives '
        'chunked == one-shot; linearity in crc^byte gives residue 0. Abstract interpretation proves every data read '
        'is a byte inside [data, data+length). Additionally, for fixed lengths 0..9 (CRC-32: up to 13) the whole function is '
        'evaluated in the same domain with symbolic seed and data: it must equal the definition folded over the bytes, and '
        'its control flow must not depend on data values.')
    rep.assumptions += ['the bit loops have a fixed trip count that LLVM unrolls completely (otherwise analysis-broken)',
                        'data points to at least length bytes']
    src = repo + '/igris/util/crc.c'
    mod = compile_ir(src, repo, passes=UNROLL_PASSES, opt_args=UNROLL_ARGS, inline=True)
    rep.units.append('igris/util/crc.c (unrolled)')
    for fname, width, poly, refl, seed, note, sb, shift in (
            ('igris_crc8', 8, 0x8C, True, 'crc_init', 'Dallas/Maxim', None, 0),
            ('igris_crc8_table', 8, 0x8C, True, 'crc_init', 'Dallas/Maxim, 2x16 nibble table', None, 0),
            ('igris_crc16', 16, 0x1021, False, 'crc_init', 'CCITT', None, 0),
            ('igris_mmc_crc7', 8, 0x09, False, None, 'MMC/SD', 7, 1)):
        r = check_step(rep, mod, fname, width, poly, refl, note, sb)
        if r:
            fold_rule(rep, *r, seed_param=seed, shift=shift)
    try:
        word_rule(rep, mod)
    except AnalysisBroken as e:
        rep.defer_broken(e)      # R-CRCWHOLE below still decides igris_crc32 for fixed lengths
    whole_rule(rep, mod, 'igris_crc8', 8, 0x8C, True, 'crc_init', 'data', 'len')
    whole_rule(rep, mod, 'igris_crc8_table', 8, 0x8C, True, 'crc_init', 'addr', 'len')
    whole_rule(rep, mod, 'igris_crc16', 16, 0x1021, False, 'crc_init', 'data', 'length')
    whole_rule(rep, mod, 'igris_mmc_crc7', 8, 0x09, False, None, 'message', 'length', state_bits=7)
    whole_rule(rep, mod, 'igris_crc32', 32, 0x04C11DB7, False, 'crc_init', 'data', 'length', word=True,
               lengths=(0, 1, 2, 3, 4, 5, 6, 7, 8, 9, 12, 13))
    modw = compile_ir(os.path.join(WIT, 'w_crc.c'), repo, passes=UNROLL_PASSES, opt_args=UNROLL_ARGS)
    rep.units.append('witness/w_crc.c -> igris/util/crc.h (unrolled)')
    strm_rule(rep, modw)
    # memory safety / access width of the data reads (plain lowering, abstract interpretation)
    modp = compile_ir(src, repo)
    specs = {
        'igris_crc8': FnSpec(extents={'data': 'len'}),
        'igris_crc8_table': FnSpec(extents={'addr': 'len'}),
        'igris_crc16': FnSpec(extents={'data': 'length'}),
        'igris_mmc_crc7': FnSpec(extents={'message': 'length'}),
        'igris_crc32': FnSpec(extents={'data': 'length'}),
    }
    it, run_ = run_contracts(rep, 'R-CRCREAD', modp, [], specs)
    # width rule: every load through the data pointer is one byte
    for fname in specs:
        f = modp.fn(fname)
        for i in f.all_insts():
            if i.op == 'load' and i.ty.get('k') == 'int' and i.ops[0].k == 'inst':
                a = f.insts[i.ops[0].id]
                root = a
                for _ in range(8):
                    if root.op in ('getelementptr', 'bitcast') and root.ops[0].k == 'inst':
                        root = f.insts[root.ops[0].id]
                    else:
                        break
                base = root.ops[0] if root.op in ('getelementptr', 'bitcast') else None
                from_param = (base is not None and base.k == 'arg') or (root.op == 'phi' and root.ty.get('k') == 'ptr')
                if from_param and f.params[base.argno]['ty']['k'] == 'ptr' if (base is not None and base.k == 'arg') else from_param:
                    rep.inst('R-CRCWIDTH', fname, 'data-load-width', i.bits == 8, i.where(),
                             None if i.bits == 8 else 'a %d-bit load through the data pointer (needs alignment, reads past '
                             'a short tail)' % i.bits)
    rep.floor('R-CRCSTEP', 8)
    rep.floor('R-CRCWHOLE', 40)
    rep.floor('R-FOLD', 8)
    rep.floor('R-CRCREAD:bounds', 5)
    rep.floor('R-CRCWIDTH', 5)
