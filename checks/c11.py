"""C11 libc shim: strto*/ato* scanners, qsort, bsearch (+ rand as used by qsort).

Technique: abstract interpretation of the functions' LLVM IR (C-string model, scenario texts,
per-base cut-off arithmetic on the edges of the digit loop, comparator calls as hooks), IR
dataflow rules (sibling facts, who-writes-the-array, swap shape) - no execution of igris code.
"""
import os
import sys
import time
from irlib import keep_all_but_new_helpers
from concurrent.futures import ProcessPoolExecutor
import multiprocessing

from common import *
from irlib import V, AnalysisBroken
from absval import IntVal, PtrVal, CondVal, mk_const, NULL
from lin import Lin
import c11_scan as S
import c11_sort as Q

NOCTYPE = LIBC_FLAGS + ['-D__NO_CTYPE']     # ctype predicates stay calls (summarised by their closed forms)

SCANNERS = [
    # name, unit
    ('strtol', 'compat/libc/stdlib/strtol.c'),
    ('strtoul', 'compat/libc/stdlib/strtoul.c'),
    ('strtoll', 'compat/libc/stdlib/strtoll.c'),
    ('strtoull', 'compat/libc/stdlib/strtoull.c'),
    ('strtoimax', 'compat/libc/inttypes/strtoimax.c'),
    ('strtoumax', 'compat/libc/inttypes/strtoumax.c'),
]
ATOL_UNIT = 'compat/libc/stdlib/atol.c'

QUICK_BASES = [0, 2, 8, 10, 16, 36]
ALL_BASES = [0] + list(range(2, 37))


def scan_unit(repo, rel):
    return compile_ir(os.path.join(repo, rel), repo, NOCTYPE, lang='c', inline=keep_all_but_new_helpers())


LLP64_INC = os.path.join(WIT, 'w_c11_llp64')


def llp64_unit(repo, rel):
    """the same source lowered for a data model in which long (32 bit) is narrower than intmax_t /
    long long (64 bit) - as on the 32-bit MCUs the shim is written for - while pointers stay 64 bit
    (the interpreter's assumption).  Freestanding: declarations come from witness/w_c11_llp64."""
    if not os.path.isdir(LLP64_INC):
        raise AnalysisBroken('witness/w_c11_llp64 missing')
    flags = ['--target=x86_64-w64-windows-gnu', '-ffreestanding', '-nostdlibinc', '-isystem', LLP64_INC,
             '-fno-builtin', '-D__weak_alias(a,b)=']
    return compile_ir(os.path.join(repo, rel), repo, flags, lang='c', out_name='llp64_' + rel.replace('/', '_'),
                      inline=keep_all_but_new_helpers())


def ret_type(f):
    """(width, signed) of the function result, from IR + debug info"""
    w = f.ret.get('bits')
    dit = f.d.get('ditypes') or []
    if w is None or not dit or dit[0].get('signed') not in (0, 1):
        raise AnalysisBroken('%s: integer result type not resolvable' % f.name)
    return w, dit[0]['signed'] == 1


def ext_errno(interp, st, i, args):
    o = interp.named_obj(st, 'errno-cell', 'global', Lin(4), {'desc': 'errno'})
    return [(st, PtrVal(o.id, Lin(0)))]


SCAN_EXT = {'__errno_location': ext_errno}


# ----------------------------------------------------------------------
# R-SCAN: general texts
# ----------------------------------------------------------------------
END_POST = [dict(name='endptr-inside-text', then=['ghost_end_in_text == 1', 'ghost_end >= 0', 'ghost_end <= len_arg0',
                                                   'ghost_end_stores == 1'])]

BASE_CLASSES = [('base=0', ['arg2 == 0']), ('base=16', ['arg2 == 16']),
                ('base in 2..15', ['arg2 >= 2', 'arg2 <= 15']), ('base in 17..36', ['arg2 >= 17', 'arg2 <= 36'])]


def job_scan(a):
    """one scanner, every text, one class of bases: reads stay inside the string (terminator
    included), *endptr receives a pointer into [text, text+len]"""
    repo, fname, rel, cls, pre, null_end = a
    import absint
    absint.MAX_STATES = 4000
    mod = scan_unit(repo, rel)
    it = S.ScanInterp(mod, externals=dict(S.COARSE_EXT, **SCAN_EXT))
    it.store_hook = S.end_store_hook
    run = ContractRun(it, [])
    if fname in ('atol', 'atoi'):
        run.run(fname, FnSpec(setup=S.text_setup(endptr=None)))
    elif null_end:
        run.run(fname, FnSpec(pre=pre, setup=S.text_setup(endptr='null')))
    else:
        run.run(fname, FnSpec(pre=pre, setup=S.text_setup(), post=END_POST))
    obs = S.summarize_sites(it, run)
    return [('absint', 'R-SCAN', obs, dict(loops=it.loops_seen, checked=it.checked, unchecked=it.unchecked,
                                           unknown=sorted(it.unknown_calls)))]


# ----------------------------------------------------------------------
# R-PARSE: closed forms on scenario texts
# ----------------------------------------------------------------------
DIG = (48, 57)
NZD = (49, 57)
OCT = (48, 55)
SP = (9, 13)
PUNCT = (33, 47)          # ! .. / : never a digit in any base (contains + and -)
AF = (97, 102)
AFU = (65, 70)
GZ = (103, 122)
GZU = (71, 90)


def show(chars, open_ended):
    out = []
    for ch in chars:
        if isinstance(ch, int):
            out.append(chr(ch) if 33 <= ch < 127 else '\\x%02x' % ch)
        else:
            out.append('[%s-%s]' % tuple((chr(x) if 33 <= x < 127 else '\\x%02x' % x) for x in ch))
    return '"' + ''.join(out) + ('..."' if open_ended else '"')


def scenarios(signed, w):
    """(base, chars, open_ended, value expression, end offset).  In value expressions c<k> is the
    character at offset k.  ISO C 7.22.1.4: optional white space, optional sign, optional 0x/0X
    (base 16 or 0), digits below the base; the end pointer addresses the first character that is
    not part of that subject sequence, or the start of the text when the subject is empty."""
    # negative texts: for the unsigned siblings ISO C negates in the result type; the contract layer
    # binds 'ret' to the two's complement (signed) reading of such a value, so the same closed form
    # -(value) states "ret == 2^w - value" for them
    neg1 = '48 - c1'

    def negv(expr):
        return '-(%s)' % expr
    sc = [
        (10, [DIG], False, 'c0 - 48', 1),
        (10, [DIG, DIG], False, '10 * (c0 - 48) + c1 - 48', 2),
        (10, [DIG, DIG, DIG], False, '100 * (c0 - 48) + 10 * (c1 - 48) + c2 - 48', 3),
        (10, [ord('-'), NZD], False, neg1, 2),
        (10, [ord('-'), 48], False, '0', 2),
        (10, [ord('+'), DIG], False, 'c1 - 48', 2),
        (10, [SP, DIG], False, 'c1 - 48', 2),
        (10, [32, DIG], False, 'c1 - 48', 2),
        (10, [32, SP, ord('-'), NZD], False, '48 - c3', 4),
        (10, [DIG, PUNCT], True, 'c0 - 48', 1),
        (10, [DIG, (58, 64)], True, 'c0 - 48', 1),
        (10, [DIG, (65, 90)], True, 'c0 - 48', 1),
        (10, [DIG, (97, 122)], True, 'c0 - 48', 1),
        (10, [DIG, 32], True, 'c0 - 48', 1),
        (10, [], False, '0', 0),
        (10, [PUNCT], True, '0', 0) if False else (10, [(33, 42)], True, '0', 0),
        (10, [(58, 255)], True, '0', 0),
        (10, [ord('-')], False, '0', 0),
        (10, [ord('+')], False, '0', 0),
        (10, [32], False, '0', 0),
        (10, [ord('-'), PUNCT], True, '0', 0),
        (10, [ord('+'), ord('-'), DIG], True, '0', 0),
        (10, [48, ord('x'), DIG], True, '0', 1),
        # base 16
        (16, [DIG], False, 'c0 - 48', 1),
        (16, [AF], False, 'c0 - 87', 1),
        (16, [AFU], False, 'c0 - 55', 1),
        (16, [AF, AFU], False, '16 * (c0 - 87) + c1 - 55', 2),
        (16, [GZ], True, '0', 0),
        (16, [GZU], True, '0', 0),
        (16, [48, ord('x'), AF], False, 'c2 - 87', 3),
        (16, [48, ord('X'), AFU], False, 'c2 - 55', 3),
        (16, [48, ord('x'), DIG, DIG], False, '16 * (c2 - 48) + c3 - 48', 4),
        (16, [ord('-'), 48, ord('x'), (49, 57)], False, negv('c3 - 48'), 4),
        (16, [48], False, '0', 1),
        (16, [48, DIG], False, 'c1 - 48', 2),
        (16, [48, ord('x')], False, '0', 1),                 # "0x": the subject sequence is "0"
        (16, [48, ord('x'), GZ], True, '0', 1),
        (16, [48, ord('X'), PUNCT], True, '0', 1),
        (16, [ord('-'), 48, ord('x'), GZ], True, '0', 2),
        # base 0
        (0, [NZD], False, 'c0 - 48', 1),
        (0, [NZD, DIG], False, '10 * (c0 - 48) + c1 - 48', 2),
        (0, [NZD, AF], True, 'c0 - 48', 1),
        (0, [48], False, '0', 1),
        (0, [48, OCT], False, 'c1 - 48', 2),
        (0, [48, OCT, OCT], False, '8 * (c1 - 48) + c2 - 48', 3),
        (0, [48, (56, 57)], True, '0', 1),
        (0, [48, ord('x'), AF], False, 'c2 - 87', 3),
        (0, [48, ord('X'), DIG, AFU], False, '16 * (c2 - 48) + c3 - 55', 4),
        (0, [ord('-'), 48, (49, 55)], False, negv('c2 - 48'), 3),
        (0, [48, ord('x')], False, '0', 1),
        (0, [48, ord('x'), GZ], True, '0', 1),
        (0, [48, ord('X'), 32], True, '0', 1),
        (0, [ord('+'), 48, ord('x'), GZU], True, '0', 2),
        (0, [AF], True, '0', 0),
        # other bases
        (2, [(48, 49)], False, 'c0 - 48', 1),
        (2, [(48, 49), (48, 49), (48, 49)], False, '4 * (c0 - 48) + 2 * (c1 - 48) + c2 - 48', 3),
        (2, [(50, 57)], True, '0', 0),
        (2, [49, (50, 57)], True, '1', 1),
        (8, [OCT, (56, 57)], True, 'c0 - 48', 1),
        (8, [48, ord('x'), DIG], True, '0', 1),
        (36, [(97, 122)], False, 'c0 - 87', 1),
        (36, [(65, 90)], False, 'c0 - 55', 1),
        (36, [(97, 122), DIG], False, '36 * (c0 - 87) + c1 - 48', 2),
        (36, [48, ord('x')], False, '33', 2),                 # no prefix outside base 0/16: 'x' is digit 33
        (11, [ord('a')], False, '10', 1),
        (11, [ord('b')], True, '0', 0),
        (35, [ord('y')], False, '34', 1),
        (35, [ord('Z')], True, '0', 0),
    ]
    return sc


ATOL_SCENARIOS = [
    ([DIG], False, 'c0 - 48'),
    ([DIG, DIG], False, '10 * (c0 - 48) + c1 - 48'),
    ([DIG, DIG, DIG], False, '100 * (c0 - 48) + 10 * (c1 - 48) + c2 - 48'),
    ([ord('-'), DIG], False, '48 - c1'),
    ([ord('+'), DIG], False, 'c1 - 48'),
    ([SP, DIG], False, 'c1 - 48'),
    ([32, SP, ord('-'), DIG], False, '48 - c3'),
    ([DIG, PUNCT], True, 'c0 - 48'),
    ([DIG, (58, 255)], True, 'c0 - 48'),
    ([], False, '0'),
    ([(33, 42)], True, '0'),
    ([(58, 255)], True, '0'),
    ([ord('-')], False, '0'),
    ([ord('-'), ord('-'), DIG], True, '0'),
    ([ord('+'), 32, DIG], True, '0'),
]


def job_parse(a):
    repo, fname, rel = a
    mod = scan_unit(repo, rel)
    f = mod.fn(fname)
    if f is None or f.decl:
        raise AnalysisBroken('%s not defined in %s (anchor vanished)' % (fname, rel))
    w, signed = ret_type(f)
    it = S.ScanInterp(mod, externals=SCAN_EXT)
    it.store_hook = S.end_store_hook
    run = ContractRun(it, [])
    if fname in ('atol', 'atoi'):
        for (chars, op, val) in ATOL_SCENARIOS:
            name = 'text %s' % show(chars, op)
            run.run(fname, FnSpec(setup=S.text_setup(chars, op, endptr=None),
                                  post=[dict(name=name, then=['ret == ' + val])]))
    else:
        for (base, chars, op, val, end) in scenarios(signed, w):
            name = 'base %d text %s' % (base, show(chars, op))
            run.run(fname, FnSpec(setup=S.text_setup(chars, op, base=base),
                                  post=[dict(name=name, then=['ret == ' + val, 'ghost_end == %d' % end])]))
    obs = [o for o in S.summarize_sites(it, run) if o['kind'] in ('post', 'returns')]
    return [('absint', 'R-PARSE', obs, dict(loops=it.loops_seen, checked=it.checked, unchecked=it.unchecked,
                                            unknown=sorted(it.unknown_calls)))]


# ----------------------------------------------------------------------
# R-CUTOFF: overflow detection arithmetic, per base
# ----------------------------------------------------------------------
def job_cutoff(a):
    repo, fname, rel, bases, model = a
    mod = scan_unit(repo, rel) if model == 'LP64' else llp64_unit(repo, rel)
    out = []
    for b in bases:
        for neg in (0, 1):
            out.extend(S.cutoff_run(mod, fname, b, neg, SCAN_EXT, model))
    return [('inst', 'R-CUTOFF', out, {})]


# ----------------------------------------------------------------------
# R-SORT jobs
# ----------------------------------------------------------------------
def job_sort(a):
    repo, what = a
    return Q.run_job(repo, what)


JOBS = {'scan': job_scan, 'parse': job_parse, 'cutoff': job_cutoff, 'sort': job_sort}


def _dispatch(j):
    kind, a = j
    try:
        return ('ok', JOBS[kind](a))
    except AnalysisBroken as e:
        return ('broken', '%s %r: %s' % (kind, a[1:3], e))


def run_jobs(jobs):
    n = min(len(jobs), max(2, min(12, (os.cpu_count() or 4))))
    if os.environ.get('VERIF_C11_SERIAL'):
        return [_dispatch(j) for j in jobs]
    ctx = multiprocessing.get_context('fork')
    with ProcessPoolExecutor(max_workers=n, mp_context=ctx) as ex:
        return list(ex.map(_dispatch, jobs))


# ----------------------------------------------------------------------
def run(rep, repo, tier):
    rep.explanation = (
        'strto* (six siblings), atol/atoi: (R-SCAN) abstract interpretation under a C-string model proves for every '
        'text and every base 0, 2..36 that each byte read lies inside the string (terminator included), that a '
        'non-null endptr receives exactly one pointer into [text, text+len] and a null endptr is never written; '
        '(R-PARSE) for about 70 scenario texts per function (symbolic digits, white space, signs, 0x/0 prefixes, '
        'stopper characters, open-ended tails, bases 0/2/8/10/11/16/35/36) the returned value and the end offset '
        'equal the ISO C closed form; (R-CUTOFF) on the edges of the digit loop, for each base: a digit is below the '
        'base, an accepted digit updates the accumulator to acc*base+-digit without wrap-around and inside the range '
        'of the result type, a rejected digit really overflows that range, the overflow flag is sticky and the value '
        'returned with the flag set is the type limit of the right sign (limits taken from the IR result type); '
        '(R-SIBLING) prefix/sign/digit constants extracted from the IR agree across the six siblings; (R-CTYPE) the '
        'closed forms used for isspace/isdigit/isalpha/isupper are proved from the bundled ctype.h. '
        'bsearch/lower_bound/upper_bound: every element handed to the comparator lies inside [base, base+nmemb*size) '
        'for size 1, 4, 12, the key is the first comparator argument, nothing is compared on an empty array, a '
        'non-null result is the element of the last comparison, which returned 0. qsort: all writes to the array go '
        'through swap(), which exchanges two whole elements (permutation), every write and every recursive sub-range '
        'stays inside the array for ANY comparator, the three-element network only touches elements 0..nmemb-1; '
        'rand() yields 0..RAND_MAX-compatible non-negative values. NOT decided: values of texts longer than the '
        'scenarios (beyond the per-step arithmetic), errno, that qsort output is ordered, that the scans of the '
        'partition loop stay inside the array (needs comparator consistency), bsearch finding a present key.')
    rep.assumptions += ['LP64 host lowering (long = 64 bit); the limits are recomputed from the IR result type',
                        'ctype predicates behave like the closed forms proved for igris/util/ctype.h (C locale)',
                        'the comparator passed to bsearch/qsort does not modify the array or the key',
                        'size * nmemb does not overflow size_t (nmemb <= 2^31, size in {1,4,12})']
    bases = QUICK_BASES if tier == 'quick' else ALL_BASES
    jobs = []
    for (fname, rel) in SCANNERS:
        for (cls, pre) in BASE_CLASSES:
            jobs.append(('scan', (repo, fname, rel, cls, pre, False)))
        jobs.append(('scan', (repo, fname, rel, 'null endptr', ['arg2 >= 2', 'arg2 <= 15'], True)))
        jobs.append(('parse', (repo, fname, rel)))
        step = 6
        for model in ('LP64', 'LLP64'):
            for k in range(0, len(bases), step):
                jobs.append(('cutoff', (repo, fname, rel, bases[k:k + step], model)))
    for fname in ('atol', 'atoi'):
        jobs.append(('scan', (repo, fname, ATOL_UNIT, 'any', [], False)))
        jobs.append(('parse', (repo, fname, ATOL_UNIT)))
    for what in Q.JOBS:
        jobs.append(('sort', (repo, what)))
    # long jobs first
    order = {'scan': 0, 'cutoff': 1, 'parse': 2, 'sort': 3}
    jobs.sort(key=lambda j: order[j[0]])
    results = run_jobs(jobs)
    stats = {'loops': 0, 'checked': 0, 'unchecked': 0, 'unknown': set()}
    for (status, payload) in results:
        if status == 'broken':
            raise AnalysisBroken(payload)
        for (kind, rule, items, st) in payload:
            if kind == 'absint':
                rep.add_absint(rule, items)
            else:
                for (r, fn, key, ok, where, detail) in items:
                    rep.inst(r, fn, key, ok, where, detail)
            stats['loops'] += st.get('loops', 0)
            stats['checked'] += st.get('checked', 0)
            stats['unchecked'] += st.get('unchecked', 0)
            stats['unknown'] |= set(st.get('unknown', ()))
    rep.extra['absint'] = {'accesses_checked': stats['checked'],
                           'accesses_without_known_extent': stats['unchecked'],
                           'loops_closed_by_invariant': stats['loops'],
                           'external_calls_with_unknown_effects': sorted(stats['unknown'])}
    for (fname, rel) in SCANNERS:
        rep.units.append(rel)
    rep.units += [ATOL_UNIT, 'compat/libc/stdlib/bsearch.c', 'compat/libc/stdlib/qsort.c', 'compat/libc/stdlib/rand.c',
                  'witness/w_c11_ctype.c -> compat/libc/include/ctype.h, igris/util/ctype.h']
    S.sibling_rule(rep, repo, SCANNERS, scan_unit)
    S.ctype_rule(rep, repo)
    S.forward_rule(rep, repo, scan_unit(repo, ATOL_UNIT))
    Q.ir_rules(rep, repo)
    rep.floor('R-SCAN:bounds', 30)
    rep.floor('R-SCAN:post', 24)
    rep.floor('R-PARSE:post', 6 * 120 + 25)
    rep.floor('R-CUTOFF', 2 * 6 * len(bases) * 2 * 6)
    rep.floor('R-SIBLING', 30)
    rep.floor('R-CTYPE:post', 16)
    rep.floor('R-FORWARD', 2)
    Q.floors(rep)
    import c11_order
    c11_order.run_ext(rep, repo, tier)

