"""C11 helpers: bsearch / lower_bound / upper_bound / qsort / rand.

The comparator is an indirect call.  It is modelled by a hook that (a) emits the obligations
on the pointers handed to it (element inside the array, key first), (b) returns an unknown
int and leaves memory unchanged (ISO C: the comparator shall not modify the array).  Element
sizes are fixed per run (the extent nmemb*size is then linear); cursors into the array are
abstracted with stride = element size so that alignment is part of the loop invariants.
"""
import os
from irlib import keep_all_but_new_helpers
from common import *
from irlib import AnalysisBroken
from absval import IntVal, PtrVal, CondVal, mk_const, NULL
from lin import Lin
from c11_scan import summarize_sites

SIZES = [1, 4, 12]
NMAX = 1 << 31

JOBS = (['bsearch:%d' % k for k in SIZES] + ['bsearch-empty:4', 'bsearch-empty:1'] +
        ['lower_bound:4', 'upper_bound:4'] +
        ['qsort-small:%d' % k for k in SIZES] + ['qsort-part:%d' % k for k in SIZES] + ['rand'])


class SortInterp(Interp):
    def __init__(self, mod, elem, externals=None):
        Interp.__init__(self, mod, externals=externals)
        self.elem = elem

    def build_head(self, st, fn, L, phis, inits, modified, smashed, signs=None):
        H, newsyms = Interp.build_head(self, st, fn, L, phis, inits, modified, smashed, signs)
        K = self.elem
        if K > 1:
            out = []
            for n in newsyms:
                (xl, init, what, w, signed) = n
                if what[0] == 'pphi' and what[2] == 1 and not (signs or {}).get(('pstride', what[1].id)):
                    ph = what[1]
                    iv = inits[ph.id]
                    o = st.objs.get(iv.obj) if isinstance(iv, PtrVal) else None
                    if o is not None and o.info.get('role') == 'array':
                        pv = H.env[('i', ph.id)]
                        H.env[('i', ph.id)] = PtrVal(pv.obj, iv.off + xl * K, pv.lo, pv.hi, pv.nonnull)
                        n = (xl, init, ('pphi', ph, K, iv.off), w, signed)
                out.append(n)
            newsyms = out
        return H, newsyms


def role_of(st, p):
    if isinstance(p, PtrVal) and p.obj is not None:
        o = st.objs.get(p.obj)
        if o is not None:
            return o.info.get('role')
    return None


def icall_sites(f):
    sites = {}
    n = 0
    for b in f.blocks:
        for i in b.insts:
            if i.op == 'call' and i.callee is None and i.d.get('callee', {}).get('k') != 'asm':
                n += 1
                sites[i.id] = n
    return sites


def make_setup(roles, size_arg, K):
    def setup(run, st, env, pnames, args, sps):
        for idx, role in roles.items():
            p = args[idx]
            o = st.objs[p.obj]
            o.info['role'] = role
            o.info['desc'] = {'array': 'the array', 'key': 'the key object'}.get(role, role)
        args[size_arg] = mk_const(64, K)
    return setup


def ext_rand(interp, st, i, args):
    r = st.fresh_int(32, True, 'rand')
    st.cons.add_le(0, r.s)                   # R-RAND proves 0 <= rand() from rand.c
    return [(st, r)]


def comparator_hook(K, sites, check_elems, key_role_first):
    """call_hook for the indirect comparator calls of one function"""
    def hook(interp, st, i, callee, args):
        if callee is not None or len(args) != 2:
            return None
        site = 'comparator call #%d' % sites.get(i.id, 0)
        r0, r1 = role_of(st, args[0]), role_of(st, args[1])
        if key_role_first:
            ok = r0 == 'key' and isinstance(args[0], PtrVal) and args[0].off.is_const() and args[0].off.c == 0 \
                and r1 == 'array'
            interp.oblige('keyfirst', i, ok,
                          None if ok else 'the comparator is called as compar(%s, %s); ISO C 7.22.5.1: the first argument '
                          'is the key, the second an array element' % (r0 or 'other pointer', r1 or 'other pointer'), site)
        for n, (a, r) in enumerate(((args[0], r0), (args[1], r1))):
            if r != 'array':
                continue
            o = st.objs[a.obj]
            if check_elems:
                ok = o.size is not None and st.cons.entails_le(0, a.off) and st.cons.entails_le(a.off + K, o.size)
                interp.oblige('bounds:compar-elem', i, ok,
                              None if ok else 'element pointer (argument %d, offset %r) handed to the comparator is not '
                              'provably inside the array of %r bytes%s' % (n, a.off, o.size, interp.explain(st, [a.off, o.size])),
                              site)
            if o.size is not None and check_elems:
                st.cons.add_le(0, a.off)
                st.cons.add_le(a.off + K, o.size)
            st.ghost['last_elem'] = a.off
        r = st.fresh_int(32, True, 'cmp')
        st.ghost['last_res'] = r.s
        st.ghost['ncmp'] = st.ghost.get('ncmp', 0) + 1
        return [(st, r)]
    return hook


def bsearch_job(repo, fname, K, empty):
    mod = libc_unit(repo, 'compat/libc/stdlib/bsearch.c', inline=keep_all_but_new_helpers())
    f = mod.fn(fname)
    if f is None or f.decl:
        raise AnalysisBroken('%s not defined in bsearch.c (anchor vanished)' % fname)
    it = SortInterp(mod, K)
    it.call_hook = comparator_hook(K, icall_sites(f), True, not empty)
    run = ContractRun(it, [])
    pre = ['arg2 == 0'] if empty else ['arg2 >= 1', 'arg2 <= %d' % NMAX]
    post = []
    if fname == 'bsearch':
        if empty:
            post = [dict(name='empty array: not found', then=['ret_null == 1'])]
        else:
            post = [dict(name='non-null result is the element of the last comparison, which returned 0',
                         when=['ret_null == 0'],
                         then=['ret_arg == 1', 'ret_off >= 0', 'ret_off + %d <= arg2 * %d' % (K, K),
                               'ret_off == ghost_last_elem', 'ghost_last_res == 0'])]
    run.run(fname, FnSpec(pre=pre, extents={'arg1': 'arg2 * %d' % K}, post=post,
                          setup=make_setup({0: 'key', 1: 'array'}, 3, K)))
    rule = 'R-EMPTY' if empty else 'R-BSEARCH'
    obs = summarize_sites(it, run)
    for o in obs:
        if o['kind'] == 'post':
            o['name'] = 'size %d: %s' % (K, o['name'])
            o['id'] += ':size%d' % K
    return [('absint', rule, obs, dict(loops=it.loops_seen, checked=it.checked, unchecked=it.unchecked,
                                       unknown=sorted(it.unknown_calls)))]


def qsort_job(repo, K, part):
    mod = libc_unit(repo, 'compat/libc/stdlib/qsort.c', inline=keep_all_but_new_helpers(('swap',)))
    f = mod.fn('qsort')
    if f is None or f.decl:
        raise AnalysisBroken('qsort not defined in qsort.c (anchor vanished)')
    it = SortInterp(mod, K, externals={'rand': ext_rand})
    cmp_hook = comparator_hook(K, icall_sites(f), not part, False)
    stats = {'rec': 0}

    def hook(interp, st, i, callee, args):
        if callee == 'qsort':
            stats['rec'] += 1
            a0, cnt = args[0], args[1]
            ok = False
            detail = 'recursive call on a pointer that is not inside the array'
            n = 'recursive call #%d' % rec_sites.get(i.id, 0)
            if role_of(st, a0) == 'array' and isinstance(cnt, IntVal):
                o = st.objs[a0.obj]
                c = st.force_u(cnt)
                ok = st.cons.entails_le(0, a0.off) and st.cons.entails_le(a0.off + c * K, o.size)
                detail = None if ok else ('recursive qsort(array + %r, %r elements) is not provably inside the array of %r '
                                          'bytes%s' % (a0.off, c, o.size, interp.explain(st, [a0.off, c, o.size])))
                interp.oblige('recursion-range', i, ok, detail, n)
                sz = interp.val(st, i.ops[2], i.fn)
                interp.oblige('recursion-size', i, isinstance(sz, IntVal) and sz.const() == K,
                              'the element size is not passed on unchanged', n)
                interp.mem_range_write(st, a0, c * K, i)
            else:
                interp.oblige('recursion-range', i, False, detail, n)
            return [(st, None)]
        return cmp_hook(interp, st, i, callee, args)
    rec_sites = {}
    for n, c in enumerate(f.calls('qsort')):
        rec_sites[c.id] = n + 1
    it.call_hook = hook
    run = ContractRun(it, [])
    pre = ['arg1 >= 4', 'arg1 <= %d' % NMAX] if part else ['arg1 <= 3']
    run.run('qsort', FnSpec(pre=pre, extents={'arg0': 'arg1 * %d' % K}, setup=make_setup({0: 'array'}, 2, K)))
    obs = summarize_sites(it, run)
    if part and stats['rec'] == 0:
        raise AnalysisBroken('qsort: no recursive call reached (anchor vanished)')
    return [('absint', 'R-QSORT-PART' if part else 'R-QSORT-SMALL', obs,
             dict(loops=it.loops_seen, checked=it.checked, unchecked=it.unchecked, unknown=sorted(it.unknown_calls)))]


def rand_job(repo):
    mod = libc_unit(repo, 'compat/libc/stdlib/rand.c')
    it = Interp(mod)
    run = ContractRun(it, [])
    run.run('rand', FnSpec(post=[dict(name='0 <= rand() <= RAND_MAX (INT_MAX)', then=['ret >= 0', 'ret <= 2147483647'])]))
    run.run('rand_r', FnSpec(extents={'arg0': '4'},
                             post=[dict(name='0 <= rand_r() <= RAND_MAX (INT_MAX)', then=['ret >= 0', 'ret <= 2147483647'])]))
    return [('absint', 'R-RAND', summarize_sites(it, run), dict(loops=0, checked=it.checked, unchecked=it.unchecked))]


def run_job(repo, what):
    if what == 'rand':
        return rand_job(repo)
    kind, k = what.split(':')
    K = int(k)
    if kind == 'bsearch':
        return bsearch_job(repo, 'bsearch', K, False)
    if kind == 'bsearch-empty':
        return bsearch_job(repo, 'bsearch', K, True)
    if kind in ('lower_bound', 'upper_bound'):
        return bsearch_job(repo, kind, K, False)
    if kind == 'qsort-small':
        return qsort_job(repo, K, False)
    if kind == 'qsort-part':
        return qsort_job(repo, K, True)
    raise AnalysisBroken('unknown job ' + what)


# ----------------------------------------------------------------------
# IR rules: who writes the array, shape of swap
# ----------------------------------------------------------------------
def derived_from(f, roots):
    """SSA keys of pointers derived from the given argument indices (gep/phi/select/bitcast)"""
    s = set(('a', r) for r in roots)
    changed = True
    insts = list(f.all_insts())
    while changed:
        changed = False
        for i in insts:
            k = ('i', i.id)
            if k in s or i.ty.get('k') != 'ptr':
                continue
            if i.op in ('getelementptr', 'bitcast'):
                ok = i.ops[0].k in ('inst', 'arg') and i.ops[0].key() in s
            elif i.op in ('phi', 'select'):
                ops = i.ops[1:] if i.op == 'select' else i.ops
                ok = any(o.k in ('inst', 'arg') and o.key() in s for o in ops)
            else:
                ok = False
            if ok:
                s.add(k)
                changed = True
    return s


WRITERS = ('memcpy', 'memmove', 'memset', 'llvm.memcpy', 'llvm.memmove', 'llvm.memset')


def ir_rules(rep, repo):
    mod = libc_unit(repo, 'compat/libc/stdlib/qsort.c', inline=keep_all_but_new_helpers(('swap',)))
    q = mod.fn('qsort')
    sw = mod.fn('swap')
    if q is None or q.decl:
        raise AnalysisBroken('qsort not defined (anchor vanished)')
    where = '%s:%d' % (q.file, q.line)
    arr = derived_from(q, [0])
    bad = []
    nsw = 0
    for i in q.all_insts():
        if i.op == 'store' and i.ops[1].k in ('inst', 'arg') and i.ops[1].key() in arr:
            bad.append((i, 'store'))
        if i.op == 'call' and i.callee:
            into = [n for n, o in enumerate(i.ops) if o.k in ('inst', 'arg') and o.key() in arr]
            if any(i.callee.startswith(wn) for wn in WRITERS) and 0 in into:
                bad.append((i, i.callee))
            elif i.callee == 'swap':
                nsw += 1
                ok = len(i.ops) == 3 and 0 in into and 1 in into and i.ops[2].k == 'arg' and i.ops[2].argno == 2
                rep.inst('R-PERM', 'qsort', 'swap call #%d exchanges two array elements of size bytes' % nsw, ok, i.where(),
                         None if ok else 'swap is not called with two array positions and the element size')
            elif i.callee not in ('qsort', 'rand') and not i.callee.startswith('llvm.') and into and \
                    not any(i.callee.startswith(wn) for wn in WRITERS):
                bad.append((i, i.callee))
    rep.inst('R-PERM', 'qsort', 'the array is modified only through swap()', not bad and nsw > 0, bad[0][0].where() if bad else where,
             None if not bad and nsw > 0 else 'the array is written by %s outside swap(): the result need not be a permutation'
             % ', '.join(sorted(set(b[1] for b in bad))) if bad else 'no swap call found')
    # key copy: the pivot is copied OUT of the array
    if sw is None or sw.decl:
        rep.inst('R-PERM', 'swap', 'three-copy exchange through a temporary of size bytes', False, where,
                 'static helper swap() not found')
        return
    wsw = '%s:%d' % (sw.file, sw.line)
    cp = [c for c in sw.calls() if c.callee and any(c.callee.startswith(wn) for wn in ('memcpy', 'llvm.memcpy', 'memmove', 'llvm.memmove'))]
    other = [i for i in sw.all_insts() if i.op == 'store' or (i.op == 'call' and i.callee and i not in cp and
                                                               not i.callee.startswith('llvm.stack') and not i.callee.startswith('llvm.dbg'))]

    def kind(v):
        if v.k == 'arg':
            return 'arg%d' % v.argno
        i = sw.inst_of(v)
        while i is not None and i.op in ('bitcast', 'getelementptr') and all(
                s['k'] == 'index' and s['v']['k'] == 'ci' and s['v']['v'] == 0 for s in i.d.get('gep', {}).get('steps', [])):
            v = i.ops[0]
            if v.k == 'arg':
                return 'arg%d' % v.argno
            i = sw.inst_of(v)
        if i is not None and i.op == 'alloca':
            cnt = i.ops[0] if i.ops else None
            if cnt is not None and cnt.k == 'arg' and cnt.argno == 2 and i.d['alloc_ty'].get('size') == 1:
                return 'tmp'
            return 'tmp?'
        return '?'
    seq = [(kind(c.ops[0]), kind(c.ops[1]), kind(c.ops[2])) for c in cp]
    want1 = [('tmp', 'arg1', 'arg2'), ('arg1', 'arg0', 'arg2'), ('arg0', 'tmp', 'arg2')]
    want2 = [('tmp', 'arg0', 'arg2'), ('arg0', 'arg1', 'arg2'), ('arg1', 'tmp', 'arg2')]
    same_block = len(set(c.block for c in cp)) <= 1
    ok = seq in (want1, want2) and not other and same_block
    if not cp and sw.loops:
        # a hand-written exchange loop instead of the three block copies: this rule describes the copy form only (the
        # accesses of the loop are still decided by R-QSORT-*:bounds)
        rep.defer_broken(AnalysisBroken('swap: no block copies, the exchange is a hand-written loop (R-PERM describes the '
                                        'three-copy form)'))
        ok = None
    if ok is not None:
        rep.inst('R-PERM', 'swap', 'three-copy exchange through a temporary of size bytes', ok, wsw,
                 None if ok else 'swap(fst, snd, size) performs %s; an exchange is tmp<-snd, snd<-fst, fst<-tmp with size bytes each'
                 % (seq,), fact={'copies': seq})
    # bsearch/qsort: the comparator is the function pointer parameter (not a fixed function)
    bm = libc_unit(repo, 'compat/libc/stdlib/bsearch.c', inline=keep_all_but_new_helpers())
    for (m, fname, argno) in ((bm, 'bsearch', 4), (bm, 'lower_bound', 4), (bm, 'upper_bound', 4), (mod, 'qsort', 3)):
        f = m.fn(fname)
        if f is None or f.decl:
            raise AnalysisBroken('%s not defined (anchor vanished)' % fname)
        ic = [i for i in f.all_insts() if i.op == 'call' and i.callee is None]
        ok = bool(ic) and all(V(i.d['callee']).k == 'arg' and V(i.d['callee']).argno == argno for i in ic)
        rep.inst('R-PERM', fname, 'every indirect call goes through the comparator parameter', ok, '%s:%d' % (f.file, f.line),
                 None if ok else 'an indirect call does not use the comparator parameter')


from irlib import V  # noqa: E402


def floors(rep):
    rep.floor('R-BSEARCH:bounds', 4)
    rep.floor('R-BSEARCH:keyfirst', 4)
    rep.floor('R-BSEARCH:post', 3 * 5)
    rep.floor('R-EMPTY', 2)
    rep.floor('R-QSORT-SMALL:bounds', 6)
    rep.floor('R-QSORT-PART:bounds', 4)
    rep.floor('R-QSORT-PART:recursion-range', 2)
    rep.floor('R-RAND:post', 4)
    rep.floor('R-PERM', 8)
