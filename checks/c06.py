"""C06 printf engine: integer, char, string and pointer conversions (igris/util/printf_impl.c and its libc wrappers)."""
from c06_common import *

ISO_FLAGS = ['-', '+', ' ', '#', '0']
ISO_LENGTHS = ['hh', 'h', 'l', 'll', 'j', 'z', 't']
INT_CONVS = 'diuoxX'
ISO_BASE = {'d': 10, 'i': 10, 'u': 10, 'o': 8, 'x': 16, 'X': 16, 'p': 16}
# LP64 (the IR is produced for x86-64 Linux): effective width / signedness of the fetched argument
VA_EXPECT_INT = {
    'di': {'hh': (32, 8, 'sext'), 'h': (32, 16, 'sext'), 'l': (64, 64, None), 'll': (64, 64, None),
           'j': (64, 64, None), 'z': (64, 64, None), 't': (64, 64, None), 'default': (32, 32, 'sext')},
    'uoxX': {'hh': (32, 8, 'zext'), 'h': (32, 16, 'zext'), 'l': (64, 64, None), 'll': (64, 64, None),
             'j': (64, 64, None), 'z': (64, 64, None), 't': (64, 64, None), 'default': (32, 32, 'zext')},
}


def opsbits_rule(rep, rule, mod, T):
    f = mod.fn('__printf')
    w = where_fn(f)
    used = {}
    for ch in ISO_FLAGS:
        m = T['flags'].get(ch)
        ok = m is not None and m > 0 and (m & (m - 1)) == 0
        rep.inst(rule, '__printf', 'flag %r sets one bit' % ch, ok, T['where'].get(ch, w),
                 None if ok else 'the flag loop maps %r to %r' % (ch, m), fact={'char': ch, 'mask': m})
        if m is not None:
            used.setdefault(m, []).append('flag ' + ch)
    extra = sorted(set(T['flags']) - set(ISO_FLAGS))
    rep.inst(rule, '__printf', 'only the ISO flags are accepted', not extra, w,
             None if not extra else 'extra flag characters %r' % extra)
    ok = T['prec'] is not None and T['prec'] & (T['prec'] - 1) == 0
    rep.inst(rule, '__printf', "'.' sets the precision-given bit", ok, T['where'].get('.', w),
             None if ok else 'no single bit is set when the directive has a precision')
    if T['prec']:
        used.setdefault(T['prec'], []).append("'.'")
    for ln in ISO_LENGTHS + ['L']:
        m = T['len'].get(ln)
        ok = m is not None and m > 0 and (m & (m - 1)) == 0
        rep.inst(rule, '__printf', 'length %s sets one bit' % ln, ok, T['where'].get(ln, w),
                 None if ok else 'length modifier %s maps to %r' % (ln, m), fact={'length': ln, 'mask': m})
        if m is not None:
            used.setdefault(m, []).append('length ' + ln)
    ok = T['upper'] is not None and T['upper'] & (T['upper'] - 1) == 0
    rep.inst(rule, '__printf', 'upper-case conversion sets one bit', ok, T['where'].get('<upper>', w),
             None if ok else 'no upper-case bit')
    if T['upper']:
        used.setdefault(T['upper'], []).append('upper')
    clash = {m: v for m, v in used.items() if len(v) > 1}
    rep.inst(rule, '__printf', 'all directive bits are distinct', not clash, w,
             None if not clash else 'bits shared: %r' % clash, fact={hex(m): v for m, v in used.items()})
    ok = T['clear_prec'] is not None and T['clear_prec'] == T['prec']
    rep.inst(rule, '__printf', 'a negative precision clears the precision-given bit', ok, T['where'].get('<clear>', w),
             None if ok else 'the bit cleared for a negative precision is %r, the precision bit is %r'
             % (T['clear_prec'], T['prec']))


def vaarg_rule(rep, rule, mod, T, sites):
    seen = set()
    for s in sites:
        convs = ''.join(sorted(s['convs']))
        w = s['load'].where()
        if not s['convs']:
            ok = s['kind'] == 'int' and s['bits'] == 32 and s['eff_bits'] == 32
            key = "'*' field fetches an int"
            n = sum(1 for k in seen if k.startswith("'*'"))
            key = "'*' field #%d fetches an int" % (n + 1)
            seen.add(key)
            rep.inst(rule, '__printf', key, ok, w, None if ok else 'fetches %d bits of kind %s' % (s['bits'], s['kind']))
            continue
        for grp, exp in VA_EXPECT_INT.items():
            if s['convs'] & set(grp):
                want = exp.get(s['length'])
                if want is None:
                    continue
                got = (s['bits'], s['eff_bits'], s['ext'])
                ok = s['kind'] == 'int' and got == want and s['convs'] == set(grp)
                rep.inst(rule, '__printf', '%%%s with length %s' % (grp, s['length']), ok, w,
                         None if ok else 'conversions %s with length %s fetch %d bits, keep %d, extend %s; ISO C requires '
                         'fetch %d, keep %d, extend %s' % (convs, s['length'], got[0], got[1], got[2], want[0], want[1], want[2]),
                         fact={'convs': convs, 'length': s['length'], 'fetch_bits': got[0], 'kept_bits': got[1], 'extension': got[2]})
                seen.add((grp, s['length']))
        if s['convs'] == {'c'}:
            ok = s['kind'] == 'int' and s['bits'] == 32 and s['eff_bits'] == 8
            rep.inst(rule, '__printf', '%c fetches an int and keeps a char', ok, w,
                     None if ok else 'fetches %d bits, keeps %d' % (s['bits'], s['eff_bits']))
            seen.add('c')
        if s['convs'] in ({'s'}, {'p'}):
            ok = s['kind'] == 'ptr'
            c = next(iter(s['convs']))
            rep.inst(rule, '__printf', '%%%s fetches a pointer' % c, ok, w, None if ok else 'fetches kind %s' % s['kind'])
            seen.add(c)
    for grp, exp in VA_EXPECT_INT.items():
        for ln in exp:
            if (grp, ln) not in seen:
                rep.inst(rule, '__printf', '%%%s with length %s' % (grp, ln), False, where_fn(mod.fn('__printf')),
                         'no argument fetch found for conversions %s with length %s' % (grp, ln))
    for c in 'csp':
        if c not in seen:
            rep.inst(rule, '__printf', '%%%s argument fetch' % c, False, where_fn(mod.fn('__printf')), 'no argument fetch found')


def call_context(mod, D, T, conv):
    """executor arguments for the routine called for conversion conv: [(value per parameter)], roles, forced bits"""
    e = D['table'].get(conv)
    if e is None or len(e['calls']) != 1:
        return None
    c = e['calls'][0]
    f = mod.fn(c['callee'])
    fp = flag_param(f)
    if fp is None:
        raise AnalysisBroken('%s: the directive-word parameter was not recognised' % c['callee'])
    args, roles = [], {}
    for n, p in enumerate(f.params):
        k = p['ty'].get('k')
        if n == 0:
            args.append(P(('fn', 'handler')))
        elif n == 1:
            args.append(P(('arg', 1)))
        elif n == fp:
            args.append(Lin.sym('ops'))
            roles['ops'] = n
        elif c['args'][n] is not None:
            args.append(Lin(c['args'][n]))
            roles.setdefault('const', {})[n] = c['args'][n]
        elif k == 'int' and is_field(c['srcs'][n], D['width_atoi']):
            args.append(Lin.sym('w'))
            roles['w'] = n
        elif k == 'int' and is_field(c['srcs'][n], D['prec_atoi']):
            args.append(Lin.sym('p'))
            roles['p'] = n
        elif k == 'ptr':
            args.append(P(('arg', n)))
            roles['str'] = n
        elif k == 'fp':
            args.append(Fv(None))
            roles['fp'] = n
        elif k == 'int' and 'u' not in roles:
            args.append(Lin.sym('u'))
            roles['u'] = n
        else:
            args.append(Lin.sym('v%d' % n))
    settable = set(T['flags'].values()) | {T['prec']} | set(T['len'].values())
    bits = []
    for i in range(32):
        m = 1 << i
        if m not in settable:
            bits.append((m, 1 if c['extra_bits'] & m else 0))
    return {'callee': c['callee'], 'args': args, 'roles': roles, 'bits': bits, 'call': c}


_layout_cache = {}


def layout_for(mod, T, ctxt, pre, cstr=None, join_at=None):
    key = (ctxt['callee'], tuple(vkey(a) for a in ctxt['args']), tuple(ctxt['bits']), tuple(repr(p) for p in pre))
    lay = _layout_cache.get(key)
    if lay is None:
        lay = _layout_cache[key] = Layout(mod, T, ctxt['callee'], ctxt['args'], pre=pre, bits=ctxt['bits'], cstr=cstr,
                                          join_at=join_at)
    return lay


def int_layout_rule(rep, rules, mod, T, D, conv):
    """R-ILAYOUT (+ R-IMAG, R-PCACC, R-EMITCOUNT, R-IBUF) for one integer conversion"""
    R_LAY, R_MAG = rules
    top = mod.fn('__printf')
    ctxt = call_context(mod, D, T, conv)
    if ctxt is None:
        rep.inst(R_LAY, '__printf', '%%%s calls one formatting routine' % conv, False, where_fn(top),
                 'conversion %r does not lead to exactly one call of a formatting routine' % conv)
        return None
    roles = ctxt['roles']
    w, p, u = Lin.sym('w'), Lin.sym('p'), Lin.sym('u')
    pre = [-w, -p]
    if conv not in 'di':
        pre.append(-u)
    if 'p' not in roles:
        # the precision is a constant of the call (pointer conversion): the model reads it from the call
        pconst = [v for n, v in roles.get('const', {}).items()
                  if is_const_precision(mod, ctxt, n)]
        p = Lin(pconst[0]) if pconst else Lin(0)
    lay = layout_for(mod, T, ctxt, pre)
    sx = lay.sx
    fl = Flags(T)
    f = lay.f
    res = {}
    mag = {}
    relevant = ['-', '0', '.'] + (['+', ' '] if conv in 'di' else []) + (['#'] if conv in 'oxX' else [])
    for s, rv in lay.rets:
        dn = [n for n in s.notes if n[0] == 'digits']
        ran = len(dn) == 1
        if len(dn) > 1:
            raise AnalysisBroken('print_i: more than one digit loop on a path')
        p0, nd, u0, d = (dn[0][2], dn[0][3], dn[0][4], dn[0][5]) if ran else (None, Lin(0), None, None)

        def fn(ctx):
            segs, err = model_int(ctx, fl, conv, w, p, u, nd, ran)
            key = '%%%s with flags [%s]' % (conv, ''.join(c for c in relevant if ctx.flags.get(c)))
            if err:
                return (key, False, err, None)
            want = clean_model(ctx, segs)
            got = norm_segments(sx, ctx, s.segs, digit=(p0.base, p0.off - nd) if ran else None)
            ok = same_segments(ctx, got, want)
            m = None
            if ran:
                neg = conv in 'di' and ctx.st.cons.entails_lt(u, 0)
                exp = -u if neg else u
                m = (u0 is not None and ctx.eq(u0, exp), d is not None and ctx.eq(d, ISO_BASE[conv]), neg, u0, d)
            return (key, ok, None if ok else 'case {%s}: emitted %s, ISO C requires %s'
                    % (', '.join(ctx.desc), show_segments(got), show_segments(want)), m)
        for ctx, (key, ok, detail, m) in enum_cases(sx, s, fn):
            cur = res.get(key)
            if cur is None or (cur[0] and not ok):
                res[key] = (ok, detail)
            if m is not None:
                k2 = 'negative value' if m[2] else 'non-negative value'
                okm = m[0]
                if k2 not in mag or (mag[k2][0] and not okm):
                    mag[k2] = (okm, None if okm else 'the digit loop starts from %r, not from the %s of the 64-bit argument '
                               '(a narrower intermediate type truncates it)' % (m[3], 'negation' if m[2] else 'value'))
                k3 = 'digit base'
                if k3 not in mag or (mag[k3][0] and not m[1]):
                    mag[k3] = (m[1], None if m[1] else 'digits are produced in base %r, %%%s needs base %d' % (m[4], conv, ISO_BASE[conv]))
    for key in sorted(res):
        ok, detail = res[key]
        rep.inst(R_LAY, ctxt['callee'], key, ok, where_fn(f), detail)
    for k2 in sorted(mag):
        ok, detail = mag[k2]
        rep.inst(R_MAG, ctxt['callee'], '%%%s: %s' % (conv, k2), ok, where_fn(f), detail)
    return lay


def is_const_precision(mod, ctxt, n):
    """parameter n of the routine receives the precision in the other calls (same position as role 'p' elsewhere)"""
    return ctxt['callee'] == 'print_i' and n == 5


def import_obligs(rep, sx, mapping, fname_filter=None):
    """executor obligations -> rule instances.  mapping: obligation kind -> rule id"""
    for o in sx.obligs.values():
        r = mapping.get(o['kind'])
        if r is None or (fname_filter and o['fn'] not in fname_filter):
            continue
        rep.inst(r, o['fn'], o['key'], o['ok'], o['where'], o['detail'])


def pcacc_rule(rep, rule, lay, label):
    bad = [(s, rv) for ok, s, rv in lay.pcacc() if not ok]
    ok = not bad and len(lay.rets) > 0
    rep.inst(rule, lay.f.name, 'return value == number of output callbacks (%s)' % label, ok, where_fn(lay.f),
             None if ok else 'on some path the routine returns %r after %r callback calls'
             % (bad[0][1], bad[0][0].E) if bad else 'no path reaches a return')


def run(rep, repo, tier):
    rep.explanation = 'C06 (work in progress)'
    mod = unit(repo)
    rep.units.append(SRC)
    T = parser_tables(mod)
    loopvar_rule(rep, 'R-LOOPVAR', mod, ['__printf', 'print_i', 'print_s'])
    na, nl = cursor_rule(rep, 'R-CURSOR', mod)
    opsbits_rule(rep, 'R-OPSBITS', mod, T)
    sites = vaarg_sites(mod, T)
    vaarg_rule(rep, 'R-VAARG', mod, T, sites)
    D = dispatch(mod)
    done = set()
    for conv in 'diuoxXp':
        lay = int_layout_rule(rep, ('R-ILAYOUT', 'R-IMAG'), mod, T, D, conv)
        if lay is not None and id(lay) not in done:
            done.add(id(lay))
            pcacc_rule(rep, 'R-PCACC', lay, conv)
            import_obligs(rep, lay.sx, {'count-nonneg': 'R-EMITCOUNT', 'digit-store': 'R-IBUF', 'emit-read': 'R-IBUF'})
