"""C06 printf engine: integer, char, string and pointer conversions (igris/util/printf_impl.c and its libc wrappers).

The check is assembled from three layers, all static (LLVM IR, nothing of igris is executed):

  parser       IR dataflow rules on __printf (R-LOOPVAR, R-CURSOR, R-OPSBITS, R-VAARG, R-PERCENT, R-WIDE) and a symbolic
               execution of __printf from its entry to the switch over the conversion character (c06_common.ParserRun):
               how the text of the directive and the '*' arguments determine width, precision and directive word
               (R-STAR, R-FIELD);  a second execution of the whole function with the formatting routines summarised
               decides the character count (R-PCACC) and the literal text (R-LITERAL)
  routines     every formatting routine is executed symbolically in the context of each conversion that reaches it
               (constant arguments and forced bits read from the call site) and its emission log is compared, case by
               case, with a closed-form model of ISO C 7.21.6.1 (R-ILAYOUT, R-IMAG, R-DIGITCHR, R-SLAYOUT, R-SBOUND,
               R-PCACC, R-EMITCOUNT, R-IBUF)
  wrappers     compat/libc/stdio/sprintf.c and fdprintf.c: callback, terminator, forwarding of the count (R-WRAP)
"""
import os
import multiprocessing
from c06_common import *
import c06_wrap

ISO_FLAGS = ['-', '+', ' ', '#', '0']
ISO_LENGTHS = ['hh', 'h', 'l', 'll', 'j', 'z', 't']
INT_CONVS = 'diuoxX'
ISO_BASE = {'d': 10, 'i': 10, 'u': 10, 'o': 8, 'x': 16, 'X': 16, 'p': 16}
INT_MAX = (1 << 31) - 1
# LP64 (the IR is produced for x86-64 Linux): effective width / signedness of the fetched argument
VA_EXPECT_INT = {
    'di': {'hh': (32, 8, 'sext'), 'h': (32, 16, 'sext'), 'l': (64, 64, None), 'll': (64, 64, None),
           'j': (64, 64, None), 'z': (64, 64, None), 't': (64, 64, None), 'default': (32, 32, 'sext')},
    'uoxX': {'hh': (32, 8, 'zext'), 'h': (32, 16, 'zext'), 'l': (64, 64, None), 'll': (64, 64, None),
             'j': (64, 64, None), 'z': (64, 64, None), 't': (64, 64, None), 'default': (32, 32, 'zext')},
}


class Rec:
    """instance recorder used inside worker processes (replayed into the report by the parent)"""

    def __init__(self):
        self.items = []

    def inst(self, rule, function, key, ok, where='', detail=None, nontrivial=True, fact=None):
        self.items.append((rule, function, key, bool(ok), where, detail, nontrivial, fact))


# ----------------------------------------------------------------------------------------------
# parser tables
# ----------------------------------------------------------------------------------------------
def opsbits_rule(rep, rule, mod, T):
    f = mod.fn('__printf')
    w = where_fn(f)
    used = {}
    for ch in ISO_FLAGS:
        m = T['flags'].get(ch)
        ok = m is not None and m > 0 and (m & (m - 1)) == 0
        rep.inst(rule, '__printf', 'flag %r sets one bit' % ch, ok, T['where'].get(ch, w),
                 None if ok else 'the flag loop maps %r to %r' % (ch, m), fact={'char': ch, 'mask': m})
        if m is not None:
            used.setdefault(m, []).append('flag ' + ch)
    extra = sorted(set(T['flags']) - set(ISO_FLAGS))
    rep.inst(rule, '__printf', 'only the ISO flags are accepted', not extra, w,
             None if not extra else 'extra flag characters %r' % extra)
    ok = T['prec'] is not None and T['prec'] & (T['prec'] - 1) == 0
    rep.inst(rule, '__printf', "'.' sets the precision-given bit", ok, T['where'].get('.', w),
             None if ok else 'no single bit is set when the directive has a precision')
    if T['prec']:
        used.setdefault(T['prec'], []).append("'.'")
    for ln in ISO_LENGTHS + ['L']:
        m = T['len'].get(ln)
        ok = m is not None and m > 0 and (m & (m - 1)) == 0
        rep.inst(rule, '__printf', 'length %s sets one bit' % ln, ok, T['where'].get(ln, w),
                 None if ok else 'length modifier %s maps to %r' % (ln, m), fact={'length': ln, 'mask': m})
        if m is not None:
            used.setdefault(m, []).append('length ' + ln)
    ok = T['upper'] is not None and T['upper'] & (T['upper'] - 1) == 0
    rep.inst(rule, '__printf', 'upper-case conversion sets one bit', ok, T['where'].get('<upper>', w),
             None if ok else 'no upper-case bit')
    if T['upper']:
        used.setdefault(T['upper'], []).append('upper')
    clash = {m: v for m, v in used.items() if len(v) > 1}
    rep.inst(rule, '__printf', 'all directive bits are distinct', not clash, w,
             None if not clash else 'bits shared: %r' % clash, fact={hex(m): v for m, v in used.items()})
    ok = T['clear_prec'] is not None and T['clear_prec'] == T['prec']
    rep.inst(rule, '__printf', 'a negative precision clears the precision-given bit', ok, T['where'].get('<clear>', w),
             None if ok else 'the bit cleared for a negative precision is %r, the precision bit is %r'
             % (T['clear_prec'], T['prec']))


def opsmono_rule(rep, rule, mod, T):
    """the directive word only ACCUMULATES within one directive: every value of it that reaches a formatting routine is
    derived - through `| mask`, the one `& ~precision-bit`, and merges - from the word the flag loop produced.  A path that
    merges a value NOT derived from the flag accumulator into the word behind the flag loop (`ops = OPS_FLAG_LEFT_ALIGN` for a
    negative '*' width) drops the flags parsed before it."""
    f = mod.fn('__printf')
    ems = emitter_functions(mod)
    roots = []
    for c in f.calls():
        g = ems.get(c.callee)
        if g is None:
            continue
        fp = flag_param(g)
        if fp is not None and fp < len(c.ops) and c.ops[fp].k == 'inst':
            roots.append(c.ops[fp])
    if not roots:
        raise AnalysisBroken('__printf: no formatting routine receives a directive word (anchor changed)')

    def preds(i):
        if i.op in ('or', 'and', 'xor'):
            return [o for o in i.ops if o.k == 'inst']
        if i.op in ('phi', 'select'):
            return [o for o in (i.ops[1:] if i.op == 'select' else i.ops) if o.k == 'inst']
        if i.op in ('zext', 'trunc', 'freeze'):
            return [i.ops[0]] if i.ops[0].k == 'inst' else []
        return []
    web = {}
    work = [r.id for r in roots]
    while work:
        k = work.pop()
        if k in web:
            continue
        i = f.insts[k]
        if i.op not in ('or', 'and', 'xor', 'phi', 'select', 'zext', 'trunc', 'freeze'):
            continue
        web[k] = i
        work.extend(o.id for o in preds(i))
    headers = {L['header']: L for L in f.loops}
    accs = []
    for i in web.values():
        if i.op == 'phi' and i.block in headers:
            L = headers[i.block]
            for (bb, v) in i.incoming:
                if f.bmap[bb] in L['blocks'] and v.k == 'inst':
                    # the value carried round the loop is the accumulator itself with bits added (possibly through merges)
                    seen, st_, grows = set(), [v.id], False
                    while st_:
                        k = st_.pop()
                        if k in seen or k not in web:
                            continue
                        seen.add(k)
                        x = web[k]
                        if x.op == 'or' and any(o.k == 'inst' and o.id == i.id for o in x.ops):
                            grows = True
                        st_.extend(o.id for o in preds(x))
                    if grows:
                        accs.append(i)
    # the flag accumulator: the innermost such loop phi (the directive loop may carry the word as well)
    accs = sorted(set(accs), key=lambda i: len(headers[i.block]['blocks']))
    if not accs:
        raise AnalysisBroken('__printf: the loop that collects the flag bits into the directive word was not recognised')
    F = accs[0]
    memo = {}

    def derives(k, stack=()):
        # does the value k depend on F (through the web)?
        if k == F.id:
            return True
        if k not in web or k in stack:
            return False
        if k in memo:
            return memo[k]
        r = any(derives(o.id, stack + (k,)) for o in preds(web[k]))
        memo[k] = r
        return r
    bad = []
    for i in web.values():
        if i.id == F.id or i.op not in ('phi', 'select'):
            continue
        ins = i.incoming if i.op == 'phi' else [(None, i.ops[1]), (None, i.ops[2])]
        flags = [(bb, v, v.k == 'inst' and derives(v.id)) for (bb, v) in ins]
        if any(d for (_, _, d) in flags) and not all(d for (_, _, d) in flags):
            if i.block in headers and F.block in headers[i.block]['blocks'] and i.block is not F.block:
                continue        # the directive loop's own carrier: its entry value is the word of the previous directive / 0
            for (bb, v, d) in flags:
                if not d:
                    bad.append((i, bb, v))
    ok = not bad
    det = None
    if bad:
        i, bb, v = bad[0]
        det = ('behind the flag loop the directive word is replaced by %s (merged at %s): the flag bits parsed before are '
               'dropped on that path' % ('the constant %d' % v.ival if v.k == 'ci' else 'a value not derived from it', i.where()))
    rep.inst(rule, '__printf', 'the directive word only accumulates bits behind the flag loop', ok,
             bad[0][0].where() if bad else where_fn(f), det, fact={'accumulator': F.name or F.id, 'web': len(web)})


def vaarg_rule(rep, rule, mod, T, D, sites):
    f = mod.fn('__printf')
    seen = set()
    by_conv = {}
    for s in sites:
        for c in s['convs']:
            by_conv.setdefault(c, set()).add(s['load'].id)
        convs = ''.join(sorted(s['convs']))
        w = s['load'].where()
        if not s['convs']:
            ok = s['kind'] == 'int' and s['bits'] == 32 and s['eff_bits'] == 32
            n = sum(1 for k in seen if isinstance(k, str) and k.startswith("'*'"))
            key = "'*' field #%d fetches an int" % (n + 1)
            seen.add(key)
            rep.inst(rule, '__printf', key, ok, w, None if ok else 'fetches %d bits of kind %s' % (s['bits'], s['kind']))
            continue
        for grp, exp in VA_EXPECT_INT.items():
            if s['convs'] & set(grp):
                want = exp.get(s['length'])
                if want is None:
                    continue
                got = (s['bits'], s['eff_bits'], s['ext'])
                ok = s['kind'] == 'int' and got == want and s['convs'] == set(grp)
                rep.inst(rule, '__printf', '%%%s with length %s' % (grp, s['length']), ok, w,
                         None if ok else 'conversions %s with length %s fetch %d bits, keep %d, extend %s; ISO C requires '
                         'fetch %d, keep %d, extend %s' % (convs, s['length'], got[0], got[1], got[2], want[0], want[1], want[2]),
                         fact={'convs': convs, 'length': s['length'], 'fetch_bits': got[0], 'kept_bits': got[1], 'extension': got[2]})
                seen.add((grp, s['length']))
        if s['convs'] == {'c'}:
            ok = s['kind'] == 'int' and s['bits'] == 32 and s['eff_bits'] == 8
            rep.inst(rule, '__printf', '%c fetches an int and keeps a char', ok, w,
                     None if ok else 'fetches %d bits, keeps %d' % (s['bits'], s['eff_bits']))
            seen.add('c')
        if s['convs'] in ({'s'}, {'p'}):
            ok = s['kind'] == 'ptr'
            c = next(iter(s['convs']))
            rep.inst(rule, '__printf', '%%%s fetches a pointer' % c, ok, w, None if ok else 'fetches kind %s' % s['kind'])
            seen.add(c)
    for grp, exp in VA_EXPECT_INT.items():
        for ln in exp:
            if (grp, ln) not in seen:
                rep.inst(rule, '__printf', '%%%s with length %s' % (grp, ln), False, where_fn(f),
                         'no argument fetch found for conversions %s with length %s' % (grp, ln))
    for c in 'csp':
        if c not in seen:
            rep.inst(rule, '__printf', '%%%s argument fetch' % c, False, where_fn(f), 'no argument fetch found')
    # the value handed to the routine is made of the fetches of this conversion and of nothing else
    for conv in 'diuoxXp':
        e = D['table'].get(conv)
        if e is None or len(e['calls']) != 1:
            continue
        c = e['calls'][0]
        g = mod.fn(c['callee'])
        vpos = [n for n, p in enumerate(g.params) if p['ty'].get('k') == 'int' and p['ty'].get('bits') == 64]
        if len(vpos) != 1:
            rep.inst(rule, '__printf', '%%%s: value argument' % conv, False, c['call'].where(),
                     '%s has %d 64-bit integer parameters, expected the value only' % (c['callee'], len(vpos)))
            continue
        srcs = value_sources(f, c['call'].ops[vpos[0]])
        loads = set(s[1] for s in srcs if s[0] == 'load')
        other = [s for s in srcs if s[0] != 'load']
        ok = not other and loads and loads <= by_conv.get(conv, set())
        rep.inst(rule, '__printf', '%%%s: the value passed on is the fetched argument' % conv, ok, c['call'].where(),
                 None if ok else 'the value argument of %s also depends on %r' % (c['callee'], other or sorted(loads)))
    text_arg_rule(rep, rule, mod, D, by_conv)


def text_arg_rule(rep, rule, mod, D, by_conv):
    """%s: the text handed to the routine is the fetched pointer (a constant string may stand in for a null pointer);
    %c: it is a local buffer whose first byte is the fetched character"""
    f = mod.fn('__printf')
    for conv in 'sc':
        e = D['table'].get(conv)
        if e is None or len(e['calls']) != 1:
            continue
        c = e['calls'][0]
        g = mod.fn(c['callee'])
        ppos = [n for n, p in enumerate(g.params) if n >= 2 and p['ty'].get('k') == 'ptr']
        if len(ppos) != 1:
            rep.inst(rule, '__printf', '%%%s: text argument' % conv, False, c['call'].where(),
                     '%s has %d pointer parameters besides the callback pair' % (c['callee'], len(ppos)))
            continue
        v = c['call'].ops[ppos[0]]
        if conv == 's':
            srcs = value_sources(f, v)
            loads = set(s[1] for s in srcs if s[0] == 'load')
            other = [s for s in srcs if s[0] != 'load' and not (s[0] == 'other' and s[1] in ('cexpr', 'global'))]
            ok = not other and loads and loads <= by_conv.get('s', set())
            detail = 'the text argument of %s depends on %r' % (c['callee'], other or sorted(loads))
            consts = [s for s in srcs if s[0] == 'other']
            if ok and consts:
                # a constant may stand in for a null pointer only: the arm chosen for a non-null pointer is the pointer
                sel = f.inst_of(v)
                cmp_ = f.inst_of(sel.ops[0]) if sel is not None and sel.op == 'select' else None
                ok = False
                detail = 'a constant string reaches the text argument of %s in a way the rule does not follow (expected: ' \
                         'pointer != NULL ? pointer : constant)' % c['callee']
                if cmp_ is not None and cmp_.op == 'icmp' and cmp_.pred in ('eq', 'ne') and \
                        any(o.k == 'null' for o in cmp_.ops):
                    tested = [o for o in cmp_.ops if o.k != 'null'][0]
                    arm = sel.ops[1] if cmp_.pred == 'ne' else sel.ops[2]
                    a_src, t_src = value_sources(f, arm), value_sources(f, tested)
                    ok = all(x[0] == 'load' for x in a_src) and a_src == t_src and \
                        set(x[1] for x in a_src) <= by_conv.get('s', set())
                    detail = 'for a non-null argument the text handed to %s is not the argument itself' % c['callee']
            rep.inst(rule, '__printf', '%s: the text passed on is the fetched pointer', ok, c['call'].where(),
                     None if ok else detail)
        else:
            root = alloca_root(f, v)
            ok, detail = False, 'the text argument of %s is not a local buffer' % c['callee']
            if root is not None:
                sts = [i for i in f.all_insts() if i.op == 'store' and i.d.get('store_size') == 1 and
                       alloca_root(f, i.ops[1]) is not None and alloca_root(f, i.ops[1])[0] is root[0] and
                       alloca_root(f, i.ops[1])[1] == root[1] and f.dominates(i, c['call'])]
                detail = 'no single store of the character into the buffer before the call'
                if len(sts) == 1:
                    srcs = value_sources(f, sts[0].ops[0])
                    loads = set(s[1] for s in srcs if s[0] == 'load')
                    ok = all(s[0] == 'load' for s in srcs) and loads and loads <= by_conv.get('c', set())
                    detail = 'the byte stored into the buffer depends on %r' % (sorted(srcs, key=repr),)
            rep.inst(rule, '__printf', '%c: the buffer passed on starts with the fetched character', ok, c['call'].where(),
                     None if ok else detail)


def alloca_root(f, v):
    """(alloca inst, constant byte offset) the pointer v addresses, else None"""
    off = 0
    for _ in range(8):
        i = f.inst_of(v)
        if i is None:
            return None
        if i.op == 'alloca':
            return (i, off)
        if i.op == 'bitcast':
            v = i.ops[0]
        elif i.op == 'getelementptr':
            st = gep_const_step(i)
            if st is None:
                return None
            off += st
            v = i.ops[0]
        else:
            return None
    return None


def reaching_store(f, ld):
    """the store that defines what load ld reads from a local object: the last one before it in its block, else the last one
    in the nearest dominating block that has one (same object, offset and size), provided no other block between can store"""
    root = alloca_root(f, ld.ops[0])
    if root is None:
        return None
    size = ld.ty.get('size')
    stores = [i for i in f.all_insts() if i.op == 'store' and alloca_root(f, i.ops[1]) is not None and
              alloca_root(f, i.ops[1])[0] is root[0]]
    same = [i for i in stores if alloca_root(f, i.ops[1])[1] == root[1] and i.d.get('store_size') == size]
    before = [i for i in same if i.block is ld.block and i.id < ld.id]
    if before:
        return before[-1]
    b = f.idom.get(ld.block)
    while b is not None and b != '<root>':
        here = [i for i in same if i.block is b]
        if here:
            return here[-1]
        nb = f.idom.get(b)
        if nb is b:
            break
        b = nb
    return None


def value_sources(f, v, seen=None):
    """leaf_sources that also looks through pointer/integer casts and through a local object written once on the way"""
    seen = seen if seen is not None else set()
    out = set()
    i = f.inst_of(v)
    if i is not None and i.op in ('ptrtoint', 'inttoptr', 'bitcast'):
        return value_sources(f, i.ops[0], seen)
    for s in leaf_sources(f, v):
        if s[0] == 'load' and s[1] not in seen:
            seen.add(s[1])
            ld = f.insts[s[1]]
            st = reaching_store(f, ld)
            if st is not None:
                out |= value_sources(f, st.ops[0], seen)
                continue
        if s[0] == 'other' and len(s) == 3 and s[1] in ('ptrtoint', 'inttoptr', 'bitcast'):
            out |= value_sources(f, f.insts[s[2]].ops[0], seen)
            continue
        out.add(s)
    return out


def percent_rule(rep, rule, mod, D):
    f = mod.fn('__printf')
    e = D['table'].get('%')
    if e is None:
        rep.inst(rule, '__printf', "'%%' is a conversion", False, where_fn(f), "the switch has no case for '%'")
        return
    h = e['handler']
    ok = len(h) == 1 and h[0]['arg'] == ord('%') and not h[0]['in_loop'] and not e['calls']
    rep.inst(rule, '__printf', "%% hands one '%' to the callback", ok, h[0]['call'].where() if h else where_fn(f),
             None if ok else 'the code selected by %%%% makes %d callback call(s) with character %r'
             % (len(h), h[0]['arg'] if h else None))


def next_rule(rep, rule, mod, D):
    """after a conversion the scan resumes at the character that follows the conversion character"""
    f = mod.fn('__printf')
    for conv in 'diuoxXcsp%':
        e = D['table'].get(conv)
        if e is None:
            continue
        ok = e.get('next_ok') is True
        rep.inst(rule, '__printf', '%%%s: the scan resumes right after the conversion character' % conv, ok,
                 D['loop']['header'].term.where(),
                 None if ok else 'the cursor handed to the next pass of the directive loop is not (position of the conversion '
                 'character) + 1 on the paths of this conversion')


def wide_rule(rep, rule, mod, T, D):
    """%ls: ISO C converts a wchar_t string; an implementation that never looks at the l bit on the %s path cannot"""
    f = mod.fn('__printf')
    lbit = T['len'].get('l')
    e = D['table'].get('s')
    if lbit is None or e is None:
        return
    region = set(case_region(f, f.bmap[e['block']], D['loop']))
    fns = [(f, region)] + [(mod.fn(c['callee']), None) for c in e['calls']]
    tested = False
    for (g, blocks) in fns:
        for i in g.all_insts():
            if blocks is not None and i.block not in blocks:
                continue
            if i.op == 'and' and any(o.k == 'ci' and o.ival == lbit for o in i.ops):
                tested = True
    rep.inst(rule, '__printf', '%ls: the l modifier (wchar_t string) is honoured', tested,
             e['calls'][0]['call'].where() if e['calls'] else where_fn(f),
             None if tested else 'the code selected by %s never tests the l bit: a wchar_t string is read as a char string '
             '(ISO C 7.21.6.1p8 requires conversion by wcrtomb)')


# ----------------------------------------------------------------------------------------------
# parser facts: '*' fields, literal fields, what the routines may assume
# ----------------------------------------------------------------------------------------------
def parser_rules(rep, mod, T, D):
    """R-STAR, R-FIELD; returns (facts, ParserRun): facts = {'w>=0','p>=0','p==0 without precision'} proven on every path"""
    pr = ParserRun(mod, T, D)
    f = pr.f
    sx = pr.sx
    W, PR = pr.W, pr.PR
    aw, ap = D['width_atoi'], D['prec_atoi']
    wv = lambda s: s.env.get(W)
    pv = lambda s: s.env.get(PR)

    def eqs(s, a, b):
        return isinstance(a, Lin) and isinstance(b, Lin) and s.cons.entails_eq(a, b)

    def bit_is(s, n, val):
        b = pr.bit(s, n) if n is not None else None
        return b is not None and s.cons.entails_eq(b, val)
    res = {}

    def note(rule, key, ok, where, detail):
        k = (rule, key)
        cur = res.get(k)
        if cur is None:
            res[k] = [ok, where, None if ok else detail, 1]
        else:
            cur[3] += 1
            if cur[0] and not ok:
                cur[0], cur[2] = False, detail
    facts = {'w>=0': True, 'p>=0': True, 'p==0 without precision': pr.pbit is not None}
    for s in pr.states:
        w, p = wv(s), pv(s)
        if not (isinstance(w, Lin) and s.cons.entails_le(0, w)):
            facts['w>=0'] = False
        if not (isinstance(p, Lin) and s.cons.entails_le(0, p)):
            facts['p>=0'] = False
        if pr.pbit is not None:
            b = pr.bit(s, pr.pbit)
            if b is None:
                facts['p==0 without precision'] = False
            else:
                for (s2, t) in pr.split(s, ('cmp', 'sge', b, Lin(1))):
                    if not t and not eqs(s2, p, Lin(0)):
                        facts['p==0 without precision'] = False
        # '*' width
        for ld in pr.star['w']:
            x = s.env.get(('i', ld))
            if not isinstance(x, Lin) or aw.id in [k[1] for k in s.env if k == ('i', aw.id)]:
                continue
            where = f.insts[ld].where()
            for (s2, t) in pr.split(s, ('cmp', 'sge', x, Lin(0))):
                if t:
                    ok = eqs(s2, wv(s2), x)
                    note('R-STAR', "'*' width: a non-negative argument is the width", ok, where,
                         'for an argument n >= 0 the routines receive width %r' % (wv(s2),))
                else:
                    ok = eqs(s2, wv(s2), -x) and bit_is(s2, pr.lbit, 1)
                    note('R-STAR', "'*' width: a negative argument means the '-' flag and width -n", ok, where,
                         "for an argument n < 0 the routines receive width %r and '-' flag %r; ISO C 7.21.6.1p5: a negative "
                         'field width argument is taken as a - flag followed by a positive field width'
                         % (wv(s2), pr.bit(s2, pr.lbit) if pr.lbit is not None else None))
        # '*' precision
        for ld in pr.star['p']:
            x = s.env.get(('i', ld))
            if not isinstance(x, Lin) or ('i', ap.id) in s.env:
                continue
            where = f.insts[ld].where()
            for (s2, t) in pr.split(s, ('cmp', 'sge', x, Lin(0))):
                if t:
                    ok = eqs(s2, pv(s2), x) and bit_is(s2, pr.pbit, 1)
                    note('R-STAR', "'*' precision: a non-negative argument is the precision", ok, where,
                         'for an argument n >= 0 the routines receive precision %r, precision bit %r'
                         % (pv(s2), pr.bit(s2, pr.pbit) if pr.pbit is not None else None))
                else:
                    ok = bit_is(s2, pr.pbit, 0)
                    note('R-STAR', "'*' precision: a negative argument is taken as no precision", ok, where,
                         'for an argument n < 0 the precision bit is %r' % (pr.bit(s2, pr.pbit) if pr.pbit is not None else None,))
        # literal fields
        if ('i', aw.id) in s.env and not any(('i', ld) in s.env for ld in pr.star['w']):
            r = s.env[('i', aw.id)]
            ok = eqs(s, w, r)
            note('R-FIELD', 'a literal width is the number written in the directive', ok, aw.where(),
                 'the routines receive width %r, the number in the format is %r' % (w, r))
        ld = T.get('prec_load')
        byte = s.env.get(('i', ld.id)) if ld is not None else None
        if isinstance(byte, Lin) and pr.pbit is not None:
            for (s2, t) in pr.split(s, ('cmp', 'eq', byte, Lin(ord('.')))):
                star = [x for x in (s2.env.get(('i', l)) for l in pr.star['p']) if isinstance(x, Lin)]
                if not t:
                    ok = bit_is(s2, pr.pbit, 0)
                    note('R-FIELD', "no '.' after the width: the precision bit is clear", ok, ld.where(),
                         'the precision bit is %r in a directive without precision' % (pr.bit(s2, pr.pbit),))
                elif ('i', ap.id) in s2.env and not star:
                    r = s2.env[('i', ap.id)]
                    ok = eqs(s2, pv(s2), r) and bit_is(s2, pr.pbit, 1)
                    note('R-FIELD', "'.' and digits: the precision is the number written and the precision bit is set", ok,
                         ap.where(), 'the routines receive precision %r (bit %r), the number in the format is %r'
                         % (pv(s2), pr.bit(s2, pr.pbit), r))
    syntax_clauses(pr, T, D, note)
    for (rule, key), (ok, where, detail, n) in res.items():
        rep.inst(rule, '__printf', key, ok, where, detail, fact={'paths': n})
    for k in sorted(facts):
        if facts[k]:
            rep.inst('R-PARSE', '__printf', 'every path to the formatting routines establishes %s' % k, True, where_fn(f),
                     fact={'paths': len(pr.states)})
    return facts, pr


def syntax_clauses(pr, T, D, note):
    """R-SYNTAX: every part of the directive is read where the previous part ended, so that the conversion character
    is the one that follows the flags, the width, the precision and the length modifier"""
    f, sx = pr.f, pr.sx
    stars = pr.star_tests()
    if len(stars) != 2:
        raise AnalysisBroken("__printf: expected two tests for '*' (width, precision), found %d" % len(stars))
    ld_ws, ld_ps = stars
    ld_dot = T.get('prec_load')
    lsw = T.get('len_switch')
    ld_len = char_source(f, lsw.ops[0]) if lsw is not None else None
    ld_conv = char_source(f, D['switch'].ops[0])
    if ld_len is None or ld_conv is None:
        raise AnalysisBroken('__printf: the length-modifier switch or the conversion switch was not recognised')
    if ld_dot is None:
        return          # no test for '.' found: R-OPSBITS reports that the precision bit is never set
    aw, ap = D['width_atoi'], D['prec_atoi']
    R = 'R-SYNTAX'

    def byte_at(off):
        return Lin.sym(sx.opq('byte', P(FMT, off).key()))

    def eq(s, a, b):
        return a is not None and b is not None and s.cons.entails_eq(a, b)

    def argpos(s, call):
        v = call.ops[0]
        p = s.env.get(v.key()) if v.k in ('inst', 'arg') else None
        return p.off if isinstance(p, P) and p.base == FMT and ('i', call.id) in s.env else None
    lens = [(nm, m) for nm, m in T['len'].items()]
    for s in pr.states:
        a, dot, ln, cv = pr.pos(s, ld_ws), pr.pos(s, ld_dot), pr.pos(s, ld_len), pr.pos(s, ld_conv)
        star_w = any(isinstance(s.env.get(('i', l)), Lin) for l in pr.star['w']) and ('i', aw.id) not in s.env
        star_p = any(isinstance(s.env.get(('i', l)), Lin) for l in pr.star['p']) and ('i', ap.id) not in s.env
        if star_w:
            note(R, "'*' width: the '.' is looked for right after the '*'", eq(s, dot, a + 1 if a is not None else None),
                 ld_dot.where(), "the '*' is at offset %r, the character tested for '.' at %r" % (a, dot))
        elif ('i', aw.id) in s.env:
            ok = eq(s, argpos(s, aw), a) and pr.nondigit_proved.get(id(s), False) and dot is not None and \
                a is not None and s.cons.entails_le(a, dot)
            note(R, "literal width: the number is read where the field starts, the '.' is looked for after its last digit", ok,
                 aw.where(), "the field starts at offset %r, atoi reads at %r, the character tested for '.' is at %r (%s)"
                 % (a, argpos(s, aw), dot, 'not a digit' if pr.nondigit_proved.get(id(s)) else 'possibly still a digit'))
        b = s.env.get(('i', ld_dot.id))
        if isinstance(b, Lin) and dot is not None:
            d = sx.decide(s, ('cmp', 'eq', b, Lin(ord('.'))))
            if d is False:
                note(R, "no '.': the length modifier is looked for at the same character", eq(s, ln, dot), ld_len.where(),
                     "the character tested for '.' is at offset %r, the one tested for a length modifier at %r" % (dot, ln))
            elif d is True and star_p:
                note(R, "'.*': the length modifier is looked for right after the '*'", eq(s, ln, dot + 2), ld_len.where(),
                     "the '.' is at offset %r, the character tested for a length modifier at %r" % (dot, ln))
            elif d is True and ('i', ap.id) in s.env:
                nd = ln is not None and s.cons.entails_eq(digit_class_sym(sx, byte_at(ln)), 0)
                ok = eq(s, argpos(s, ap), dot + 1) and nd and s.cons.entails_le(dot + 1, ln)
                note(R, "'.' and digits: the number is read right after the '.', the length modifier is looked for after its "
                     'last digit', ok, ap.where(), "the '.' is at offset %r, atoi reads at %r, the character tested for a length "
                     'modifier is at %r (%s)' % (dot, argpos(s, ap), ln, 'not a digit' if nd else 'possibly still a digit'))
        if ln is not None and cv is not None:
            on = [nm for nm, m in lens if (lambda bv: bv is not None and s.cons.entails_eq(bv, 1))(pr.bit(s, m.bit_length() - 1))]
            off_ = [nm for nm, m in lens if (lambda bv: bv is not None and s.cons.entails_eq(bv, 0))(pr.bit(s, m.bit_length() - 1))]
            if len(on) + len(off_) != len(lens) or len(on) > 1:
                note(R, 'at most one length modifier is recorded', False, ld_len.where(), 'length bits set: %r' % on)
                continue
            M = on[0] if on else ''
            ok = eq(s, cv, ln + len(M))
            for k, ch in enumerate(M):
                ok = ok and s.cons.entails_eq(byte_at(ln + k), ord(ch))
            if len(M) == 1 and M in 'hl':
                nb = byte_at(ln + 1)
                ok = ok and (s.cons.entails_lt(nb, ord(M)) or s.cons.entails_lt(Lin(ord(M)), nb))
            note(R, 'length modifier %s: its characters are consumed, the conversion character is the next one' % (M or '(none)'),
                 ok, ld_conv.where(), 'the modifier is looked for at offset %r, the conversion character is read at %r'
                 % (ln, cv))


def flags_rule(rep, rule, mod, T, pr):
    """one pass of the flag loop for flag character c: exactly the bit of c is added to the directive word, every other bit
    is kept, the cursor moves by one"""
    f, sx = pr.f, pr.sx
    fsw = T.get('flag_switch')
    if fsw is None:
        raise AnalysisBroken('__printf: the switch over the flag characters was not recognised')
    loops = [L for L in f.loops if fsw.block in L['blocks']]
    L = min(loops, key=lambda l: len(l['blocks']))
    H = L['header']
    lst = sx.iter_states.get(('__printf', H.name), [])
    ophi = [i for i in H.insts if i.op == 'phi' and ('__printf', i.id) in sx.bitword_phis]
    cphi = [i for i in H.insts if i.op == 'phi' and i.ty.get('k') == 'ptr']
    if len(ophi) != 1 or len(cphi) != 1:
        raise AnalysisBroken('__printf: the flag loop does not carry exactly one directive word and one cursor')
    ophi, cphi = ophi[0], cphi[0]
    seen = set()
    for T_ in lst:
        cases = [n[3] for n in T_.notes if n[0] == 'case' and n[2] == fsw.id]
        if len(cases) != 1 or cases[0] == 'default':
            continue
        ch = chr(cases[0])
        head = SX.bw_decode(T_.env.get(('i', ophi.id)))
        nxt = cur = None
        for (bb, v) in ophi.incoming:
            if f.bmap[bb] in L['latches']:
                nxt = SX.bw_decode(sx.val(T_, v, f)) if isinstance(sx.val(T_, v, f), Lin) else None
        h0 = T_.env.get(('i', cphi.id))
        for (bb, v) in cphi.incoming:
            if f.bmap[bb] in L['latches']:
                cur = sx.val(T_, v, f)
        m = T['flags'].get(ch)
        ok = head is not None and nxt is not None and m is not None and nxt[0] == (head[0] | m) and \
            nxt[1] == {n: s_ for n, s_ in head[1].items() if not (m >> n) & 1}
        okc = isinstance(h0, P) and isinstance(cur, P) and cur.base == h0.base and T_.cons.entails_eq(cur.off, h0.off + 1)
        seen.add(ch)
        rep.inst(rule, '__printf', 'flag %r adds its bit and nothing else, cursor + 1' % ch, ok and okc, fsw.where(),
                 None if ok and okc else 'one pass of the flag loop for %r turns the directive word %r into %r and moves the '
                 'cursor from %r to %r' % (ch, T_.env.get(('i', ophi.id)), sx.val(T_, [v for (bb, v) in ophi.incoming
                                                                                     if f.bmap[bb] in L['latches']][0], f), h0, cur))
    for ch in ISO_FLAGS:
        if ch not in seen:
            rep.inst(rule, '__printf', 'flag %r adds its bit and nothing else, cursor + 1' % ch, False, fsw.where(),
                     'no pass of the flag loop handles %r' % ch)


def literal_rule(rep, rule, mod, D, pr):
    """a character other than '%' costs one callback with that character and moves the cursor by one"""
    f = pr.f
    sx = pr.sx
    H = D['loop']['header']
    latch_states = sx.iter_states.get(('__printf', H.name), [])
    cur = [i for i in H.insts if i.op == 'phi' and i.ty.get('k') == 'ptr' and
           any(v.k == 'arg' and v.argno == FORMAT for (bb, v) in i.incoming)]
    if len(cur) != 1:
        raise AnalysisBroken('__printf: the format cursor of the directive loop was not found')
    cur = cur[0]
    n = 0
    for T_ in latch_states:
        segs = [s for s in T_.segs if s[0] != 'loop']
        h = T_.env.get(('i', cur.id))
        nxt = None
        for (bb, v) in cur.incoming:
            if f.bmap[bb] in D['loop']['latches']:
                nxt = sx.val(T_, v, f)
        ok = (len(segs) == 1 and segs[0][0] == 'm' and isinstance(h, P) and segs[0][1] == h and segs[0][2] == Lin(1) and
              isinstance(nxt, P) and nxt.base == h.base and T_.cons.entails_eq(nxt.off, h.off + 1))
        n += 1
        rep.inst(rule, '__printf', 'ordinary character: one callback with that character, cursor + 1', ok,
                 H.term.where(), None if ok else 'on the path of an ordinary character the callbacks are %r and the cursor '
                 'moves from %r to %r' % (segs, h, nxt))
    if n == 0:
        rep.inst(rule, '__printf', 'ordinary character: one callback with that character, cursor + 1', False,
                 H.term.where(), 'no path of the directive loop returns to its head without entering a directive')


def toplevel_rule(rep, mod, T, D, join_at=6):
    """R-PCACC for __printf: the whole function with the formatting routines summarised by 'returns the number of callbacks
    it made' (which R-PCACC decides for each routine, print_f excepted: property C13)"""
    f = mod.fn('__printf')
    ems = emitter_functions(mod)
    sx = SX(mod, handler_arg=HANDLER, emitters=list(ems), fmt_base=FMT, join_at=join_at, static_exit=static_exit_loop,
            pure_by_args=CLASSIFIERS)
    st = sx.start(f, fmt_args())
    rets = sx.run_function(f, st)
    bad = [(s, rv) for (s, rv) in rets if not (isinstance(rv, Lin) and s.cons.entails_eq(rv, s.E))]
    ok = bool(rets) and not bad
    rep.inst('R-PCACC', '__printf', 'return value == number of output callbacks', ok, where_fn(f),
             None if ok else ('on some path __printf returns %r after %r callback calls' % (bad[0][1], bad[0][0].E)
                              if bad else 'no path reaches the return'))
    for o in sx.obligs.values():
        if o['kind'] in ('count-nonneg', 'emit-complete'):
            rep.inst('R-EMITCOUNT', o['fn'], o['key'], o['ok'], o['where'], o['detail'])


# ----------------------------------------------------------------------------------------------
# formatting routines in the context of one conversion
# ----------------------------------------------------------------------------------------------
def call_context(mod, D, T, conv):
    """executor arguments for the routine called for conversion conv: [(value per parameter)], roles, forced bits"""
    e = D['table'].get(conv)
    if e is None or len(e['calls']) != 1:
        return None
    c = e['calls'][0]
    f = mod.fn(c['callee'])
    fp = flag_param(f)
    if fp is None:
        raise AnalysisBroken('%s: the directive-word parameter was not recognised' % c['callee'])
    args, roles = [], {}
    for n, p in enumerate(f.params):
        k = p['ty'].get('k')
        if n == 0:
            args.append(P(('fn', 'handler')))
        elif n == 1:
            args.append(P(('arg', 1)))
        elif n == fp:
            args.append(Lin.sym('ops'))
            roles['ops'] = n
        elif c['args'][n] is not None:
            args.append(Lin(c['args'][n]))
            roles.setdefault('const', {})[n] = c['args'][n]
        elif k == 'int' and is_field(c['srcs'][n], D['width_atoi']):
            args.append(Lin.sym('w'))
            roles['w'] = n
        elif k == 'int' and is_field(c['srcs'][n], D['prec_atoi']):
            args.append(Lin.sym('p'))
            roles['p'] = n
        elif k == 'ptr':
            args.append(P(('arg', n)))
            roles['str'] = n
        elif k == 'fp':
            args.append(Fv(None))
            roles['fp'] = n
        elif k == 'int' and 'u' not in roles:
            args.append(Lin.sym('u'))
            roles['u'] = n
        else:
            args.append(Lin.sym('v%d' % n))
    settable = set(T['flags'].values()) | {T['prec']} | set(T['len'].values())
    bits = []
    for i in range(32):
        m = 1 << i
        if m not in settable:
            bits.append((m, 1 if c['extra_bits'] & m else 0))
        elif c['extra_bits'] & m:
            bits.append((m, 1))
    return {'callee': c['callee'], 'args': args, 'roles': roles, 'bits': bits, 'call': c}


def ctxt_key(ctxt):
    return (ctxt['callee'], tuple(vkey(a) for a in ctxt['args']), tuple(ctxt['bits']))


def fact_pre(T, facts, roles):
    """constraints the routines may assume: only what the parser rules proved on every path"""
    w, p = Lin.sym('w'), Lin.sym('p')
    pre = []
    if facts.get('w>=0') and 'w' in roles:
        pre.append(-w)
    if 'p' in roles:
        if facts.get('p>=0'):
            pre.append(-p)
        if facts.get('p==0 without precision') and T['prec']:
            b = Lin.sym(('ops', 'bit', T['prec'].bit_length() - 1))
            pre += [-b, b - 1, p - b * INT_MAX]
    return pre


def int_layout(mod, T, D, facts, convs):
    """R-ILAYOUT, R-IMAG, R-DIGITCHR, R-PCACC, R-EMITCOUNT, R-IBUF for the integer conversions in convs, which all reach
    the same routine with the same constant arguments"""
    rep = Rec()
    conv = convs[0]
    ctxt = call_context(mod, D, T, conv)
    roles = ctxt['roles']
    w, p, u = Lin.sym('w'), Lin.sym('p'), Lin.sym('u')
    pre = fact_pre(T, facts, roles)
    if conv not in 'di':
        pre.append(-u)
    ptr = conv == 'p'
    if 'w' not in roles or 'u' not in roles or ('p' not in roles and not ptr):
        for c in convs:
            rep.inst('R-ILAYOUT', ctxt['callee'], '%%%s: width, precision and value reach the routine' % c, False,
                     ctxt['call']['call'].where(), 'the call passes roles %r' % sorted(k for k in roles if k != 'const'))
        return rep.items
    lay = Layout(mod, T, ctxt['callee'], ctxt['args'], pre=pre, bits=ctxt['bits'])
    sx = lay.sx
    fl = Flags(T)
    f = lay.f
    res, mag = {}, {}
    relevant = ['-', '0', '.'] + (['+', ' '] if conv in 'di' else []) + (['#'] if conv in 'oxX' else [])
    if ptr:
        relevant = ['-']
    for s, rv in lay.rets:
        dn = [n for n in s.notes if n[0] == 'digits']
        ran = len(dn) == 1
        if len(dn) > 1:
            raise AnalysisBroken('%s: more than one digit loop on a path' % f.name)
        p0, nd, u0, d = (dn[0][2], dn[0][3], dn[0][4], dn[0][5]) if ran else (None, Lin(0), None, None)

        def fn(ctx):
            got = norm_segments(sx, ctx, s.segs, digit=(p0.base, p0.off - nd) if ran else None)
            pz = None
            if ptr:
                zs = [g for g in got if g[0] == 'c' and g[1] == 48]
                pz = zs[0][2] if len(zs) == 1 else Lin(0)
            segs, err = model_int(ctx, fl, conv, w, p, u, nd, ran, pzeros=pz)
            key = 'with flags [%s]' % ''.join(c for c in relevant if ctx.flags.get(c))
            if err:
                return (key, False, err, None)
            want = clean_model(ctx, segs)
            ok = same_segments(ctx, got, want)
            if not ok:
                unsummarised_counts(sx, got, ctxt['callee'])
            m = None
            if ran:
                neg = conv in 'di' and ctx.st.cons.entails_lt(u, 0)
                exp = -u if neg else u
                m = (u0 is not None and ctx.eq(u0, exp), d is not None and ctx.eq(d, ISO_BASE[conv]), neg, u0, d)
            if ok:
                return (key, True, None, m)
            cs = ctx.st.cons
            val = 'value < 0' if cs.entails_lt(u, 0) else 'value == 0' if cs.entails_eq(u, 0) else \
                'value > 0' if cs.entails_lt(0, u) else 'any value'
            desc = [val] + [x for x in ctx.desc if not x.endswith('value < 0') and not x.endswith('value == 0')]
            return (key, False, 'case {%s} (w width, p precision, q* number of digits): emitted %s, ISO C requires %s'
                    % (', '.join(desc), show_segments(got), show_segments(want)), m)
        for ctx, (key, ok, detail, m) in enum_cases(sx, s, fn):
            cur = res.get(key)
            if cur is None or (cur[0] and not ok):
                res[key] = (ok, detail)
            if m is not None:
                k2 = 'negative value' if m[2] else 'non-negative value'
                okm = m[0]
                if k2 not in mag or (mag[k2][0] and not okm):
                    mag[k2] = (okm, None if okm else 'the digit loop starts from %r, not from the %s of the 64-bit argument '
                               '(a narrower intermediate type truncates it)' % (m[3], 'negation' if m[2] else 'value'))
                k3 = 'digit base'
                if k3 not in mag or (mag[k3][0] and not m[1]):
                    mag[k3] = (m[1], None if m[1] else 'digits are produced in base %r, the conversion needs base %d'
                               % (m[4], ISO_BASE[conv]))
    for c in convs:
        for key in sorted(res):
            ok, detail = res[key]
            rep.inst('R-ILAYOUT', ctxt['callee'], '%%%s %s' % (c, key), ok, where_fn(f), detail)
        for k2 in sorted(mag):
            ok, detail = mag[k2]
            rep.inst('R-IMAG', ctxt['callee'], '%%%s: %s' % (c, k2), ok, where_fn(f), detail)
    digitchr_rule(rep, 'R-DIGITCHR', lay, T, convs)
    pcacc_rule(rep, 'R-PCACC', lay, '/'.join(convs))
    import_obligs(rep, sx, {'count-nonneg': 'R-EMITCOUNT', 'emit-complete': 'R-EMITCOUNT', 'digit-store': 'R-IBUF', 'emit-read': 'R-IBUF',
                            'local-store': 'R-IBUF'})
    return rep.items


def digitchr_rule(rep, rule, lay, T, convs):
    """the character stored for remainder r is '0'+r below ten, and the letter ('a' or 'A' by the upper-case bit) + r - 10"""
    sx = lay.sx
    ub = Lin.sym(('ops', 'bit', T['upper'].bit_length() - 1)) if T['upper'] else None
    res = {}
    def upd(k, ok, detail, fname):
        if k not in res or (res[k][0] and not ok):
            res[k] = (ok, None if ok else detail, fname)
    for (fname, v, rem, s, dkey, dv) in sx.digit_probes:
        if not isinstance(rem, Lin) or not isinstance(v, Lin):
            res['digit characters are a function of the remainder'] = (False, 'stored %r for remainder %r' % (v, rem), fname)
            continue
        tl = sx.table_loads.get(next(iter(v.t))) if (len(v.t) == 1 and v.c == 0 and list(v.t.values()) == [1]) else None
        if tl is not None:
            # the character comes from a constant table indexed by the remainder: compare the table itself
            g, off = tl
            tab = sx.global_bytes(g) or []
            base = dv.c if isinstance(dv, Lin) and dv.is_const() else None
            if base is None or not s.cons.entails_eq(off, rem):
                upd('digit characters are a function of the remainder', False,
                    'table %s is indexed with %r, the remainder is %r (base %r)' % (g, off, rem, dv), fname)
                continue
            ups = [up for up in (0, 1) if ub is None and not up or
                   (ub is not None and (lambda t: (t.cons.add_eq(ub, up), sx.feasible(t, set(ub.t.keys())))[1])(s.fork()))]
            low = all(r < len(tab) and tab[r] == 48 + r for r in range(min(base, 10)))
            upd("remainder below ten -> '0' + r", low, 'table %s starts with %r' % (g, bytes(tab[:10])), fname)
            if base > 10:
                for up in ups:
                    a = ord('A') if up else ord('a')
                    hi = all(r < len(tab) and tab[r] == a + r - 10 for r in range(10, base))
                    upd("remainder ten and above -> '%s' + r - 10" % ('A' if up else 'a'), hi,
                        'table %s holds %r for the remainders 10..%d' % (g, bytes(tab[10:base]), base - 1), fname)
            continue
        for (s2, small) in sx.branch(s.fork(), ('cmp', 'sle', rem, Lin(9))):
            if small:
                ok = s2.cons.entails_eq(v, rem + 48)
                k = "remainder below ten -> '0' + r"
                if k not in res or (res[k][0] and not ok):
                    res[k] = (ok, None if ok else 'the character stored for a remainder r <= 9 is %r' % (v,), fname)
                continue
            for up in (0, 1):
                s3 = s2.fork()
                if ub is not None:
                    s3.cons.add_eq(ub, up)
                    if not sx.feasible(s3, set(ub.t.keys())):
                        continue
                elif up:
                    continue
                want = rem - 10 + (ord('A') if up else ord('a'))
                ok = s3.cons.entails_eq(v, want)
                k = "remainder ten and above -> '%s' + r - 10" % ('A' if up else 'a')
                if k not in res or (res[k][0] and not ok):
                    res[k] = (ok, None if ok else 'the character stored for a remainder r >= 10 is %r' % (v,), fname)
    for c in convs:
        for k in sorted(res):
            ok, detail, fname = res[k]
            rep.inst(rule, fname, '%%%s: %s' % (c, k), ok, where_fn(lay.f), detail)


def str_layout(mod, T, D, facts, conv):
    """R-SLAYOUT, R-SBOUND, R-PCACC, R-EMITCOUNT for %s (characters of the argument, at most precision, padded) and %c
    (exactly one character, padded)"""
    rep = Rec()
    ctxt = call_context(mod, D, T, conv)
    top = mod.fn('__printf')
    if ctxt is None:
        rep.inst('R-SLAYOUT', '__printf', '%%%s calls one formatting routine' % conv, False, where_fn(top),
                 'conversion %r does not lead to exactly one call of a formatting routine' % conv)
        return rep.items
    roles = ctxt['roles']
    if 'w' not in roles or 'str' not in roles:
        rep.inst('R-SLAYOUT', ctxt['callee'], '%%%s: width and text reach the routine' % conv, False,
                 ctxt['call']['call'].where(), 'the call passes roles %r' % sorted(k for k in roles if k != 'const'))
        return rep.items
    w, p, n = Lin.sym('w'), Lin.sym('p'), Lin.sym('slen')
    pre = fact_pre(T, facts, roles) + [-n]
    if conv == 'c':
        # the text is the two-byte buffer {c, 0}: its string length is 0 (c is the NUL character) or 1
        pre.append(n - 1)
    base = ('arg', roles['str'])
    lay = Layout(mod, T, ctxt['callee'], ctxt['args'], pre=pre, bits=ctxt['bits'], cstr={base: 'slen'})
    sx = lay.sx
    fl = Flags(T)
    f = lay.f
    res, bound = {}, {}
    pbit = Lin.sym(('ops', 'bit', T['prec'].bit_length() - 1)) if T['prec'] else None
    for s, rv in lay.rets:
        def fn(ctx):
            G = fl.get(ctx, '.') if T['prec'] else False
            if conv == 'c' and G:
                return None         # a precision with %c is undefined in ISO C
            segs, err = model_str(ctx, fl, w, p, n, count_is=1 if conv == 'c' else None)
            key = '%%%s with flags [%s]' % (conv, ''.join(c for c in ['-', '.'] if ctx.flags.get(c)))
            want = clean_model(ctx, segs)
            got = norm_segments(sx, ctx, s.segs, strarg=base)
            ok = same_segments(ctx, got, want)
            if not ok:
                unsummarised_counts(sx, got, ctxt['callee'])
            note = ''
            if conv == 'c' and not ok and not ctx.st.cons.entails_le(1, n):
                note = ' (the character is NUL: its string length is 0, but %c must hand it to the callback like any other)'
            return (key, ok, None if ok else 'case {%s}: emitted %s, ISO C requires %s%s'
                    % (', '.join(ctx.desc), show_segments(got), show_segments(want), note))
        for ctx, (key, ok, detail) in enum_cases(sx, s, fn):
            cur = res.get(key)
            if cur is None or (cur[0] and not ok):
                res[key] = (ok, detail)
        if conv == 's':
            for ev in s.events:
                if ev[0] != 'scan' or ev[2] != vkey(P(base)):
                    continue
                if ev[1] == 'strlen':
                    ok = pbit is not None and s.cons.entails_eq(pbit, 0)
                    k = 'no unbounded scan of the argument when a precision is given'
                    d = 'strlen() of the argument on a path where the directive may carry a precision: the scan runs to the ' \
                        'terminator, which need not exist within the precision'
                elif ev[1] == 'strnlen':
                    lim = ev[5]
                    ok = (pbit is not None and s.cons.entails_eq(pbit, 0)) or \
                        (isinstance(lim, Lin) and s.cons.entails_le(lim, p))
                    k = 'a bounded scan of the argument is bounded by the precision'
                    d = 'strnlen() with bound %r, the precision is %r' % (lim, p)
                else:
                    raise AnalysisBroken('%s: the string argument is handed to %s, whose reading extent is not modelled'
                                         % (ev[3], ev[1]))
                cur = bound.get(k)
                if cur is None or (cur[0] and not ok):
                    bound[k] = (ok, None if ok else d)
    for key in sorted(res):
        ok, detail = res[key]
        rep.inst('R-SLAYOUT', ctxt['callee'], key, ok, where_fn(f), detail)
    for k in sorted(bound):
        ok, detail = bound[k]
        rep.inst('R-SBOUND', ctxt['callee'], '%%s: %s' % k, ok, where_fn(f), detail)
    pcacc_rule(rep, 'R-PCACC', lay, conv)
    import_obligs(rep, sx, {'count-nonneg': 'R-EMITCOUNT', 'emit-complete': 'R-EMITCOUNT', 'emit-read': 'R-IBUF', 'local-store': 'R-IBUF'})
    return rep.items


def unsummarised_counts(sx, segs, fname):
    """a layout that disagrees with the model because one of its lengths is the exit value of a loop the executor only
    over-approximates (a hand-written scan instead of strlen / strnlen, say) is not a verdict: what that loop computes is unknown"""
    for sg in segs:
        for x in sg:
            if isinstance(x, Lin):
                for sy in x.t:
                    d = sx.describe_opq(sy) if isinstance(sy, str) else None
                    if d is not None and d[0] in ('h', 'hE', 'hp', 'j', 'jE'):
                        raise AnalysisBroken('%s: an emitted length is the value a loop of %s leaves in %r, which the layout '
                                             'extraction does not summarise (hand-written scan?)' % (fname, d[1], d[2:]))


def import_obligs(rep, sx, mapping, fname_filter=None):
    """executor obligations -> rule instances.  mapping: obligation kind -> rule id"""
    for o in sx.obligs.values():
        r = mapping.get(o['kind'])
        if r is None or (fname_filter and o['fn'] not in fname_filter):
            continue
        rep.inst(r, o['fn'], o['key'], o['ok'], o['where'], o['detail'])


def pcacc_rule(rep, rule, lay, label):
    bad = [(s, rv) for ok, s, rv in lay.pcacc() if not ok]
    ok = not bad and len(lay.rets) > 0
    rep.inst(rule, lay.f.name, 'return value == number of output callbacks (%s)' % label, ok, where_fn(lay.f),
             None if ok else ('on some path the routine returns %r after %r callback calls'
                              % (bad[0][1], bad[0][0].E) if bad else 'no path reaches a return'))


# ----------------------------------------------------------------------------------------------
# driver
# ----------------------------------------------------------------------------------------------
_G = {}


def _task(name):
    kind = name[0]
    mod, T, D, facts, repo = _G['mod'], _G['T'], _G['D'], _G['facts'], _G['repo']
    try:
        if kind == 'int':
            return ('ok', int_layout(mod, T, D, facts, name[1]))
        if kind == 'str':
            return ('ok', str_layout(mod, T, D, facts, name[1]))
        if kind == 'top':
            r = Rec()
            toplevel_rule(r, mod, T, D, join_at=name[1])
            return ('ok', r.items)
        if kind == 'wrap':
            r = Rec()
            c06_wrap.wrapper_rules(r, repo)
            return ('ok', r.items)
    except AnalysisBroken as e:
        return ('broken', str(e))
    raise AnalysisBroken('unknown task %r' % (name,))


def run(rep, repo, tier):
    # The parser rules read the flag / length-modifier / conversion decisions off switch instructions.  When the plain IR has
    # no such switch (the decisions are written as chains of `if (*p == c)` with one load each), the unit is analysed once
    # more after early-cse, which merges the repeated loads so that simplifycfg forms the switch.
    import copy
    saved = {k: copy.copy(v) for k, v in rep.__dict__.items()}
    try:
        return _run(rep, repo, tier, False)
    except AnalysisBroken as first:
        rep.__dict__.clear()
        rep.__dict__.update(saved)
        try:
            return _run(rep, repo, tier, True)
        except AnalysisBroken:
            raise first


def _run(rep, repo, tier, cse):
    mod = unit(repo, cse=cse)
    rep.units += [SRC] + c06_wrap.UNITS
    T = parser_tables(mod)
    D = dispatch(mod)
    try:
        ux = D['table']['X']['calls'][0]['extra_bits']
        lx = D['table']['x']['calls'][0]['extra_bits']
        diff = ux & ~lx
        if diff and diff & (diff - 1) == 0:
            T['upper'] = diff       # however the parser computes it: the bit that distinguishes %X from %x at the call
    except (KeyError, IndexError):
        pass
    loopvar_rule(rep, 'R-LOOPVAR', mod, ['__printf'] + sorted(n for n in emitter_functions(mod) if n != 'print_f'))
    cursor_rule(rep, 'R-CURSOR', mod)
    opsbits_rule(rep, 'R-OPSBITS', mod, T)
    try:
        opsmono_rule(rep, 'R-OPSBITS', mod, T)
    except AnalysisBroken as e:
        rep.defer_broken(e)
    vaarg_rule(rep, 'R-VAARG', mod, T, D, vaarg_sites(mod, T))
    percent_rule(rep, 'R-PERCENT', mod, D)
    wide_rule(rep, 'R-WIDE', mod, T, D)
    next_rule(rep, 'R-NEXT', mod, D)
    facts, pr = parser_rules(rep, mod, T, D)
    literal_rule(rep, 'R-LITERAL', mod, D, pr)
    flags_rule(rep, 'R-FLAGS', mod, T, pr)
    # integer conversions that reach the same routine with the same constants are analysed once
    groups = {}
    for conv in 'diuoxXp':
        ctxt = call_context(mod, D, T, conv)
        if ctxt is None:
            rep.inst('R-ILAYOUT', '__printf', '%%%s calls one formatting routine' % conv, False, where_fn(mod.fn('__printf')),
                     'conversion %r does not lead to exactly one call of a formatting routine' % conv)
            continue
        k = (ctxt_key(ctxt), conv in 'di', ISO_BASE[conv], conv == 'p')
        if tier != 'quick':
            k = k + (conv,)         # thorough: no sharing between conversions that look alike at the call site
        groups.setdefault(k, []).append(conv)
    tasks = [('int', tuple(g)) for g in groups.values()] + [('str', 's'), ('str', 'c'), ('top', 6), ('wrap',)]
    if tier != 'quick':
        tasks.append(('top', 48))   # thorough: the count once more with far fewer path merges
    _G.update(mod=mod, T=T, D=D, facts=facts, repo=repo)
    nproc = min(len(tasks), max(1, (os.cpu_count() or 2) - 1))
    results = None
    if nproc > 1 and not os.environ.get('VERIF_C06_SERIAL'):
        try:
            with multiprocessing.get_context('fork').Pool(nproc) as pool:
                results = pool.map(_task, tasks, chunksize=1)
        except (OSError, ValueError):
            results = None          # no worker processes available here: same work, one after the other
    if results is None:
        results = [_task(t) for t in tasks]
    for t, (st, payload) in zip(tasks, results):
        if st != 'ok':
            # one context that cannot be analysed must not hide what the others (and the parser rules) found: the check ends
            # analysis-broken unless a violation is reported elsewhere
            rep.defer_broken(AnalysisBroken('%r: %s' % (t, payload)))
            continue
        for it in payload:
            rep.inst(*it[:6], nontrivial=it[6], fact=it[7])
    for rule, n in (('R-LOOPVAR', 12), ('R-CURSOR', 15), ('R-OPSBITS', 18), ('R-VAARG', 25), ('R-PERCENT', 1), ('R-WIDE', 1),
                    ('R-NEXT', 10), ('R-STAR', 4), ('R-FIELD', 3), ('R-SYNTAX', 12), ('R-FLAGS', 5), ('R-PARSE', 1),
                    ('R-LITERAL', 1), ('R-ILAYOUT', 100), ('R-IMAG', 15), ('R-DIGITCHR', 9), ('R-SLAYOUT', 6),
                    ('R-SBOUND', 1), ('R-PCACC', 5), ('R-EMITCOUNT', 6), ('R-IBUF', 2), ('R-WRAP', 18)):
        rep.floor(rule, n)
    rep.assumptions += [
        'LP64 target (the IR is produced for x86-64 Linux): long, long long, intmax_t, size_t, ptrdiff_t are 64 bits wide',
        'integers are mathematical in the layout models: width, precision and the character count stay below INT_MAX',
        'directive grammar %[flags][width][.precision][length]conversion: a numeric field is a run of digits (atoi of it is '
        'non-negative, and 0 when the text does not start with a digit), the character after a * width is not a digit',
        'the digit generation loop do { *--p = digit(u % base); u /= base; } while (u) is summarised by its trip count '
        '(number of base-b digits of u); its shape is recognised structurally, the stored character per remainder is checked',
        'undefined directives are not judged: precision with %c, flags # and 0 with c/s, %lc, unknown conversion letters',
        'print_f (%f %e %g %a) belongs to property C13: here it is only assumed to return the number of callbacks it made',
    ]
    rep.explanation = (
        'Decided for every directive of the grammar and every argument value (symbolically, no enumeration of values).  '
        'Parser (__printf): every loop has an exit test that changes (R-LOOPVAR); the format cursor never steps over a '
        'character that could be the terminator (R-CURSOR); each flag / length character has its own bit and one pass of '
        'the flag loop adds exactly that bit (R-OPSBITS, R-FLAGS); width, precision, length modifier and conversion '
        'character are each read where the previous part ended and the scan resumes right after the conversion character '
        '(R-SYNTAX, R-NEXT); literal and * fields become the width and precision ISO C prescribes, a negative * width '
        'left-justifies, a negative * precision counts as none (R-FIELD, R-STAR); every argument is fetched with the C type '
        'of its length modifier and is what the formatting routine receives (R-VAARG); an ordinary character and %% cost '
        'one callback each (R-LITERAL, R-PERCENT).  Formatting routines, executed symbolically per conversion with the '
        'constants of their call site: the emission (padding, sign, prefix, precision zeros, digits, justification) equals '
        'the ISO C 7.21.6.1 layout in every case of the flag / width / precision / value split (R-ILAYOUT, R-SLAYOUT), digits '
        'come from the full 64-bit magnitude in the right base with the right characters (R-IMAG, R-DIGITCHR), all stores '
        'and reads stay inside the digit buffer (R-IBUF), no emission loop counts down from a negative value (R-EMITCOUNT), '
        '%s never scans the argument beyond the precision (R-SBOUND), every routine and __printf itself return the number '
        'of callbacks made (R-PCACC).  Wrappers: cursor, terminator, forwarding of format / arguments / count, error code of '
        'the descriptor variant, and the size bound of snprintf (R-WRAP).  %p is judged against the form the property '
        'states (0x + hex digits of the pointer, any number of leading zeros).  Not decided: the floating conversions '
        '(C13), %n, the wide forms %lc / %ls beyond the fact that the l bit is ignored (R-WIDE, reported as known), '
        'arithmetic overflow of int counters for fields wider than INT_MAX, behaviour of the callback.')
