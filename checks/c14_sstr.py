"""C14, CONTENT clauses of igris::static_string<N> (static_string.h and its std_portable.h twin) and of the int
instantiation of igris::static_vector<int, N>: "within capacity they expose exactly the contents of a reference sequence,
excess input is dropped keeping the prefix".

Byte-identity abstract interpretation on small concrete capacities (N = 1..5, thorough tier also 6 and 8) with the
interpreter of c08_content.py (byte-granular memory, one 8-bit symbol per byte position, loops executed on their concrete
bounds, write log).  One scenario per (member, capacity, entry size, argument length / position ...): the container
object is laid out from the LLVM struct type (the array field is the storage, the 64-bit integer field the size),
m_size is a constant, every byte of the storage - text, spare bytes behind the text, padding - and 4 guard bytes on both
sides of the object are symbols of their own (an int slot of static_vector<int,N> is four byte symbols, so a copied
value keeps its identity through load/store, memcpy and memmove alike).  At every return

  :content  m_size and every byte of the text / every int slot below m_size equal the reference sequence
  :result   the returned value / pointer / reference is the one the reference sequence gives
  :frame    every byte the definition leaves alone keeps its entry value (source strings, the other container, padding,
            guard bytes, for the observers the whole object), and no store falls outside the bytes the definition lets
            the member write (the storage array and m_size; for c_str() only the bytes from the terminator on)
  :range    every access stays inside the objects, every loop ends, a return is reachable

`:analysed` instances carry the floors: a scenario that cannot be analysed exactly (opaque value, call without summary)
removes the member's `:analysed` instance -> exit 2, never a verdict.  Members whose bodies do not compile when they are
instantiated are found by -fsyntax-only probes of the witness (`:instantiable`); their content clauses are decided as soon
as they compile.  Nothing is executed."""
import os
import subprocess

from common import *
from irlib import CXX_FLAGS, tyname, demangle1
from absval import PtrVal, IntVal, TOP, State, Obj, mk_const
from lin import Lin
import c08_content as CB
from c08_content import Unresolved, Buf, u8, same, show, explore, decide_eq

G = 4                           # guard bytes on both sides of every object
WITNESS = 'w_c14_sstr.cpp'
CAPS = {'quick': [1, 2, 3, 4, 5], 'thorough': [1, 2, 3, 4, 5, 6, 8]}

RULE_SS = {False: 'R-SSTEXT', True: 'R-SSTEXT-TWIN'}
RULE_SV = {False: 'R-SVINT', True: 'R-SVINT-TWIN'}
HDR = {False: 'igris/container/static_string.h', True: 'igris/container/std_portable.h'}


# ----------------------------------------------------------------------------------------------------------------
# interpreter: c08_content.ByteInterp + byte-tracked locals, pointer cells, libc summaries on symbolic bytes
# ----------------------------------------------------------------------------------------------------------------
def no_summary(name):
    def ext(interp, st, i, args):
        raise Unresolved('call to %s, which has no summary in the content analysis' % name)
    return ext


def ext_strlen_bytes(interp, st, i, args):
    """strlen on a byte-tracked buffer: the scenario fixes the position of the first NUL (characters are 1..255)"""
    p = args[0]
    o = interp.tracked(st, p)
    if o is None or not p.off.is_const():
        raise Unresolved('strlen of a pointer the scenario did not build')
    k = 0
    while True:
        interp.check_access(st, PtrVal(p.obj, p.off + k), 1, i, 'load')
        if st.bottom:
            return []
        b = u8(st, interp.byte(st, p.obj, p.off.c + k))
        if b.is_const() and b.c == 0:
            return [(st, mk_const(64, k))]
        if not (st.cons.entails_le(1, b) or st.known_diseq(b, 0)):
            raise Unresolved('strlen over a byte that may or may not be NUL')
        k += 1


def ext_memset_bytes(interp, st, i, args):
    d, v, n = args[0], args[1], args[2]
    if isinstance(v, IntVal) and v.w != 8:
        c = v.const()
        if c is None:
            l8 = interp.low8(st, v)
            if l8 is None:
                raise Unresolved('memset with a fill value that is not a character')
            v = IntVal(8, l8, None)
        else:
            v = mk_const(8, c & 0xff)
    return CB.ext_bytes_set(interp, st, i, [d, v, n])


def only_zero_tests(fn, i):
    """every use of the call result is an (in)equality test against zero"""
    us = fn.users(i)
    return bool(us) and all(u.op == 'icmp' and u.pred in ('eq', 'ne') and any(o.k == 'ci' and o.uval == 0 for o in u.ops)
                            for u in us)


def ext_memcmp_bytes(interp, st, i, args):
    """memcmp on symbolic bytes: one path per position of the first difference + the all-equal path.  The sign follows the
    first differing bytes compared as unsigned char; when the caller only tests the result against zero the two signs are
    one path"""
    a, b, n = args[0], args[1], args[2]
    c = n.const() if isinstance(n, IntVal) else None
    if c is None or interp.tracked(st, a) is None or interp.tracked(st, b) is None or not a.off.is_const() or \
            not b.off.is_const():
        raise Unresolved('memcmp of a non-constant size or of a pointer the scenario did not build')
    if c:
        interp.check_access(st, a, c, i, 'load')
        if not st.bottom:
            interp.check_access(st, b, c, i, 'load')
    if st.bottom:
        return []
    merged = only_zero_tests(i.fn, i)
    out = []
    cur = st
    for j in range(c):
        x = u8(cur, interp.byte(cur, a.obj, a.off.c + j))
        y = u8(cur, interp.byte(cur, b.obj, b.off.c + j))
        d = decide_eq(cur, x, y)
        if d is True:
            continue
        if merged:
            s2 = cur.fork() if d is None else cur
            if d is None:
                s2.add_diseq(x, y)
            out.append((s2, mk_const(32, 1)))
        else:
            for (lo, hi, sign) in ((x, y, -1), (y, x, 1)):
                s2 = cur.fork()
                s2.cons.add_lt(lo, hi)
                if not interp.infeasible(s2, lo, hi):
                    out.append((s2, mk_const(32, sign)))
        if d is False:
            cur = None
            break
        cur.cons.add_eq(x, y)
    if cur is not None:
        out.append((cur, mk_const(32, 0)))
    return out


class PtrByte:
    """byte j of a pointer value stored into byte-tracked memory"""
    __slots__ = ('p', 'j')

    def __init__(self, p, j):
        self.p, self.j = p, j

    def __repr__(self):
        return 'byte %d of %r' % (self.j, self.p)


class SInterp(CB.ByteInterp):
    """ByteInterp over one witness module.  Locals are byte-tracked as well (a temporary container is copied with the same
    block moves as a parameter); a pointer stored into tracked memory is kept as a pointer cell next to the bytes."""

    def __init__(self, mod, opaque=()):
        CB.ByteInterp.__init__(self, {'w': mod}, 'w')
        for n in CB.UNITS + ['strtok_r']:
            self.externals[n] = no_summary(n)
        self.externals['strlen'] = ext_strlen_bytes
        self.externals['memcpy'] = CB.ext_bytes_move        # all source bytes are read before the first is written
        self.externals['memmove'] = CB.ext_bytes_move
        self.externals['memset'] = ext_memset_bytes
        self.externals['memcmp'] = ext_memcmp_bytes
        self.opaque = set(opaque)
        self.max_iter = 64

    def exec_inst(self, fn, i, st):
        if i.op == 'alloca':
            aty = i.d['alloc_ty']
            n = self.val(st, i.ops[0], fn) if i.ops else None
            cnt = n.const() if isinstance(n, IntVal) else None
            if 'size' not in aty or cnt is None:
                raise Unresolved('local of unknown size in %s' % fn.name)
            oid = 'alloca:%s:%d:%d' % (fn.name, i.id, len(st.frames))
            label = 'local %s of %s' % (i.name or i.id, fn.srcname or fn.name)
            st.objs[oid] = Obj(oid, 'alloca', Lin(aty['size'] * cnt), {'desc': label, 'bytes': True, 'label': label, 'base': 0})
            for k in [k for k in st.mem if k[0] == oid]:
                del st.mem[k]
            st.env[('i', i.id)] = PtrVal(oid)
            return [st]
        return CB.ByteInterp.exec_inst(self, fn, i, st)

    def check_access(self, st, p, size, inst, kind):
        o = self.tracked(st, p)
        pay = o.info.get('payload') if o is not None else None
        if pay is not None and p.off.is_const() and kind != 'store' and 'dst' not in kind:
            n = size if isinstance(size, int) else (size.c if isinstance(size, Lin) and size.is_const() else None)
            if n is not None and n > 0 and (p.off.c < pay[0] or p.off.c + n > pay[1]):
                # a read outside the object (inside its guard zone): nothing the definition may look at
                self.events.append(dict(fn=inst.fn.name, kind=kind, label=o.info['label'], off=p.off.c - o.info.get('base', 0),
                                        size=n, where=inst.where()))
                st.bottom = True
                return
        return CB.ByteInterp.check_access(self, st, p, size, inst, kind)

    def load(self, st, p, ty, inst):
        o = self.tracked(st, p)
        if o is not None and ty.get('k') == 'ptr':
            self.check_access(st, p, 8, inst, 'load')
            if st.bottom:
                return TOP
            bs = [st.mem.get((p.obj, p.off.c + j, 1)) for j in range(8)]
            if all(isinstance(b, PtrByte) and b.j == j and b.p is bs[0].p for j, b in enumerate(bs)):
                return bs[0].p
            raise Unresolved('load of a pointer from %s that no pointer was stored to' % o.info['label'])
        return CB.ByteInterp.load(self, st, p, ty, inst)

    def store(self, st, p, v, size, inst):
        o = self.tracked(st, p)
        if o is not None and isinstance(v, PtrVal) and size == 8:
            # a pointer in byte-tracked memory: eight cells that remember the pointer (block moves carry them along, the
            # loop-head signature of run_loop sees a cursor that lives in memory)
            self.check_access(st, p, size, inst, 'store')
            if st.bottom:
                return
            for j in range(8):
                st.mem[(p.obj, p.off.c + j, 1)] = PtrByte(v, j)
            st.ghost['W'] = st.ghost.get('W', frozenset()) | frozenset((p.obj, p.off.c + j) for j in range(8))
            return
        return CB.ByteInterp.store(self, st, p, v, size, inst)

    @staticmethod
    def vkey(v):
        if isinstance(v, PtrByte):
            return ('p', v.p.obj, v.p.off.key() if v.p.off is not None else None, v.j)
        return CB.ByteInterp.vkey(v)

    def default_external(self, st, i, callee, args):
        raise Unresolved('call to %s, which has no summary in the content analysis' % callee)


# ----------------------------------------------------------------------------------------------------------------
# units, layouts, member resolution
# ----------------------------------------------------------------------------------------------------------------
class Layout:
    def __init__(self, mod, sname, what):
        st = mod.structs.get(sname)
        if st is None:
            raise AnalysisBroken('%s: LLVM struct %s not found' % (what, sname))
        arr = [f for f in st['fields'] if f['ty']['k'] == 'array']
        ints = [f for f in st['fields'] if f['ty']['k'] == 'int' and f['ty']['bits'] == 64]
        if len(arr) != 1 or len(ints) != 1 or len(st['fields']) != 2:
            raise AnalysisBroken('%s: expected one storage array and one 64-bit size field, found %s (layout changed: the '
                                 'scenarios of c14_sstr.py need revisiting)' % (what, [f['ty']['s'] for f in st['fields']]))
        self.sizeof = st['size']
        self.data_off = arr[0]['off']
        self.data_len = arr[0]['ty']['size']
        self.size_off = ints[0]['off']
        self.sname = sname


class Unit:
    """one compiled witness: capacity n, header variant, resolved members"""

    def __init__(self, mod, n, twin, have):
        self.mod, self.n, self.twin, self.have = mod, n, twin, have
        self.ss_cls = 'igris::static_string<%dUL>::' % n
        self.sv_cls = 'igris::static_vector<int, %dUL>::' % n
        self.ss = [f for f in mod.defined() if f.scope == self.ss_cls]
        self.sv = [f for f in mod.defined() if f.scope == self.sv_cls]
        if not self.ss or not self.sv:
            raise AnalysisBroken('witness %s (N=%d%s): no member of static_string / static_vector<int> instantiated'
                                 % (WITNESS, n, ', twin' if twin else ''))
        self.ss_lay = Layout(mod, tyname(self.ss[0].params[0]['ty']['elem']), 'static_string<%d>' % n)
        self.sv_lay = Layout(mod, tyname(self.sv[0].params[0]['ty']['elem']), 'static_vector<int,%d>' % n)
        if self.sv_lay.data_len != 4 * n:
            raise AnalysisBroken('static_vector<int,%d>::_data has %d bytes' % (n, self.sv_lay.data_len))

    def members(self, cls, base, nparams=None, const=None, pred=None):
        fs = [f for f in (self.ss if cls == 'ss' else self.sv) if base_name(f) == base]
        if nparams is not None:
            fs = [f for f in fs if len([p for p in f.params if not p.get('sret')]) == nparams]
        if const is not None:
            fs = [f for f in fs if f.name.startswith('_ZNK') == const]
        if pred is not None:
            fs = [f for f in fs if pred(f)]
        return fs

    def member(self, cls, base, nparams=None, const=None, pred=None):
        fs = self.members(cls, base, nparams, const, pred)
        if len(fs) != 1:
            raise AnalysisBroken('%s<..%d>::%s: %d candidate(s) in the witness (anchor vanished, overload added, or witness '
                                 'out of date)' % ('static_string' if cls == 'ss' else 'static_vector<int', self.n, base, len(fs)))
        return fs[0]

    def fn(self, name):
        f = self.mod.fn(name)
        if f is None or f.decl:
            raise AnalysisBroken('witness function %s missing' % name)
        return f

    def nice(self, f):
        """demangled name with the capacity spelled N (one identity per member whatever the capacity)"""
        d = demangle1(f.name)
        if 'igris::' in d:
            d = d[d.index('igris::'):]
        return d.replace('<%dul>' % self.n, '<N>').replace(', %dul>' % self.n, ', N>')


def clang_syntax(repo, flags):
    cmd = ['clang++'] + CXX_FLAGS + ['-fsyntax-only', '-fno-builtin', '-w', '-I' + repo] + list(flags) + \
        [os.path.join(WIT, WITNESS)]
    r = subprocess.run(cmd, capture_output=True, text=True)
    return r.returncode == 0, r.stderr


def probe_members(rep, repo):
    """members that today's witness cannot take for granted: does the member compile when it is used?
    -> {(twin, flag): bool}.  A failure that is not located in the instantiation of the probed member is analysis-broken."""
    out = {}
    probes = [(False, 'SSTR_INDEX', 'operator[]', 'igris::static_string<N>::operator[](unsigned long)',
               'igris::static_string<4> s("ab"); char c = s[0];'),
              (True, 'SSTR_INDEX', 'operator[]', 'igris::static_string<N>::operator[](unsigned long)',
               'igris::static_string<4> s("ab"); char c = s[0];'),
              (True, 'SSTR_FIND', 'find', 'igris::static_string<N>::find(char const*, unsigned long) const',
               'const igris::static_string<4> s("ab"); int k = s.find("b");')]
    based = set()
    for (twin, flag, member, fname, use) in probes:
        base = ['-DSSTR_N=4'] + (['-DSSTR_TWIN'] if twin else [])
        if twin not in based:
            ok0, err0 = clang_syntax(repo, base)
            if not ok0:
                raise AnalysisBroken('witness %s does not compile (%s):\n%s' % (WITNESS, ' '.join(base), err0[-1500:]))
            based.add(twin)
        ok, err = clang_syntax(repo, base + ['-D' + flag])
        if not ok:
            inst = [l for l in err.splitlines() if 'in instantiation of member function' in l]
            if not inst or not all(('::%s' % member) in l and 'static_string<' in l for l in inst):
                raise AnalysisBroken('witness %s -D%s fails to compile outside %s:\n%s' % (WITNESS, flag, member, err[-1500:]))
        errs = [l.split('error:', 1)[1].strip() for l in err.splitlines() if 'error:' in l]
        rep.inst(RULE_SS[twin] + ':instantiable', fname, 'the-member-compiles-when-it-is-used', ok, HDR[twin],
                 None if ok else '%s does not compile: %s' % (use, '; '.join(errs)[:500]), fact={'probe': '-D' + flag})
        out[(twin, flag)] = ok
    return out


def compile_units(repo, caps, have):
    jobs = []
    keys = []
    for n in caps:
        for twin in (False, True):
            flags = ['-DSSTR_N=%d' % n] + (['-DSSTR_TWIN'] if twin else [])
            flags += ['-D' + fl for (tw, fl), ok in sorted(have.items()) if tw == twin and ok]
            jobs.append({'src': os.path.join(WIT, WITNESS), 'flags': flags, 'name': 'w_c14_sstr_%d_%d' % (n, int(twin))})
            keys.append((n, twin, flags))
    mods = compile_many(jobs, repo)
    return [(Unit(m, n, twin, set(fl for (tw, fl), ok in have.items() if tw == twin and ok)), flags)
            for m, (n, twin, flags) in zip(mods, keys)]


# ----------------------------------------------------------------------------------------------------------------
# scenarios
# ----------------------------------------------------------------------------------------------------------------
class Cont(Buf):
    """a container object inside a buffer with guard bytes"""

    def __init__(self, oid, label, lay, size):
        Buf.__init__(self, oid, label, G, lay.sizeof, G + lay.sizeof + G)
        self.lay = lay
        self.entry_size = size

    def dpos(self, k):
        """(object, offset) of storage byte k"""
        return (self.obj, self.base + self.lay.data_off + k)

    def dptr(self, k=0):
        return PtrVal(self.obj, Lin(self.base + self.lay.data_off + k))

    def dat(self, k):
        """entry value of storage byte k"""
        return self.init[self.base + self.lay.data_off + k]

    def storage(self):
        return set(self.dpos(k) for k in range(self.lay.data_len))

    def size_cells(self):
        return set((self.obj, self.base + self.lay.size_off + k) for k in range(8))

    def body(self):
        return set((self.obj, self.base + k) for k in range(self.lay.sizeof))


class Scn:
    def __init__(self, unit, desc, opaque=()):
        self.unit = unit
        self.it = SInterp(unit.mod, opaque)
        self.st = State()
        self.desc = 'N=%d, %s' % (unit.n, desc)
        self.bufs = []

    def _fill(self, b, off, name, val=None, nz=False):
        st = self.st
        if val is None:
            v = st.fresh_int(8, False, name)
            if nz:
                st.cons.add_le(1, v.u)
        else:
            v = mk_const(8, val)
        st.mem[(b.obj, off, 1)] = v
        b.init[off] = v

    def cont(self, label, lay, size, elem=1, raw=False):
        """container with `size` elements on entry (raw: every byte, m_size included, is indeterminate)"""
        st = self.st
        total = G + lay.sizeof + G
        o = st.new_obj('param', Lin(total), label, {'desc': 'container %s' % label, 'bytes': True, 'label': label, 'base': G,
                                                     'payload': (G, G + lay.sizeof)})
        b = Cont(o.id, label, lay, size)
        for off in range(total):
            k = off - G
            if k < 0 or k >= lay.sizeof:
                self._fill(b, off, 'B.%s.guard[%d]' % (label, k))
            elif lay.data_off <= k < lay.data_off + lay.data_len:
                j = k - lay.data_off
                if elem == 1:
                    self._fill(b, off, 'B.%s[%d]' % (label, j))
                else:
                    self._fill(b, off, 'B.%s[%d].b%d' % (label, j // elem, j % elem))
            elif lay.size_off <= k < lay.size_off + 8 and not raw:
                self._fill(b, off, None, (size >> (8 * (k - lay.size_off))) & 0xff)
            elif lay.size_off <= k < lay.size_off + 8:
                self._fill(b, off, 'B.%s.m_size.b%d' % (label, k - lay.size_off))
            else:
                self._fill(b, off, 'B.%s.pad[%d]' % (label, k))
        self.bufs.append(b)
        return b

    def buf(self, label, n, content=None, elem=1, post=G):
        """plain buffer of n bytes; content: list of 'nz' | 'any' | int"""
        st = self.st
        total = G + n + post
        o = st.new_obj('param', Lin(total), label, {'desc': 'buffer %s' % label, 'bytes': True, 'label': label, 'base': G,
                                                     'payload': (G, G + n)})
        b = Buf(o.id, label, G, n, total)
        for off in range(total):
            k = off - G
            kind = content[k] if content is not None and 0 <= k < n else 'any'
            if isinstance(kind, int):
                self._fill(b, off, None, kind)
            elif 0 <= k < n:
                nm = 'B.%s[%d]' % (label, k) if elem == 1 else 'B.%s[%d].b%d' % (label, k // elem, k % elem)
                self._fill(b, off, nm, nz=(kind == 'nz'))
            else:
                self._fill(b, off, 'B.%s.guard[%d]' % (label, k))
        self.bufs.append(b)
        return b

    def cstr(self, label, length):
        return self.buf(label, length + 3, ['nz'] * length + [0] + ['any'] * 2)

    def chr(self):
        c = self.st.fresh_int(8, False, 'P.c')
        return c

    def run(self, f, args):
        it = self.it
        it.stack = [(f.name, 'entry')]
        rets = it.run_function(f, self.st, list(args))
        it.stack = []
        return rets


class Book:
    """clause results per (rule, function, clause) over all capacities, scenarios and paths"""

    def __init__(self):
        self.cl = {}
        self.unres = {}
        self.scen = {}
        self.paths = {}
        self.members = {}         # (rule, fname) -> where
        self.units = {}           # (rule, fname) -> set of capacities analysed

    def note(self, rule, fname, key, ok, detail=None):
        c = self.cl.setdefault((rule, fname, key), {'ok': True, 'detail': None, 'n': 0})
        c['n'] += 1
        if not ok and c['ok']:
            c['ok'] = False
            c['detail'] = detail

    def unresolved(self, rule, fname, why):
        self.unres.setdefault((rule, fname), []).append(why)

    def merge(self, o):
        for k, c in o.cl.items():
            m = self.cl.setdefault(k, {'ok': True, 'detail': None, 'n': 0})
            m['n'] += c['n']
            if not c['ok'] and m['ok']:
                m['ok'] = False
                m['detail'] = c['detail']
        for k, v in o.unres.items():
            self.unres.setdefault(k, []).extend(v)
        for d, od in ((self.scen, o.scen), (self.paths, o.paths)):
            for k, v in od.items():
                d[k] = d.get(k, 0) + v
        for k, v in o.members.items():
            self.members.setdefault(k, v)
        for k, v in o.units.items():
            self.units.setdefault(k, set()).update(v)

    def flush(self, rep):
        for (rule, fname, key), c in self.cl.items():
            rep.inst(rule, fname, key, c['ok'], self.members.get((rule.split(':')[0], fname), ''), c['detail'],
                     fact={'states_checked': c['n']})
        for (rule, fname), where in self.members.items():
            if (rule, fname) in self.unres:
                continue
            rep.inst(rule + ':analysed', fname, 'every-scenario-analysed-exactly', True, where, None,
                     fact={'scenarios': self.scen.get((rule, fname), 0), 'paths': self.paths.get((rule, fname), 0),
                           'capacities': sorted(self.units.get((rule, fname), ()))})
        for (rule, fname), why in self.unres.items():
            print('NOTE %s %s: scenario not analysable, no verdict: %s' % (rule, fname, why[0]))
        if self.unres:
            rep.extra.setdefault('c14_sstr_unresolved', {}).update({'%s %s' % k: v[:3] for k, v in self.unres.items()})


class Ctx:
    """what one member's scenarios share"""

    def __init__(self, bk, rule, unit, f, fname=None, where=None):
        self.bk, self.rule, self.unit, self.f = bk, rule, unit, f
        self.fname = fname or unit.nice(f)
        self.k = (rule, self.fname)
        if where is None:
            where = '%s:%d' % (relpath(_REPO.get('repo', ''), f.file), f.line) if f.file else ''
        bk.members.setdefault(self.k, where)
        bk.units.setdefault(self.k, set()).add(unit.n)

    def scenario(self, fn):
        bk = self.bk
        bk.scen[self.k] = bk.scen.get(self.k, 0) + 1
        try:
            fn()
        except Unresolved as e:
            bk.unresolved(self.rule, self.fname, str(e))
        except AnalysisBroken as e:
            if 'path explosion' in str(e):
                bk.unresolved(self.rule, self.fname, str(e))
            else:
                raise

    def note(self, kind, key, ok, detail=None):
        self.bk.note(self.rule + ':' + kind, self.fname, key, ok, detail)

    # ---- clauses shared by every scenario ----------------------------------------------------------------------
    def returns(self, sc, rets):
        ev = sc.it.events
        d = None
        if ev:
            e = ev[0]
            if e['kind'] == 'endless':
                d = '%s: the loop at %s of %s never ends (its state repeats)' % (sc.desc, e['where'], e['fn'])
            else:
                d = ('%s: %s of %d byte(s) at %s%+d, outside the object (and its guard zone) in %s (%s)'
                     % (sc.desc, e['kind'], e['size'], e['label'], e['off'], e['fn'], e['where']))
        bad = [ob for ob in sc.it.obligs.values() if not ob.ok and (ob.kind.startswith('bounds') or ob.kind == 'deref-null')]
        if bad and d is None:
            d = '%s: %s' % (sc.desc, bad[0].detail)
        ok = d is None
        self.note('range', 'accesses-stay-inside-the-objects-and-every-loop-ends', ok, d)
        if ok:
            self.note('range', 'returns', bool(rets), None if rets else '%s: no return is reachable' % sc.desc)
        self.bk.paths[self.k] = self.bk.paths.get(self.k, 0) + len(rets)

    def memory(self, sc, T, want, free, allowed, what):
        """want: {(obj, off): expected byte}; free: positions whose value the definition leaves open; every other byte of
        every object must keep its entry value; stores only at positions in `allowed`"""
        for b in sc.bufs:
            for off in range(b.size):
                pos = (b.obj, off)
                cur = T.mem.get((b.obj, off, 1))
                if pos in want:
                    e = want[pos]
                    if cur is None:
                        ok, got = False, 'an indeterminate byte'
                    else:
                        ok = same(T, cur, e)
                        got = show(u8(T, cur))
                    self.note('content', what, ok, None if ok else '%s: %s holds %s at the return, the reference sequence '
                              'prescribes %s' % (sc.desc, place(b, off), got, show(u8(T, e))))
                elif pos in free:
                    continue
                else:
                    ok = cur is not None and same(T, cur, b.init[off])
                    self.note('frame', 'every-byte-the-definition-leaves-alone-keeps-its-value', ok, None if ok else
                              '%s: %s is changed to %s although the definition leaves it alone'
                              % (sc.desc, place(b, off), show(u8(T, cur)) if cur is not None else 'an indeterminate byte'))
        w = T.ghost.get('W', frozenset())
        mine = dict((b.obj, b) for b in sc.bufs)
        extra = sorted(p for p in w if p not in allowed and p[0] in mine)
        d = None
        if extra:
            d = '%s: a store to %s, which the definition does not let this member write' % (
                sc.desc, place(mine[extra[0][0]], extra[0][1]))
        self.note('frame', 'no-store-outside-the-bytes-the-member-may-write', not extra, d)

    def size_is(self, sc, T, c, n, what='m_size-equals-the-length-of-the-reference-sequence'):
        """m_size of container c equals the constant n at the return"""
        bs = [T.mem.get((c.obj, c.base + c.lay.size_off + k, 1)) for k in range(8)]
        if any(b is None for b in bs):
            self.note('content', what, False, '%s: m_size of %s is indeterminate at the return' % (sc.desc, c.label))
            return
        vals = [u8(T, b) for b in bs]
        if all(v.is_const() for v in vals):
            got = sum(v.c << (8 * k) for k, v in enumerate(vals))
            ok = got == n
            self.note('content', what, ok, None if ok else '%s: %s.m_size is %d at the return, the reference sequence has %d '
                      'element(s)' % (sc.desc, c.label, got, n))
            return
        ok = all(same(T, b, Lin((n >> (8 * k)) & 0xff)) for k, b in enumerate(bs))
        self.note('content', what, ok, None if ok else '%s: %s.m_size is not the constant %d at the return (low byte %s)'
                  % (sc.desc, c.label, n, show(vals[0])))

    def ptr_is(self, sc, T, rv, c, off, key, what):
        """the returned pointer designates object offset `off` of c (off relative to the container start)"""
        ok = isinstance(rv, PtrVal) and not rv.is_null and rv.obj == c.obj and rv.off.is_const() and rv.off.c == c.base + off
        got = describe_ptr(rv, sc)
        self.note('result', key, ok, None if ok else '%s: returns %s, expected %s' % (sc.desc, got, what))

    def int_is(self, sc, T, rv, n, key):
        if not isinstance(rv, IntVal):
            raise Unresolved('the result is not an integer')
        c = rv.const()
        if c is None:
            u = T.force_u(rv)
            if not CB.exact_form(u):
                raise Unresolved('the result has a value the analysis cannot name (%r)' % (u,))
        ok = c is not None and c == n % (1 << rv.w)
        self.note('result', key, ok, None if ok else '%s: returns %s, expected %d'
                  % (sc.desc, c if c is not None else show(T.force_u(rv)), n))


_REPO = {}


def place(b, off):
    """readable name of byte `off` of buffer b"""
    k = off - b.base
    if isinstance(b, Cont):
        lay = b.lay
        if lay.data_off <= k < lay.data_off + lay.data_len:
            return '%s.storage[%d]' % (b.label, k - lay.data_off)
        if lay.size_off <= k < lay.size_off + 8:
            return '%s.m_size (byte %d)' % (b.label, k - lay.size_off)
        if 0 <= k < lay.sizeof:
            return 'padding byte %d of %s' % (k, b.label)
        return 'the byte at offset %d of %s (outside the object)' % (k, b.label)
    if 0 <= k < b.n:
        return '%s[%d]' % (b.label, k)
    return 'the byte at offset %d of %s (outside the buffer)' % (k, b.label)


def describe_ptr(rv, sc):
    if not isinstance(rv, PtrVal):
        return 'a value that is not a pointer'
    if rv.is_null:
        return 'nullptr'
    for b in sc.bufs:
        if b.obj == rv.obj and rv.off.is_const():
            return 'the address of ' + place(b, rv.off.c)
    return 'a pointer into another object'


# ----------------------------------------------------------------------------------------------------------------
# static_string<N>
# ----------------------------------------------------------------------------------------------------------------
K_TEXT = 'the-text-is-the-reference-sequence'
K_PREFIX = 'the-text-is-the-first-min(len,N)-characters-of-the-source-in-order'


def this_ptr(c):
    return PtrVal(c.obj, Lin(c.base))


def span(c, a, b):
    return set(c.dpos(k) for k in range(a, b))


def ss_construct(bk, unit):
    rule, n, lay = RULE_SS[unit.twin], unit.n, unit.ss_lay
    # static_string()
    cx = Ctx(bk, rule, unit, unit.member('ss', 'static_string', 1))

    def dflt():
        sc = Scn(unit, 'static_string() on raw storage')
        c = sc.cont('s', lay, 0, raw=True)
        rets = sc.run(cx.f, [this_ptr(c)])
        cx.returns(sc, rets)
        for (T, rv) in rets:
            cx.size_is(sc, T, c, 0)
            cx.memory(sc, T, {}, c.body(), c.body(), K_TEXT)
    cx.scenario(dflt)
    # static_string(const char*)
    cy = Ctx(bk, rule, unit, unit.member('ss', 'static_string', 2, pred=lambda f: f.params[1]['ty']['s'] == 'i8*'))
    for ln in range(0, 2 * n + 1):
        def from_cstr(ln=ln):
            sc = Scn(unit, 'static_string(dat) with strlen(dat) == %d' % ln)
            c = sc.cont('s', lay, 0, raw=True)
            d = sc.cstr('dat', ln)
            rets = sc.run(cy.f, [this_ptr(c), d.ptr()])
            cy.returns(sc, rets)
            k = min(ln, n)
            for (T, rv) in rets:
                cy.size_is(sc, T, c, k, 'm_size-is-min(len,N)')
                cy.memory(sc, T, {c.dpos(i): d.at(i) for i in range(k)}, c.body() - span(c, 0, k), c.body(), K_PREFIX)
        cy.scenario(from_cstr)
    # static_string(const char*, size_t)
    fs = unit.members('ss', 'static_string', 3)
    if unit.twin and len(fs) != 1:
        raise AnalysisBroken('std_portable static_string<%d>(const char*, size_t): %d candidate(s) (anchor vanished)' % (n, len(fs)))
    for f in fs:
        cz = Ctx(bk, rule, unit, f)
        for sz in range(0, 2 * n + 1):
            def from_block(sz=sz, cz=cz):
                sc = Scn(unit, 'static_string(dat, %d) (block without terminator)' % sz)
                c = sc.cont('s', lay, 0, raw=True)
                d = sc.buf('dat', sz)
                rets = sc.run(cz.f, [this_ptr(c), d.ptr(), mk_const(64, sz)])
                cz.returns(sc, rets)
                k = min(sz, n)
                for (T, rv) in rets:
                    cz.size_is(sc, T, c, k, 'm_size-is-min(len,N)')
                    cz.memory(sc, T, {c.dpos(i): d.at(i) for i in range(k)}, c.body() - span(c, 0, k), c.body(), K_PREFIX)
            cz.scenario(from_block)


def ss_append(bk, unit):
    rule, n, lay = RULE_SS[unit.twin], unit.n, unit.ss_lay
    fs = [unit.member('ss', 'push_back', 2)]
    plus = unit.members('ss', 'operator+=', 2, pred=lambda f: f.params[1]['ty']['s'] == 'i8')
    if unit.twin and len(plus) != 1:
        raise AnalysisBroken('std_portable static_string<%d>::operator+=(char): %d candidate(s) (anchor vanished)' % (n, len(plus)))
    for f in fs + plus:
        cx = Ctx(bk, rule, unit, f)
        for s in range(n + 1):
            def push(s=s, cx=cx):
                sc = Scn(unit, '%s(c) on a string of %d character(s)' % (base_name(cx.f), s))
                c = sc.cont('s', lay, s)
                ch = sc.chr()
                rets = sc.run(cx.f, [this_ptr(c), ch])
                cx.returns(sc, rets)
                for (T, rv) in rets:
                    if s < n:
                        cx.size_is(sc, T, c, s + 1, 'room:m_size-grows-by-one')
                        cx.memory(sc, T, {c.dpos(s): ch}, span(c, s + 1, lay.data_len) | c.size_cells(),
                                  c.storage() | c.size_cells(), 'room:the-character-is-appended-behind-the-old-text')
                    else:
                        cx.size_is(sc, T, c, n, 'full:m_size-stays-N')
                        cx.memory(sc, T, {}, span(c, n, lay.data_len) | c.size_cells(), c.storage() | c.size_cells(),
                                  'full:the-text-is-unchanged')
                    if base_name(cx.f) == 'operator+=':
                        cx.ptr_is(sc, T, rv, c, 0, 'returns-*this', '*this')
            cx.scenario(push)


def ss_observe(bk, unit):
    rule, n, lay = RULE_SS[unit.twin], unit.n, unit.ss_lay

    def each_size(cx, desc, body, write_from_end=False):
        for s in range(n + 1):
            def one(s=s):
                sc = Scn(unit, '%s on a string of %d character(s)' % (desc, s))
                c = sc.cont('s', lay, s)
                rets = sc.run(cx.f, [this_ptr(c)])
                cx.returns(sc, rets)
                for (T, rv) in rets:
                    body(cx, sc, T, rv, c, s)
                    cx.size_is(sc, T, c, s, 'm_size-is-unchanged')
                    if not write_from_end:
                        cx.memory(sc, T, {}, set(), set(), 'unused')
            cx.scenario(one)

    # c_str(): terminator exactly behind the text, text undisturbed, nothing else written
    def c_str(cx, sc, T, rv, c, s):
        cx.ptr_is(sc, T, rv, c, lay.data_off, 'returns-the-start-of-the-text', 'the address of s.storage[0]')
        cx.memory(sc, T, {c.dpos(s): Lin(0)}, span(c, s + 1, lay.data_len), span(c, s, lay.data_len),
                  'the-terminator-is-written-exactly-behind-the-text')
    each_size(Ctx(bk, rule, unit, unit.member('ss', 'c_str', 1)), 'c_str()', c_str, True)

    # data(): start of the text; if it writes at all, then only from the end of the text on
    def data(cx, sc, T, rv, c, s):
        cx.ptr_is(sc, T, rv, c, lay.data_off, 'returns-the-start-of-the-text', 'the address of s.storage[0]')
        cx.memory(sc, T, {}, span(c, s, lay.data_len), span(c, s, lay.data_len), 'unused')
    fs = unit.members('ss', 'data', 1)
    if unit.twin and not fs:
        raise AnalysisBroken('std_portable static_string<%d>::data(): anchor vanished' % n)
    for f in fs:
        each_size(Ctx(bk, rule, unit, f), 'data()', data, True)

    def size(cx, sc, T, rv, c, s):
        cx.int_is(sc, T, rv, s, 'returns-the-length-of-the-text')
    each_size(Ctx(bk, rule, unit, unit.member('ss', 'size', 1)), 'size()', size)

    def room(cx, sc, T, rv, c, s):
        cx.int_is(sc, T, rv, n - s, 'returns-N-minus-the-length-of-the-text')
    each_size(Ctx(bk, rule, unit, unit.member('ss', 'room', 1)), 'room()', room)

    def begin(cx, sc, T, rv, c, s):
        cx.ptr_is(sc, T, rv, c, lay.data_off, 'returns-the-start-of-the-text', 'the address of s.storage[0]')
    for f in unit.members('ss', 'begin', 1):
        each_size(Ctx(bk, rule, unit, f), 'begin()', begin)

    def end(cx, sc, T, rv, c, s):
        cx.ptr_is(sc, T, rv, c, lay.data_off + s, 'returns-the-position-behind-the-last-character',
                  'the address of s.storage[%d]' % s)
    for f in unit.members('ss', 'end', 1):
        each_size(Ctx(bk, rule, unit, f), 'end()', end)
    if not unit.members('ss', 'begin', 1) or not unit.members('ss', 'end', 1):
        raise AnalysisBroken('static_string<%d>::begin/end: anchor vanished' % n)

    # clear()
    fs = unit.members('ss', 'clear', 1)
    if unit.twin and not fs:
        raise AnalysisBroken('std_portable static_string<%d>::clear(): anchor vanished' % n)
    for f in fs:
        cx = Ctx(bk, rule, unit, f)
        for s in range(n + 1):
            def clear(s=s, cx=cx):
                sc = Scn(unit, 'clear() on a string of %d character(s)' % s)
                c = sc.cont('s', lay, s)
                rets = sc.run(cx.f, [this_ptr(c)])
                cx.returns(sc, rets)
                for (T, rv) in rets:
                    cx.size_is(sc, T, c, 0, 'the-string-is-empty-afterwards')
                    cx.memory(sc, T, {}, c.storage() | c.size_cells(), c.storage() | c.size_cells(), 'unused')
            cx.scenario(clear)

    # operator[](pos), pos < size(): the character at pos / a reference to it
    if 'SSTR_INDEX' in unit.have:
        fs = unit.members('ss', 'operator[]', 2)
        if len(fs) != 2:
            raise AnalysisBroken('static_string<%d>::operator[]: %d overload(s) instantiated, expected 2' % (n, len(fs)))
        for f in fs:
            cx = Ctx(bk, rule, unit, f)
            for s in range(1, n + 1):
                for pos in range(s):
                    def index(s=s, pos=pos, cx=cx):
                        sc = Scn(unit, 'operator[](%d) on a string of %d character(s)' % (pos, s))
                        c = sc.cont('s', lay, s)
                        rets = sc.run(cx.f, [this_ptr(c), mk_const(64, pos)])
                        cx.returns(sc, rets)
                        for (T, rv) in rets:
                            if isinstance(rv, IntVal) and rv.w == 8:
                                ok = same(T, rv, c.dat(pos))
                                cx.note('result', 'yields-the-character-at-pos', ok, None if ok else
                                        '%s: returns %s, the character at pos is %s' % (sc.desc, show(u8(T, rv)), show(u8(T, c.dat(pos)))))
                            else:
                                cx.ptr_is(sc, T, rv, c, lay.data_off + pos, 'yields-the-character-at-pos',
                                          'a reference to s.storage[%d]' % pos)
                            cx.size_is(sc, T, c, s, 'm_size-is-unchanged')
                            cx.memory(sc, T, {}, set(), set(), 'unused')
                    cx.scenario(index)


def ss_copy(bk, unit):
    """copy construction and copy assignment (implicitly defined today: analysed through the witness wrappers)"""
    rule, n, lay = RULE_SS[unit.twin], unit.n, unit.ss_lay
    f = unit.fn('w_ss_copy_construct')
    cx = Ctx(bk, rule, unit, f, 'igris::static_string<N>::static_string(igris::static_string<N> const&)', HDR[unit.twin])
    for o in range(n + 1):
        def cctor(o=o):
            sc = Scn(unit, 'copy construction from a string of %d character(s)' % o)
            c = sc.cont('s', lay, 0, raw=True)
            src = sc.cont('other', lay, o)
            rets = sc.run(f, [this_ptr(c), this_ptr(src)])
            cx.returns(sc, rets)
            for (T, rv) in rets:
                cx.size_is(sc, T, c, o, 'm_size-is-the-length-of-the-other-text')
                cx.memory(sc, T, {c.dpos(i): src.dat(i) for i in range(o)}, c.body() - span(c, 0, o), c.body(),
                          'the-text-is-the-text-of-the-other-string')
        cx.scenario(cctor)
    g = unit.fn('w_ss_copy_assign')
    cy = Ctx(bk, rule, unit, g, 'igris::static_string<N>::operator=(igris::static_string<N> const&)', HDR[unit.twin])
    for s in range(n + 1):
        for o in range(n + 1):
            def assign(s=s, o=o):
                sc = Scn(unit, 'assignment of a string of %d character(s) to one of %d' % (o, s))
                c = sc.cont('s', lay, s)
                src = sc.cont('other', lay, o)
                rets = sc.run(g, [this_ptr(c), this_ptr(src)])
                cy.returns(sc, rets)
                for (T, rv) in rets:
                    cy.size_is(sc, T, c, o, 'm_size-is-the-length-of-the-other-text')
                    cy.memory(sc, T, {c.dpos(i): src.dat(i) for i in range(o)}, c.body() - span(c, 0, o), c.body(),
                              'the-text-is-the-text-of-the-other-string')
            cy.scenario(assign)

        def self_assign(s=s):
            sc = Scn(unit, 'self-assignment of a string of %d character(s)' % s)
            c = sc.cont('s', lay, s)
            rets = sc.run(g, [this_ptr(c), this_ptr(c)])
            cy.returns(sc, rets)
            for (T, rv) in rets:
                cy.size_is(sc, T, c, s, 'self-assignment:m_size-is-unchanged')
                cy.memory(sc, T, {c.dpos(i): c.dat(i) for i in range(s)}, c.body() - span(c, 0, s), c.body(),
                          'self-assignment:the-text-is-unchanged')
        cy.scenario(self_assign)


def facts(T, c, s, what, other):
    """the per-position facts of a refined state, for the witness text"""
    out = []
    for i in range(s):
        for (nm, v) in other:
            d = decide_eq(T, u8(T, c.dat(i)), u8(T, v))
            if d is not None:
                out.append('%s[%d]%s%s' % (c.label, i, '==' if d else '!=', nm))
    return ', '.join(out) or 'any contents'


def ss_find(bk, unit):
    """find(str, pos) of the twin: first position >= pos where the (non-empty) pattern occurs inside the text, else -1"""
    rule, n, lay = RULE_SS[unit.twin], unit.n, unit.ss_lay
    if 'SSTR_FIND' not in unit.have:
        return
    f = unit.member('ss', 'find', 3)
    cx = Ctx(bk, rule, unit, f)
    key = 'returns-the-first-position-at-or-after-pos-where-the-pattern-occurs-in-the-text-else-minus-1'
    for s in range(0, min(n, 4) + 1):
        for m in range(0, 4):
            for pos in range(0, s + 2):
                if m == 3 and pos > 1 or s + m > 6:
                    continue

                def one(s=s, m=m, pos=pos):
                    sc = Scn(unit, 'find(str, %d) with strlen(str) == %d on a string of %d character(s)' % (pos, m, s))
                    c = sc.cont('s', lay, s)
                    pat = sc.cstr('str', m)
                    rets = sc.run(f, [this_ptr(c), pat.ptr(), mk_const(64, pos)])
                    cx.returns(sc, rets)
                    for (T, rv) in rets:
                        def ref(eq, lt, T=T):
                            if m == 0:
                                return None         # an empty pattern: the result is not prescribed here
                            for p in range(pos, s - m + 1):
                                if all(eq(u8(T, c.dat(p + j)), u8(T, pat.at(j))) for j in range(m)):
                                    return p
                            return -1
                        if not isinstance(rv, IntVal):
                            raise Unresolved('the result is not an integer')
                        got = rv.sconst()
                        if got is None:
                            raise Unresolved('the result is not a constant on a decided path')
                        for (T2, want) in explore(T, ref):
                            if want is None:
                                continue
                            ok = got == want
                            cx.note('result', key, ok, None if ok else '%s: returns %d, the definition gives %d when %s'
                                    % (sc.desc, got, want, facts(T2, c, s, 'str', [('str[%d]' % j, pat.at(j)) for j in range(m)])))
                        cx.size_is(sc, T, c, s, 'm_size-is-unchanged')
                        cx.memory(sc, T, {}, set(), set(), 'unused')
                cx.scenario(one)


def tmpl_args(f):
    """[2, 3] from the source name 'split<2UL, 3UL>'"""
    n = f.srcname
    if '<' not in n:
        return []
    out = []
    for a in n[n.index('<') + 1:n.rindex('>')].split(','):
        a = a.strip().rstrip('ULul')
        if not a.isdigit():
            return []
        out.append(int(a))
    return out


def ss_split(bk, unit):
    """split<VSize, SSize>(delim) of the twin: the maximal runs of characters other than delim, in order, each cut to its
    first SSize characters, the first VSize of them"""
    rule, n, lay = RULE_SS[unit.twin], unit.n, unit.ss_lay
    if not unit.twin:
        return
    fs = unit.members('ss', 'split')
    if not fs:
        raise AnalysisBroken('std_portable static_string<%d>::split: anchor vanished' % n)
    for f in fs:
        ta = tmpl_args(f)
        ps = [p for p in f.params]
        if len(ta) != 2 or len(ps) != 3 or not ps[0].get('sret') or ps[2]['ty']['s'] != 'i8':
            raise AnalysisBroken('static_string<%d>::%s: signature not recognised (sret result, this, char)' % (n, f.srcname))
        vs, ssz = ta
        vlay = Layout(unit.mod, tyname(ps[0]['ty']['elem']), 'static_vector<static_string<%d>,%d>' % (ssz, vs))
        elems = [g for g in unit.mod.defined() if g.scope == 'igris::static_string<%dUL>::' % ssz and g.params]
        if not elems:
            raise AnalysisBroken('static_string<%d> (element of the split result) not instantiated' % ssz)
        elay = Layout(unit.mod, tyname(elems[0].params[0]['ty']['elem']), 'static_string<%d>' % ssz)
        if vlay.data_len != vs * elay.sizeof:
            raise AnalysisBroken('split<%d,%d>: result storage has %d bytes, expected %d slots of %d' % (vs, ssz, vlay.data_len, vs, elay.sizeof))
        cx = Ctx(bk, rule, unit, f, 'igris::static_string<N>::split<VSize, SSize>(char)')
        for s in range(n + 1):
            def one(s=s, f=f, cx=cx, vs=vs, ssz=ssz, vlay=vlay, elay=elay):
                sc = Scn(unit, 'split<%d,%d>(delim) on a string of %d character(s)' % (vs, ssz, s))
                c = sc.cont('s', lay, s)
                out = sc.cont('result', vlay, 0, raw=True)
                dl = sc.chr()
                rets = sc.run(f, [this_ptr(out), this_ptr(c), dl])
                cx.returns(sc, rets)
                for (T, rv) in rets:
                    def ref(eq, lt, T=T):
                        toks, k = [], 0
                        while k < s:
                            if eq(u8(T, c.dat(k)), dl.u):
                                k += 1
                                continue
                            a = k
                            while k < s and not eq(u8(T, c.dat(k)), dl.u):
                                k += 1
                            toks.append((a, k - a))
                        return toks
                    for (T2, toks) in explore(T, ref):
                        fx = facts(T2, c, s, 'delim', [('delim', dl)])
                        kept = toks[:vs]
                        cx.size_is(sc, T2, out, len(kept), 'the-result-holds-the-first-min(count,VSize)-tokens')
                        want = {}
                        for k, (a, ln) in enumerate(kept):
                            base = vlay.data_off + k * elay.sizeof
                            m = min(ln, ssz)
                            for j in range(8):
                                want[(out.obj, out.base + base + elay.size_off + j)] = Lin((m >> (8 * j)) & 0xff)
                            for j in range(m):
                                want[(out.obj, out.base + base + elay.data_off + j)] = c.dat(a + j)
                        bad = None
                        for pos, e in sorted(want.items()):
                            cur = T2.mem.get((pos[0], pos[1], 1))
                            if cur is None or not same(T2, cur, e):
                                k = (pos[1] - out.base - vlay.data_off) // elay.sizeof
                                r = (pos[1] - out.base - vlay.data_off) % elay.sizeof
                                bad = ('%s: token %d of the result has %s == %s, the reference gives %s (tokens (start, length) %s '
                                       'when %s)' % (sc.desc, k, 'm_size byte %d' % (r - elay.size_off) if r >= elay.size_off and
                                                     r < elay.size_off + 8 else 'character %d' % (r - elay.data_off),
                                                     show(u8(T2, cur)) if cur is not None else 'indeterminate', show(u8(T2, e)), toks, fx))
                                break
                        cx.note('content', 'token-k-is-the-first-min(length,SSize)-characters-of-the-k-th-run-without-delim',
                                bad is None, bad)
                    cx.size_is(sc, T, c, s, 'm_size-of-the-string-is-unchanged')
                    cx.memory(sc, T, {}, out.body(), out.body(), 'unused')
            cx.scenario(one)


def ss_convert(bk, unit):
    """stoi / stol / stoll / stod of the twin: the parser is handed the text followed by a terminator"""
    rule, n, lay = RULE_SS[unit.twin], unit.n, unit.ss_lay
    if not unit.twin:
        return
    parsers = [g for g in unit.mod.defined() if g.srcname in ('igris_atoi32', 'igris_atof32', 'igris_atoi64', 'igris_atof64')]
    if not parsers:
        raise AnalysisBroken('std_portable.h: igris_atoi32 / igris_atof32 not found (anchor vanished)')
    names = set(g.name for g in parsers)

    def parser(interp, st, i, args):
        p = args[0]
        snap = None
        if isinstance(p, PtrVal) and not p.is_null and interp.tracked(st, p) is not None and p.off.is_const():
            o = st.objs[p.obj]
            snap = (p.obj, p.off.c, tuple(st.mem.get((p.obj, k, 1)) for k in range(p.off.c, min(p.off.c + n + 2, o.size.c))))
        st.ghost['parsed'] = st.ghost.get('parsed', ()) + (snap,)
        return [(st, None)]
    for (w, conv) in (('w_ss_stoi', 'stoi'), ('w_ss_stol', 'stol'), ('w_ss_stoll', 'stoll'), ('w_ss_stod', 'stod')):
        wf = unit.fn(w)
        lib = [g for g in unit.mod.defined() if g.srcname.split('<')[0] == conv and g.scope == 'igris::' and
               any(c.callee == g.name for c in wf.calls())]
        if len(lib) != 1:
            raise AnalysisBroken('igris::%s<%d>(const static_string&): not reached from the witness (anchor vanished)' % (conv, n))
        cx = Ctx(bk, rule, unit, lib[0], 'igris::%s<N>(igris::static_string<N> const&)' % conv)
        for s in range(n + 1):
            def one(s=s, wf=wf, cx=cx, conv=conv):
                sc = Scn(unit, '%s(str) on a string of %d character(s)' % (conv, s), opaque=names)
                for nm in names:
                    sc.it.externals[nm] = parser
                c = sc.cont('s', lay, s)
                rets = sc.run(wf, [this_ptr(c)])
                cx.returns(sc, rets)
                for (T, rv) in rets:
                    calls = T.ghost.get('parsed', ())
                    if len(calls) != 1:
                        raise Unresolved('%d calls of a number parser on the path (expected one)' % len(calls))
                    snap = calls[0]
                    ok = snap is not None and snap[0] == c.obj and snap[1] == c.base + lay.data_off
                    d = None
                    if not ok:
                        d = '%s: the parser is not handed the start of the text' % sc.desc
                    else:
                        for k in range(s + 1):
                            e = c.dat(k) if k < s else Lin(0)
                            cur = snap[2][k] if k < len(snap[2]) else None
                            if cur is None or not same(T, cur, e):
                                ok = False
                                d = '%s: byte %d of the string handed to the parser is %s, expected %s' % (
                                    sc.desc, k, show(u8(T, cur)) if cur is not None else 'indeterminate',
                                    show(u8(T, e)) if k < s else 'the terminator 0x00')
                                break
                    cx.note('content', 'the-parser-is-handed-the-text-followed-by-a-terminator', ok, d)
                    cx.size_is(sc, T, c, s, 'm_size-is-unchanged')
                    cx.memory(sc, T, {}, span(c, s, lay.data_len), span(c, s, lay.data_len), 'unused')
            cx.scenario(one)


# ----------------------------------------------------------------------------------------------------------------
# static_vector<int, N>: every int slot is four byte symbols
# ----------------------------------------------------------------------------------------------------------------
ESZ = 4
K_SEQ = 'the-values-below-m_size-are-the-reference-sequence'


def slot(c, k):
    """entry bytes of slot k of container / element k of buffer c"""
    if isinstance(c, Cont):
        return [c.dat(ESZ * k + j) for j in range(ESZ)]
    return [c.at(ESZ * k + j) for j in range(ESZ)]


ZERO = [Lin(0)] * ESZ


def want_seq(c, seq):
    """expected bytes of the storage of c for the reference sequence seq (list of 4-byte values)"""
    w = {}
    for k, v in enumerate(seq):
        for j in range(ESZ):
            w[c.dpos(ESZ * k + j)] = v[j]
    return w


def sv_check(cx, sc, T, c, seq, what=K_SEQ, other=None, ctor=False):
    """container c holds exactly seq; its spare slots are open; nothing else changes (other: a container left open;
    ctor: c is under construction, any byte of it may be written)"""
    cx.size_is(sc, T, c, len(seq))
    free = span(c, ESZ * len(seq), c.lay.data_len) | c.size_cells()
    allowed = c.storage() | c.size_cells()
    if ctor:
        free = c.body() - span(c, 0, ESZ * len(seq))
        allowed = c.body()
    if other is not None:
        free |= other.storage() | other.size_cells()
        allowed |= other.storage() | other.size_cells()
    cx.memory(sc, T, want_seq(c, seq), free, allowed, what)


def is_copy(f):
    d = demangle1(f.name).replace(' ', '')
    if 'const&' in d:
        return True
    if '&&' in d:
        return False
    raise AnalysisBroken('%s: cannot tell copy from move' % f.name)


def sv_construct(bk, unit):
    rule, n, lay = RULE_SV[unit.twin], unit.n, unit.sv_lay
    cx = Ctx(bk, rule, unit, unit.member('sv', 'static_vector', 1))

    def dflt():
        sc = Scn(unit, 'static_vector() on raw storage')
        c = sc.cont('v', lay, 0, ESZ, raw=True)
        rets = sc.run(cx.f, [this_ptr(c)])
        cx.returns(sc, rets)
        for (T, rv) in rets:
            sv_check(cx, sc, T, c, [], ctor=True)
    cx.scenario(dflt)
    others = unit.members('sv', 'static_vector', 2, pred=lambda f: f.params[1]['ty'].get('elem') == f.params[0]['ty'].get('elem'))
    if len(others) != 2:
        raise AnalysisBroken('static_vector<int,%d>: %d copy/move constructors instantiated, expected 2' % (n, len(others)))
    for f in others:
        cy = Ctx(bk, rule, unit, f, unit.nice(f))
        for o in range(n + 1):
            def one(o=o, f=f, cy=cy):
                cp = is_copy(f)
                sc = Scn(unit, '%s construction from a vector of %d element(s)' % ('copy' if cp else 'move', o))
                c = sc.cont('v', lay, 0, ESZ, raw=True)
                src = sc.cont('other', lay, o, ESZ)
                rets = sc.run(f, [this_ptr(c), this_ptr(src)])
                cy.returns(sc, rets)
                for (T, rv) in rets:
                    sv_check(cy, sc, T, c, [slot(src, k) for k in range(o)], 'the-values-are-those-of-the-other-vector-in-order',
                             None if cp else src, ctor=True)
            cy.scenario(one)
    if not unit.twin:
        f = unit.member('sv', 'static_vector', 3)
        cr = Ctx(bk, rule, unit, f)
        for ln in range(2 * n + 1):
            def rng(ln=ln):
                sc = Scn(unit, 'static_vector(b, e) over %d element(s)' % ln)
                c = sc.cont('v', lay, 0, ESZ, raw=True)
                src = sc.buf('src', ESZ * ln, elem=ESZ)
                rets = sc.run(f, [this_ptr(c), src.ptr(0), src.ptr(ESZ * ln)])
                cr.returns(sc, rets)
                for (T, rv) in rets:
                    sv_check(cr, sc, T, c, [slot(src, k) for k in range(min(ln, n))],
                             'the-values-are-the-first-min(len,N)-source-elements-in-order', ctor=True)
            cr.scenario(rng)
        g = unit.member('sv', 'static_vector', 2, pred=lambda f: 'initializer_list' in f.params[1]['ty']['s'])
        ci = Ctx(bk, rule, unit, g)
        for ln in range(2 * n + 1):
            def ilist(ln=ln):
                sc = Scn(unit, 'static_vector(initializer_list) of %d element(s)' % ln)
                c = sc.cont('v', lay, 0, ESZ, raw=True)
                src = sc.buf('src', ESZ * ln, elem=ESZ)
                lo = sc.st.new_obj('param', Lin(16), 'lst', {'desc': 'initializer_list object'})
                sc.st.mem[(lo.id, 0, 8)] = src.ptr(0)
                sc.st.mem[(lo.id, 8, 8)] = mk_const(64, ln)
                rets = sc.run(g, [this_ptr(c), PtrVal(lo.id, Lin(0))])
                ci.returns(sc, rets)
                for (T, rv) in rets:
                    sv_check(ci, sc, T, c, [slot(src, k) for k in range(min(ln, n))],
                             'the-values-are-the-first-min(len,N)-source-elements-in-order', ctor=True)
            ci.scenario(ilist)


def sv_assign(bk, unit):
    rule, n, lay = RULE_SV[unit.twin], unit.n, unit.sv_lay
    fs = unit.members('sv', 'operator=', 2)
    if len(fs) != 2:
        raise AnalysisBroken('static_vector<int,%d>::operator=: %d overload(s), expected 2' % (n, len(fs)))
    for f in fs:
        cp = is_copy(f)
        cx = Ctx(bk, rule, unit, f, unit.nice(f))
        for s in range(n + 1):
            for o in range(n + 1):
                def one(s=s, o=o, f=f, cx=cx, cp=cp):
                    sc = Scn(unit, '%s assignment of a vector of %d element(s) to one of %d' % ('copy' if cp else 'move', o, s))
                    c = sc.cont('v', lay, s, ESZ)
                    src = sc.cont('other', lay, o, ESZ)
                    rets = sc.run(f, [this_ptr(c), this_ptr(src)])
                    cx.returns(sc, rets)
                    for (T, rv) in rets:
                        sv_check(cx, sc, T, c, [slot(src, k) for k in range(o)],
                                 'the-values-are-those-of-the-other-vector-in-order', None if cp else src)
                        cx.ptr_is(sc, T, rv, c, 0, 'returns-*this', '*this')
                cx.scenario(one)

            def self_assign(s=s, f=f, cx=cx):
                sc = Scn(unit, 'self-assignment of a vector of %d element(s)' % s)
                c = sc.cont('v', lay, s, ESZ)
                rets = sc.run(f, [this_ptr(c), this_ptr(c)])
                cx.returns(sc, rets)
                for (T, rv) in rets:
                    sv_check(cx, sc, T, c, [slot(c, k) for k in range(s)], 'self-assignment:the-values-are-unchanged')
            cx.scenario(self_assign)


def sv_grow(bk, unit):
    """push_back / emplace_back: the value is appended when there is room, nothing changes when full"""
    rule, n, lay = RULE_SV[unit.twin], unit.n, unit.sv_lay
    fs = unit.members('sv', 'push_back', 2) + unit.members('sv', 'emplace_back')
    kinds = sorted(len(f.params) for f in fs)
    if len(unit.members('sv', 'push_back', 2)) != 1 or kinds != [1, 2, 2, 2]:
        raise AnalysisBroken('static_vector<int,%d>: push_back(const int&) and emplace_back<const int&>/<int>/<> expected, '
                             'found %s' % (n, [f.srcname for f in fs]))
    for f in fs:
        cx = Ctx(bk, rule, unit, f)
        byref = len(f.params) == 2
        if byref and f.params[1]['ty']['s'] != 'i32*':
            raise AnalysisBroken('%s: the value parameter is not an int reference' % unit.nice(f))
        for s in range(n + 1):
            for alias in ([None] + list(range(s)) if byref else [None]):
                def one(s=s, alias=alias, f=f, cx=cx, byref=byref):
                    nm = base_name(f)
                    sc = Scn(unit, '%s(%s) on a vector of %d element(s)' % (
                        nm, '' if not byref else ('x' if alias is None else '(*this)[%d]' % alias), s))
                    c = sc.cont('v', lay, s, ESZ)
                    args = [this_ptr(c)]
                    val = ZERO
                    if byref and alias is None:
                        x = sc.buf('x', ESZ, elem=ESZ)
                        args.append(x.ptr(0))
                        val = slot(x, 0)
                    elif byref:
                        args.append(c.dptr(ESZ * alias))
                        val = slot(c, alias)
                    rets = sc.run(f, args)
                    cx.returns(sc, rets)
                    me = [slot(c, k) for k in range(s)]
                    for (T, rv) in rets:
                        if s < n:
                            sv_check(cx, sc, T, c, me + [val], 'room:the-value-is-appended-behind-the-old-elements')
                        else:
                            sv_check(cx, sc, T, c, me, 'full:the-values-are-unchanged')
                cx.scenario(one)


def sv_shrink(bk, unit):
    rule, n, lay = RULE_SV[unit.twin], unit.n, unit.sv_lay
    f = unit.member('sv', 'resize', 2)
    cx = Ctx(bk, rule, unit, f)
    for s in range(n + 1):
        for k in range(2 * n + 1):
            def rs(s=s, k=k):
                sc = Scn(unit, 'resize(%d) on a vector of %d element(s)' % (k, s))
                c = sc.cont('v', lay, s, ESZ)
                rets = sc.run(f, [this_ptr(c), mk_const(64, k)])
                cx.returns(sc, rets)
                kk = min(k, n)
                for (T, rv) in rets:
                    sv_check(cx, sc, T, c, [slot(c, j) for j in range(min(s, kk))] + [ZERO] * max(0, kk - s),
                             'the-common-prefix-is-kept-and-new-elements-are-zero')
            cx.scenario(rs)
    g = unit.member('sv', 'clear', 1)
    cy = Ctx(bk, rule, unit, g)
    for s in range(n + 1):
        def cl(s=s):
            sc = Scn(unit, 'clear() on a vector of %d element(s)' % s)
            c = sc.cont('v', lay, s, ESZ)
            rets = sc.run(g, [this_ptr(c)])
            cy.returns(sc, rets)
            for (T, rv) in rets:
                sv_check(cy, sc, T, c, [])
        cy.scenario(cl)
    d = unit.member('sv', '~static_vector', 1)
    cd = Ctx(bk, rule, unit, d)
    for s in range(n + 1):
        def dt(s=s):
            sc = Scn(unit, 'destruction of a vector of %d element(s)' % s)
            c = sc.cont('v', lay, s, ESZ)
            rets = sc.run(d, [this_ptr(c)])
            cd.returns(sc, rets)
            for (T, rv) in rets:
                cd.memory(sc, T, {}, c.storage() | c.size_cells(), c.storage() | c.size_cells(), 'unused')
        cd.scenario(dt)
    if unit.twin:
        if unit.members('sv', 'erase'):
            raise AnalysisBroken('std_portable static_vector<int,%d>::erase appeared: add it to the twin witness' % n)
        return
    e = unit.member('sv', 'erase', 3)
    ce = Ctx(bk, rule, unit, e)
    for s in range(n + 1):
        for a in range(s + 1):
            for b in range(a, s + 1):
                def er(s=s, a=a, b=b):
                    sc = Scn(unit, 'erase(begin()+%d, begin()+%d) on a vector of %d element(s)' % (a, b, s))
                    c = sc.cont('v', lay, s, ESZ)
                    rets = sc.run(e, [this_ptr(c), c.dptr(ESZ * a), c.dptr(ESZ * b)])
                    ce.returns(sc, rets)
                    me = [slot(c, k) for k in range(s)]
                    for (T, rv) in rets:
                        sv_check(ce, sc, T, c, me[:a] + me[b:], 'the-values-are-old[0,first)-followed-by-old[last,size)')
                ce.scenario(er)


def sv_observe(bk, unit):
    rule, n, lay = RULE_SV[unit.twin], unit.n, unit.sv_lay

    def each(f, desc, body, sizes, extra=()):
        cx = Ctx(bk, rule, unit, f)
        for s in sizes:
            for xs in (extra(s) if extra else [()]):
                def one(s=s, xs=xs):
                    sc = Scn(unit, '%s on a vector of %d element(s)' % (desc % xs if xs else desc, s))
                    c = sc.cont('v', lay, s, ESZ)
                    rets = sc.run(f, [this_ptr(c)] + [mk_const(64, x) for x in xs])
                    cx.returns(sc, rets)
                    for (T, rv) in rets:
                        body(cx, sc, T, rv, c, s, *xs)
                        cx.size_is(sc, T, c, s, 'm_size-is-unchanged')
                        cx.memory(sc, T, {}, set(), set(), 'unused')
                cx.scenario(one)

    def expect2(base, np):
        fs = unit.members('sv', base, np)
        if len(fs) != 2:
            raise AnalysisBroken('static_vector<int,%d>::%s: %d overload(s), expected const and non-const' % (n, base, len(fs)))
        return fs
    for f in expect2('operator[]', 2):
        each(f, 'operator[](%d)', lambda cx, sc, T, rv, c, s, pos: cx.ptr_is(
            sc, T, rv, c, lay.data_off + ESZ * pos, 'designates-the-element-at-pos', 'a reference to element %d' % pos),
            range(1, n + 1), lambda s: [(p,) for p in range(s)])
    for f in expect2('front', 1):
        each(f, 'front()', lambda cx, sc, T, rv, c, s: cx.ptr_is(
            sc, T, rv, c, lay.data_off, 'designates-the-first-element', 'a reference to element 0'), range(1, n + 1))
    for f in expect2('back', 1):
        each(f, 'back()', lambda cx, sc, T, rv, c, s: cx.ptr_is(
            sc, T, rv, c, lay.data_off + ESZ * (s - 1), 'designates-the-last-element', 'a reference to element %d' % (s - 1)),
            range(1, n + 1))
    for base in ('begin', 'data'):
        for f in expect2(base, 1):
            each(f, base + '()', lambda cx, sc, T, rv, c, s: cx.ptr_is(
                sc, T, rv, c, lay.data_off, 'returns-the-position-of-the-first-element', 'the address of element 0'), range(n + 1))
    for f in expect2('end', 1):
        each(f, 'end()', lambda cx, sc, T, rv, c, s: cx.ptr_is(
            sc, T, rv, c, lay.data_off + ESZ * s, 'returns-the-position-behind-the-last-element', 'the address of element %d' % s),
            range(n + 1))
    each(unit.member('sv', 'size', 1), 'size()', lambda cx, sc, T, rv, c, s: cx.int_is(
        sc, T, rv, s, 'returns-the-number-of-elements'), range(n + 1))
    each(unit.member('sv', 'room', 1), 'room()', lambda cx, sc, T, rv, c, s: cx.int_is(
        sc, T, rv, n - s, 'returns-N-minus-the-number-of-elements'), range(n + 1))


# ----------------------------------------------------------------------------------------------------------------
# entry
# ----------------------------------------------------------------------------------------------------------------
# members whose content clauses are mandatory (anchors), by the names the instances carry
_S = 'igris::static_string<N>::'
_V = 'igris::static_vector<int, N>::'
_SS_BOTH = [_S + 'static_string()', _S + 'static_string(char const*)', _S + 'push_back(char)', _S + 'c_str() const',
            _S + 'size()', _S + 'room()', _S + 'begin()', _S + 'end()', _S + 'operator[](unsigned long)',
            _S + 'operator[](unsigned long) const', _S + 'static_string(igris::static_string<N> const&)',
            _S + 'operator=(igris::static_string<N> const&)']
SS_MEMBERS = {False: _SS_BOTH,
              True: _SS_BOTH + [_S + 'static_string(char const*, unsigned long)', _S + 'operator+=(char)', _S + 'data()',
                                _S + 'clear()', _S + 'find(char const*, unsigned long) const',
                                _S + 'split<VSize, SSize>(char)'] +
              ['igris::%s<N>(igris::static_string<N> const&)' % c for c in ('stoi', 'stol', 'stoll', 'stod')]}
# members that are analysed only when their -fsyntax-only probe compiles (the probe itself is a rule instance)
OPTIONAL = {_S + 'operator[](unsigned long)': 'SSTR_INDEX', _S + 'operator[](unsigned long) const': 'SSTR_INDEX',
            _S + 'find(char const*, unsigned long) const': 'SSTR_FIND'}
_SV_BOTH = [_V + m for m in (
    'static_vector()', 'static_vector(igris::static_vector<int, N> const&)', 'static_vector(igris::static_vector<int, N>&&)',
    'operator=(igris::static_vector<int, N> const&)', 'operator=(igris::static_vector<int, N>&&)', 'push_back(int const&)',
    'emplace_back<int const&>(int const&)', 'emplace_back<int>(int&&)', 'emplace_back<>()', 'resize(unsigned long)', 'clear()',
    '~static_vector()', 'operator[](unsigned long)', 'operator[](unsigned long) const', 'front()', 'front() const', 'back()',
    'back() const', 'begin()', 'begin() const', 'data()', 'data() const', 'end()', 'end() const', 'size() const',
    'room() const')]
SV_MEMBERS = {False: _SV_BOTH + [_V + 'static_vector<int const*>(int const*, int const*)',
                                 _V + 'static_vector(std::initializer_list<int> const&)', _V + 'erase(int*, int*)'],
              True: _SV_BOTH}

EXPLANATION = (
    ' Contents of static_string<N> and of static_vector<int,N> (c14_sstr.py; rules R-SSTEXT / R-SVINT for static_string.h / '
    'static_vector.h, R-SSTEXT-TWIN / R-SVINT-TWIN for std_portable.h): byte-identity abstract interpretation on the '
    'capacities N = 1..5 (thorough also 6, 8). The container is laid out from its LLVM struct type with 4 guard bytes on '
    'both sides; m_size is a constant of the scenario (0..N), every byte of the storage, of the padding, of the guard zones and '
    'of the source strings / blocks / ranges is a symbol of its own (an int slot is four byte symbols, so a value keeps its '
    'identity through load/store, memcpy and memmove), the appended character is a symbol. One scenario per (member, capacity, '
    'entry size, argument length 0..2N / position / aliasing of the value argument with an element / self-assignment); loops run '
    'on their concrete bounds. Decided at every return: static_string() is empty; static_string(const char*) and (ptr,len) keep '
    'exactly the first min(len,N) characters in order; copy construction and assignment yield the other text and leave the '
    'source alone; push_back / operator+=(char) append the character when size < N and change neither text nor size when full; '
    'c_str() returns the start of the text, writes 0 exactly behind it and nothing in front of it; data()/begin()/end() return '
    'the positions 0 and size; size()/room() the length and N - length; operator[] the character at pos (once it compiles); '
    'clear() empties; find(str,pos) returns the first position >= pos where the non-empty pattern lies inside the text, else -1 '
    '(finite case analysis over the byte equalities); split<V,S>(delim) returns the first min(count,V) maximal delimiter-free '
    'runs, each cut to its first S characters; stoi/stol/stoll/stod hand the parser the text followed by a terminator. '
    'static_vector<int,N>: copy/move construction and assignment, range and initializer-list construction (first min(len,N) '
    'values), push_back / emplace_back (caller-owned value, an element of the vector, value-initialised), resize (common prefix, '
    'zeros, clamp), erase(first,last) for every first <= last <= size, clear, and the observers leave exactly the reference '
    'sequence of values. Frame: every other byte (source, other container, padding, guard zones; for observers the whole object) '
    'keeps its value and no store falls outside the storage array and m_size (for c_str(): outside the bytes from the terminator '
    'on). Members whose bodies do not compile when used are reported by -fsyntax-only probes. Not decided: capacities above the '
    'enumerated ones (the code has no N-dependent case), what the number parsers do with the text, the result of find for an empty '
    'pattern, the state of a moved-from static_vector.')
ASSUMPTIONS = ['content rules of static_string / static_vector<int>: characters of C-string arguments are 1..255 up to the '
               'scenario\'s length, bytes of (pointer, length) blocks and of the text are 0..255; operator[] is called with pos < '
               'size(), front()/back() on a non-empty vector, erase with begin() <= first <= last <= end(); the source of a '
               'constructor does not overlap the object under construction',
               'strlen / memcpy / memmove / memset / memcmp are summarised by their ISO C definitions on the symbolic bytes']


SS_CHECKERS = [ss_construct, ss_append, ss_observe, ss_copy, ss_find, ss_split, ss_convert]
SV_CHECKERS = [sv_construct, sv_assign, sv_grow, sv_shrink, sv_observe]


_CTX = {}


def _work(k):
    import sys
    sys.setrecursionlimit(20000)
    (ui, chk) = _CTX['tasks'][k]
    bk = Book()
    chk(bk, _CTX['units'][ui][0])
    return bk


def run_ext(rep, repo, tier, only=None, caps=None):
    """called at the end of c14.run"""
    import absint
    import multiprocessing
    _REPO['repo'] = repo
    caps = caps or CAPS['thorough' if tier == 'thorough' else 'quick']
    have = probe_members(rep, repo)
    units = compile_units(repo, caps, have)
    for (unit, flags) in units:
        rep.units.append('witness/%s %s -> contents of static_string<%d>, static_vector<int,%d> (%s)'
                         % (WITNESS, ' '.join(flags), unit.n, unit.n, 'std_portable.h' if unit.twin else 'static_string.h, static_vector.h'))
    checkers = [c for c in SS_CHECKERS + SV_CHECKERS if not only or c.__name__ in only]
    # the largest capacities first: they take longest
    tasks = sorted([(ui, c) for ui in range(len(units)) for c in checkers], key=lambda t: -units[t[0]][0].n)
    _CTX.clear()
    _CTX.update(units=units, tasks=tasks)
    saved = absint.MAX_STATES
    absint.MAX_STATES = 600        # the paths of a scenario are enumerated, not merged
    try:
        workers = min(16, os.cpu_count() or 2, len(tasks))
        if workers > 1 and not os.environ.get('VERIF_SSTR_SERIAL'):
            with multiprocessing.get_context('fork').Pool(workers) as pool:
                books = pool.map(_work, range(len(tasks)), chunksize=1)
        else:
            books = [_work(k) for k in range(len(tasks))]
    finally:
        absint.MAX_STATES = saved
    bk = Book()
    # merged in a fixed order (capacity, header, checker) so that the witness text of a failing clause is stable
    for k in sorted(range(len(tasks)), key=lambda k: (units[tasks[k][0]][0].n, units[tasks[k][0]][0].twin,
                                                      checkers.index(tasks[k][1]))):
        bk.merge(books[k])
    bk.flush(rep)
    rep.extra['c14_sstr'] = {'scenarios': sum(bk.scen.values()), 'paths': sum(bk.paths.values()), 'capacities': list(caps)}
    if only:
        return bk
    # floors: every member listed below must have been analysed exactly at every capacity
    for rule, twin, table in ((RULE_SS[False], False, SS_MEMBERS[False]), (RULE_SS[True], True, SS_MEMBERS[True]),
                              (RULE_SV[False], False, SV_MEMBERS[False]), (RULE_SV[True], True, SV_MEMBERS[True])):
        present = set(fname for (r, fname) in bk.members if r == rule)
        missing = [m for m in table if m not in present and not (m in OPTIONAL and not have.get((twin, OPTIONAL[m]), False))]
        if missing:
            rep.defer_broken('%s: member(s) without content scenarios: %s (anchor vanished or witness out of date)'
                             % (rule, missing))
        n_expected = len([m for m in table if m in present])
        rep.floor(rule + ':analysed', n_expected)
        rep.floor(rule + ':content', n_expected)
        rep.floor(rule + ':frame', 2 * n_expected)
        rep.floor(rule + ':range', 2 * n_expected)
    for rule, k in ((RULE_SS[False], 5), (RULE_SS[True], 7), (RULE_SV[False], 14), (RULE_SV[True], 14)):
        rep.floor(rule + ':result', k)
    rep.floor(RULE_SS[False] + ':instantiable', 1)
    rep.floor(RULE_SS[True] + ':instantiable', 2)
    incomplete = ['%s %s (capacities %s)' % (r, f, sorted(c)) for (r, f), c in bk.units.items() if sorted(c) != sorted(caps)]
    if incomplete:
        rep.defer_broken('content scenarios did not cover every capacity: ' + '; '.join(incomplete[:4]))
    # c14_ident's paragraph lists the int instantiation as undecided: it is decided here
    rep.explanation = (rep.explanation or '').replace('the int instantiation (no events: its values live in raw memory), ', '') \
        + EXPLANATION
    rep.assumptions += ASSUMPTIONS
    return bk
