"""C19 IR dataflow rules: linear evaluation of pointer/integer SSA expressions, the scan rule of
igris_memmem (first match, every position tried) and the cursor rule of the replace loops."""
from irlib import AnalysisBroken, V


def lin_of(f, v, depth=0):
    """SSA value -> ({atom key: coeff}, const) through casts, byte GEPs, add/sub and constant multiplication;
    anything else is an atom"""
    if v.k == 'ci':
        return {}, v.ival
    if v.k == 'null':
        return {}, 0
    if v.k != 'inst' or depth > 30:
        return {v.key(): 1}, 0
    i = f.insts[v.id]

    def comb(a, b, sb):
        t = dict(a[0])
        for k, c in b[0].items():
            t[k] = t.get(k, 0) + sb * c
            if t[k] == 0:
                del t[k]
        return t, a[1] + sb * b[1]
    if i.op in ('bitcast', 'ptrtoint', 'inttoptr', 'sext', 'zext', 'addrspacecast', 'freeze'):
        return lin_of(f, i.ops[0], depth + 1)
    if i.op == 'add':
        return comb(lin_of(f, i.ops[0], depth + 1), lin_of(f, i.ops[1], depth + 1), 1)
    if i.op == 'sub':
        return comb(lin_of(f, i.ops[0], depth + 1), lin_of(f, i.ops[1], depth + 1), -1)
    if i.op == 'getelementptr':
        acc = lin_of(f, i.ops[0], depth + 1)
        for s in i.d['gep']['steps']:
            if s['k'] == 'field':
                acc = (acc[0], acc[1] + s['off'])
            else:
                x = lin_of(f, V(s['v']), depth + 1)
                x = ({k: c * s['stride'] for k, c in x[0].items()}, x[1] * s['stride'])
                acc = comb(acc, x, 1)
        return acc
    return {v.key(): 1}, 0


def lsub(a, b):
    t = dict(a[0])
    for k, c in b[0].items():
        t[k] = t.get(k, 0) - c
        if t[k] == 0:
            del t[k]
    return t, a[1] - b[1]


def memmem_scan_rule(rep, mod, rule='R-MEMMEM-SCAN'):
    f = mod.fn('igris_memmem')
    if f is None or f.decl:
        raise AnalysisBroken('igris_memmem not found')
    name = 'igris_memmem'
    where = '%s:%d' % (f.file, f.line)
    if len(f.loops) != 1:
        raise AnalysisBroken('igris_memmem: expected one scanning loop, found %d' % len(f.loops))
    L = f.loops[0]
    phis = [i for i in L['header'].insts if i.op == 'phi' and i.ty.get('k') in ('ptr', 'int')]
    if len(phis) != 1:
        raise AnalysisBroken('igris_memmem: scanning loop has no single cursor (pointer or offset)')
    cur = phis[0]
    CUR = ({('i', cur.id): 1}, 0)
    A = {k: ('a', k) for k in range(4)}
    # the scanned POSITION as a linear form of the cursor: the cursor itself (pointer walk) or haystack + offset (index
    # walk); taken from the candidate handed to memcmp.  All clauses below are stated on positions, so they do not
    # depend on which of the two forms the loop is written in.
    delta = ({}, 0)
    for r_ in f.returns():
        ri_ = f.inst_of(r_.ops[0]) if r_.ops else None
        cands = []
        if ri_ is not None and ri_.op == 'phi':
            cands = [v for (bb, v) in ri_.incoming if v.k != 'null']
        elif r_.ops:
            cands = [r_.ops[0]]
        for v in cands:
            P = lin_of(f, v)
            if P[0].get(('i', cur.id)) == 1:
                delta = lsub(P, CUR)

    def ladd(a, b):
        t = dict(a[0])
        for k, cf in b[0].items():
            t[k] = t.get(k, 0) + cf
            if t[k] == 0:
                del t[k]
        return t, a[1] + b[1]
    init = step = None
    for (bb, v) in cur.incoming:
        if f.bmap[bb] in L['blocks']:
            step = lsub(lin_of(f, v), CUR)
        else:
            init = ladd(lin_of(f, v), delta)
    ok = init == ({A[0]: 1}, 0)
    rep.inst(rule, name, 'scan-starts-at-first-byte', ok, where,
             None if ok else 'the cursor starts at %r, not at the haystack pointer' % (init,))
    ok = step == ({}, 1)
    rep.inst(rule, name, 'scan-tries-every-position', ok, where,
             None if ok else 'the cursor advances by %r per iteration' % (step,))
    # exit condition
    t = L['header'].term
    ok = False
    detail = 'loop bound not recognised'
    if t.op == 'br' and 'f' in t.d and t.ops[0].k == 'inst':
        c = f.insts[t.ops[0].id]
        if c.op == 'icmp' and c.pred in ('ule', 'ult', 'uge', 'ugt', 'ne'):
            a, b = c.ops
            pred = c.pred
            if lin_of(f, b) == ({('i', cur.id): 1}, 0):
                a, b = b, a
                pred = {'ule': 'uge', 'ult': 'ugt', 'uge': 'ule', 'ugt': 'ult', 'ne': 'ne'}[pred]
            stay = f.bmap[t.d['t']] in L['blocks']
            if lin_of(f, a) == ({('i', cur.id): 1}, 0) and stay:
                bound = ladd(lin_of(f, b), delta)
                last = ({A[0]: 1, A[1]: 1, A[3]: -1}, 0)      # l + l_len - s_len
                beyond = ({A[0]: 1, A[1]: 1, A[3]: -1}, 1)
                if pred == 'ule':
                    ok = bound == last
                elif pred in ('ult', 'ne'):
                    ok = bound == beyond
                elif pred in ('uge', 'ugt'):
                    ok = False
                detail = None if ok else ('the scan continues while cursor %s %r; the last position where the needle '
                                          'fits is l + l_len - s_len' % (pred, bound))
            elif lin_of(f, a) == ({('i', cur.id): 1}, 0):
                detail = 'loop bound has the wrong polarity'
        else:
            raise AnalysisBroken('igris_memmem: loop bound of unrecognised form')
    if not ok and detail == 'loop bound not recognised':
        # the bound is written in a form this rule does not follow; the content rules (c19_content R-MEMMEM-CONTENT) and the
        # bounds obligations still decide the scan, so this is an analysis limit of the shape rule only
        raise AnalysisBroken('igris_memmem: loop bound of the scan not recognised')
    rep.inst(rule, name, 'scan-reaches-last-fitting-position', ok, t.where(), detail)
    # result = cursor at the first memcmp == 0
    rets = f.returns()
    got = None
    def leaving(b, tgt):
        """(loop block, its successor) through which block b - possibly a block behind the loop that only forms the
        result, e.g. `return (char *)cl + pos;` - is reached"""
        for _ in range(4):
            if b in L['blocks']:
                return b, tgt
            if len(b.preds) != 1:
                return None
            b, tgt = b.preds[0], b
        return None
    for r in rets:
        ri = f.inst_of(r.ops[0]) if r.ops else None
        if ri is not None and ri.op == 'phi':
            for (bb, v) in ri.incoming:
                if v.k != 'null' and lin_of(f, v)[0].get(('i', cur.id)) == 1:
                    lv = leaving(f.bmap[bb], r.block)
                    if lv is not None:
                        got = (v, lv[0], lv[1])
        elif r.ops and lin_of(f, r.ops[0])[0].get(('i', cur.id)) == 1:
            lv = leaving(r.block, None)
            if lv is not None:
                got = (r.ops[0], lv[0], lv[1])
    ok = False
    detail = 'no return of the cursor inside the scanning loop'
    if got is not None:
        v, blk, tgt = got
        isc = lin_of(f, v) == ladd(CUR, delta)
        guarded = False
        t = blk.term
        if t.op == 'br' and 'f' in t.d and t.ops[0].k == 'inst':
            c = f.insts[t.ops[0].id]
            if c.op == 'icmp' and c.pred in ('eq', 'ne') and any(o.k == 'ci' and o.ival == 0 for o in c.ops):
                call = [f.inst_of(o) for o in c.ops if o.k == 'inst']
                call = call[0] if call else None
                zero = t.d['t'] if c.pred == 'eq' else t.d['f']
                if call is not None and call.op == 'call' and call.callee == 'memcmp' and (tgt is None or f.bmap[zero] is tgt):
                    a0, a1, a2 = [lin_of(f, o) for o in call.ops[:3]]
                    R = ladd(CUR, delta)
                    k0 = lsub(a0, R)
                    if k0[0] == {} and 0 <= k0[1] <= 4 and a1 == ({A[2]: 1}, k0[1]) and a2 == ({A[3]: 1}, -k0[1]):
                        # the first k bytes are compared one by one (position[j] == needle[j] on an edge every path to the
                        # memcmp uses), the remaining s_len - k bytes by memcmp(position + k, needle + k, s_len - k)
                        guarded = True
                        for j in range(k0[1]):
                            edges = []
                            for e in f.all_insts():
                                if e.op != 'icmp' or e.pred not in ('eq', 'ne'):
                                    continue
                                sides = set()
                                for o in e.ops:
                                    x = o
                                    for _ in range(3):
                                        xi = f.inst_of(x)
                                        if xi is not None and xi.op in ('sext', 'zext'):
                                            x = xi.ops[0]
                                        else:
                                            break
                                    xi = f.inst_of(x)
                                    if xi is not None and xi.op == 'load':
                                        pl = lin_of(f, xi.ops[0])
                                        if pl == ladd(R, ({}, j)):
                                            sides.add('text')
                                        elif pl == ({A[2]: 1}, j):
                                            sides.add('needle')
                                if sides == {'text', 'needle'}:
                                    edges += f.edges_implying(e, e.pred == 'eq')
                            if not edges or not f.only_through_edges(edges, call.block):
                                guarded = False
        ok = isc and guarded
        detail = None if ok else ('the value returned from the loop is %s and the return is %s by '
                                  'memcmp(cursor, s, s_len) == 0' % ('the cursor' if isc else 'not the cursor',
                                                                     'guarded' if guarded else 'not guarded'))
    if not ok and not any(c.callee == 'memcmp' for c in f.calls()):
        raise AnalysisBroken('igris_memmem: the match test is not a memcmp call (form not recognised by the shape rule)')
    rep.inst(rule, name, 'returns-cursor-of-first-full-match', ok, where, detail)


def replace_cursor_rule(rep, mod, fname, name, sublen_atom, rule='R-REPLACE-STEP'):
    """in the replace loop the input cursor continues exactly behind the match:
    cursor' = igris_memmem(cursor, end - cursor, sub, sublen) + sublen, and the search always extends to the end
    of the input (end - cursor)"""
    f = mod.fn(fname)
    if f is None or f.decl:
        raise AnalysisBroken('%s not found' % fname)
    where = '%s:%d' % (f.file, f.line)
    calls = [i for i in f.all_insts() if i.op in ('call', 'invoke') and i.callee == 'igris_memmem']
    if len(calls) != 1:
        raise AnalysisBroken('%s: expected one igris_memmem call, found %d' % (fname, len(calls)))
    mm = calls[0]
    loops = [L for L in f.loops if mm.block in L['blocks']]
    if not loops:
        raise AnalysisBroken('%s: igris_memmem is not called in a loop' % fname)
    L = min(loops, key=lambda l: len(l['blocks']))
    start = lin_of(f, mm.ops[0])
    cur = None
    for k in start[0]:
        if k[0] == 'i' and f.insts[k[1]].op == 'phi' and f.insts[k[1]].block is L['header']:
            cur = f.insts[k[1]]
    ok = cur is not None and start == ({('i', cur.id): 1}, 0)
    rep.inst(rule, name, 'search-starts-at-cursor', ok, mm.where(),
             None if ok else 'igris_memmem is not started at the loop cursor (%r)' % (start,))
    if cur is None:
        return
    sub_len = sublen_atom(f)
    ln = lin_of(f, mm.ops[1])
    sl = lin_of(f, mm.ops[3])
    ok = sl == ({sub_len: 1}, 0)
    rep.inst(rule, name, 'needle-length-is-sublen', ok, mm.where(), None if ok else 'needle length is %r' % (sl,))
    # haystack length = end - cursor where end = input + inlen (any atoms), i.e. coefficient of cursor is -1
    nxt = None
    first = None
    for (bb, v) in cur.incoming:
        if f.bmap[bb] in L['blocks']:
            nxt = lin_of(f, v)
        else:
            first = lin_of(f, v)
    ok = ln[0].get(('i', cur.id)) == -1 and ln[1] == 0
    detail = None if ok else 'haystack length is %r' % (ln,)
    if not ok and len(ln[0]) == 1 and ln[1] == 0:
        # a remaining-length counter carried beside the cursor: `left` is a header phi of the same loop and
        # cursor + left (the end of the input) is the same on entry of every iteration
        (k, c), = ln[0].items()
        left = f.insts[k[1]] if k[0] == 'i' else None
        if c == 1 and left is not None and left.op == 'phi' and left.block is L['header']:
            lnxt = None
            for (bb, v) in left.incoming:
                if f.bmap[bb] in L['blocks']:
                    lnxt = lin_of(f, v)
            if lnxt is not None and nxt is not None:
                t = dict(nxt[0])
                for kk, cc in lnxt[0].items():
                    t[kk] = t.get(kk, 0) + cc
                total = ({kk: cc for kk, cc in t.items() if cc}, nxt[1] + lnxt[1])
                ok = total == ({('i', cur.id): 1, ('i', left.id): 1}, 0)
                detail = None if ok else ('the remaining length carried beside the cursor does not keep cursor + remaining '
                                          'constant: after a match it is %r' % (total,))
    if not ok and detail is not None and detail.startswith('haystack length') and ln[0].get(('i', cur.id)) is None:
        raise AnalysisBroken('%s: the haystack length %r is neither end - cursor nor a counter carried beside the cursor'
                             % (fname, ln))
    rep.inst(rule, name, 'search-extends-to-end-of-input', ok, mm.where(), detail)
    want = ({('i', mm.id): 1, sub_len: 1}, 0)
    ok = nxt == want
    rep.inst(rule, name, 'cursor-continues-behind-match', ok, where,
             None if ok else 'after a match the cursor becomes %r; non-overlapping left-to-right substitution '
             'needs match + sublen' % (nxt,))
