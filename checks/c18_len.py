"""C18 extension: length and loop-structure clauses of the hexascii and base64 codecs, decided by abstract
interpretation (c18.py decides the bit slices, the alphabet, the admission predicate and the index width).

Rules (all added to the report of C18):
  R-HEXLEN      hexascii_encode / hexascii_decode (igris/util/hexascii.c) and igris::hexascii_encode(ptr, size)
                (igris/string/hexascii_string.cpp): exact extents (n in, 2n out; n in, n/2 out with the odd trailing
                digit ignored), every input byte is read and every output byte is written, result string length 2n
  R-B64ENCLEN   igris::base64_encode(ptr, size): reads inside [0, size) of an exactly sized buffer, three bytes are
                consumed per four characters, output length 4*ceil(size/3) by cases of size mod 3
  R-B64DECLEN   igris::base64_decode: reads below size(), stops at the first '=' / non-alphabet character, 3 bytes per
                complete quartet plus k-1 for a tail of k symbols, scratch arrays in bounds
  R-URLWALK     base64url_encode / base64url_decode: the substitution walks exactly the text ([0, len), every position
                is read, nothing outside is touched), for every length
  R-URLMAP      the substitution is the character map '+'<->'-', '/'<->'_' and the identity elsewhere, position by
                position (texts of 1 and 3 characters, every position, every character class)
  R-FWD         the std::string / igris::buffer convenience overloads hand (data(), size()) of their argument on

std::string is summarised: a length cell (kept in mixed radix R*a + b so that "groups of R" stay linear), an exactly
sized character block behind data()/operator[]/begin()/end(); reserve / constructors / destructor do nothing.
"""
import os
from common import *
from lin import Lin, _L, normalize
from absval import IntVal, PtrVal, CondVal, Obj, mk_const
from contracts import assume_text
from irlib import demangle, keep_all_but_new_helpers, tyname

ONLY = None          # developer switch: run only the named parts
MAXLEN = 1 << 30     # lengths are assumed <= 2^30 (int / size_t arithmetic of the callers does not wrap)
STR_PREFIX = 'std::__cxx11::basic_string<char, std::char_traits<char>, std::allocator<char> >::'
STR_TYPE = 'std::__cxx11::basic_string<char, std::char_traits<char>, std::allocator<char> >'


# ----------------------------------------------------------------------------------------------------------------
# engine extensions (local: the engine files are not edited)
# ----------------------------------------------------------------------------------------------------------------
class LenInterp(Interp):
    """Interp with (a) loop-invariant templates that relate two or three loop-carried quantities with the small
    constants the loop itself uses (remaining + 3*k == size, in == 4*groups + i), (b) byte loads from a *classed text*
    (object info 'text'): the state is split by the position relative to the stop position and by character class,
    one symbol per position."""

    def __init__(self, mod, externals=None, opaque=(), radix=()):
        Interp.__init__(self, mod, externals=externals, opaque=opaque)
        self.max_peel = 5
        self.max_peel_states = 4
        self.extra_k = set(radix)
        self._loopk = []
        self._frm = []
        self._last_head = None
        self.exit_split = None
        self.access_hook = frontier_hook

    # -- (a) templates ------------------------------------------------------------------------------------------
    def run_loop(self, fn, L, st, frm, rets):
        ks = set(self.extra_k)
        for b in L['blocks']:
            for i in b.insts:
                if i.op in ('add', 'sub', 'icmp', 'mul'):
                    for o in i.ops:
                        if o.k == 'ci' and o.width and o.width > 1:
                            ks.add(abs(o.ival))
                elif i.op == 'getelementptr':
                    for s in i.d['gep']['steps']:
                        if s['k'] == 'index' and s['v']['k'] == 'ci':
                            ks.add(abs(s['stride'] * int(s['v'].get('v', 0))))
        self._loopk.append(set(k for k in ks if 2 <= k <= 8))
        self._frm.append(frm)
        try:
            exits = Interp.run_loop(self, fn, L, st, frm, rets)
        finally:
            self._loopk.pop()
            self._frm.pop()
        if self.exit_split is not None and not self._frm and self.recording == 0:
            # finite case analysis on leaving an outermost loop (e.g. by the residue of the stop position)
            out = []
            for (s, f, t) in exits:
                out.extend((s2, f, t) for s2 in self.exit_split(self, s))
            exits = out
        return exits

    def build_head(self, st, fn, L, phis, inits, modified, smashed, signs=None):
        H, newsyms = Interp.build_head(self, st, fn, L, phis, inits, modified, smashed, signs)
        self._last_head = (H, newsyms, fn, L)
        return H, newsyms

    def concrete_step(self, newsyms, vals):
        """one pass through the loop body from the loop-head abstraction with the loop-head symbols pinned to `vals`
        (sym -> Lin over entry symbols): the values at each back edge, as dicts of the same kind"""
        H, ns, fn, L = self._last_head
        if ns is not newsyms or not self._frm:
            return None
        H2 = H.fork()
        H2.written = set()
        for sy, v in vals.items():
            H2.cons.add_eq(Lin.sym(sy), v)
        self.recording += 1
        saved = self.cmp_log
        self.cmp_log = None
        try:
            latches, exits = self.run_region(fn, L, [(H2, self._frm[-1])], [])
            out = []
            for (T, lf) in latches[:4]:
                m = self.latch_subst(fn, T, lf, newsyms)[0]
                out.append({sy: l.subst(vals) for sy, l in m.items() if sy != '__missing__'})
            return out
        except AnalysisBroken:
            return None
        finally:
            self.recording -= 1
            self.cmp_log = saved

    def gen_candidates(self, st, newsyms, partners=()):
        def shape(c):
            return tuple(sorted((str(k), v) for k, v in c.t.items()))
        dbg = os.environ.get('VERIF_DEBUG_LOOPS')
        # constraints harvested from the body that only restate the range of a machine type are useless as templates
        partners = [c for c in partners if abs(c.c) < (1 << 31) and all(abs(v) < (1 << 16) for v in c.t.values())]
        out = Interp.gen_candidates(self, st, newsyms, ())
        ks = sorted(self._loopk[-1]) if self._loopk else []
        usable = []
        head = {}
        vals0 = {}
        for n, (xl, init, what, w, signed) in enumerate(newsyms):
            head[('$', n)] = xl
            if init is None:
                continue
            vals0[next(iter(xl.t))] = init
            usable.append((Lin.sym(('$', n)), init))
        # the states after the first and the second trip round the loop, computed with the loop-head symbols pinned to
        # their values
        points = []
        if vals0:
            first = self.concrete_step(newsyms, vals0) or []
            points.extend(first)
            for v1 in first[:3]:
                if v1:
                    points.extend(self.concrete_step(newsyms, v1) or [])
            # ... and four more trips along the first path (a group of up to six steps is completed once)
            cur = points[len(first)] if len(points) > len(first) else None
            for _ in range(4):
                if not cur:
                    break
                nxt = self.concrete_step(newsyms, cur) or []
                points.extend(nxt[:2])
                cur = nxt[0] if nxt else None
            # the amounts by which the loop-carried quantities move per trip are coefficients worth trying
            ks = set(ks)
            for v in first:
                for sy, l in v.items():
                    d = l - vals0[sy] if sy in vals0 else None
                    if d is not None and d.is_const() and 2 <= abs(d.c) <= 8:
                        ks.add(abs(d.c))
            ks = sorted(ks)
        templ = []
        seen = set(c.key() for c in out)

        def add_eq(e):
            """e == 0 (e over the placeholders, zero on entry by construction)"""
            for c in (normalize(e), normalize(-e)):
                k = c.key()
                if k in seen or not c.t:
                    continue
                seen.add(k)
                templ.append(c)
        if 2 <= len(usable) <= 10:
            for a in range(len(usable)):
                for b in range(a + 1, len(usable)):
                    xa, ia = usable[a]
                    xb, ib = usable[b]
                    for k in ks:
                        for (ka, kb) in ((1, k), (k, 1), (1, -k), (k, -1)):
                            add_eq(xa * ka + xb * kb - (ia * ka + ib * kb))
            # x == k*y + z : a position split into (group, index inside the group)
            for x in range(len(usable)):
                for y in range(len(usable)):
                    for z in range(len(usable)):
                        if len({x, y, z}) < 3:
                            continue
                        for k in ks:
                            add_eq(usable[x][0] - usable[y][0] * k - usable[z][0] -
                                   (usable[x][1] - usable[y][1] * k - usable[z][1]))
        # the harvest also returns the previous round's own templates: those are not generalised again
        known_shapes = set(shape(c) for c in templ)
        fresh = [c for c in partners if shape(normalize(c)) not in known_shapes]
        if fresh:
            have = set(c.key() for c in out)
            out += [c for c in Interp.gen_candidates(self, st, newsyms, fresh) if c.key() not in have]
        nbase = len(out)
        out += templ
        # a candidate that is false at one of the concrete points is not an invariant: discarded without any entailment query
        keep = []
        for n, c in enumerate(out):
            ch = c.subst(head)
            bad = False
            for v in points:
                if any(sy not in v for sy in ch.t if sy in vals0):
                    continue
                d = ch.subst(v)
                # the templates are equalities (both directions were added): false as soon as the value is not zero
                if (d.is_const() and (d.c > 0 or (n >= nbase and d.c != 0))) or (n >= nbase and not d.is_const()):
                    bad = True
                    break
            if not bad:
                keep.append(c)
        if dbg:
            print('CANDS %d partners (%d new shapes), base %d (+%d templates) -> %d after %d concrete points'
                  % (len(partners), len(fresh), nbase, len(templ), len(keep), len(points)))
        return keep

    # -- (b) classed texts --------------------------------------------------------------------------------------
    def exec_inst(self, fn, i, st):
        if i.op == 'load' and i.ty.get('bits') == 8:
            p = self.val(st, i.ops[0], fn)
            if isinstance(p, PtrVal) and p.obj is not None:
                o = st.objs.get(p.obj)
                if o is not None and o.info.get('text') is not None:
                    return self.load_text(st, p, o, i)
        return Interp.exec_inst(self, fn, i, st)

    def load_text(self, st, p, o, i):
        key = ('i', i.id)
        self.check_access(st, p, 1, i, 'load')
        if st.bottom:
            return []
        hit = st.conv.get(('txt', o.id, p.off.key()))
        if hit is None:
            n = 0
            for k, v in st.conv.items():
                if isinstance(k, tuple) and len(k) == 3 and k[0] == 'txt' and k[1] == o.id:
                    n += 1
                    if n > 12:
                        break
                    if st.cons.entails_eq(p.off, v[1]):
                        hit = v
                        break
        if hit is not None:
            st.env[key] = hit[0]
            return [st]
        spec = o.info['text']
        out = []
        for (rel, classes) in spec.cases(st, p.off):
            s0 = st.fork()
            for c in rel:
                s0.cons.add(c)
            if rel and self.infeasible(s0, p.off, spec.stop):
                continue
            for (lo, hi) in classes:
                s = s0.fork() if len(classes) > 1 else s0
                if lo == hi:
                    b = mk_const(8, lo)
                else:
                    b = s.fresh_int(8, False, 'ch')
                    s.cons.add_le(lo, b.u)
                    s.cons.add_le(b.u, hi)
                    if hi <= 127:
                        b = IntVal(8, b.u, b.u)
                s.conv[('txt', o.id, p.off.key())] = (b, p.off)
                s.env[key] = b
                out.append(s)
        return out


ALPHA = [(65, 90), (97, 122), (48, 57), (43, 43), (47, 47)]
JUNK = [(0, 42), (44, 46), (58, 60), (62, 64), (91, 96), (123, 127), (128, 255)]
PAD = [(61, 61)]


class Base64Text:
    """content model of an encoded text that is only read: the characters before position `stop` are symbols of the
    RFC 4648 alphabet (one class each: A-Z, a-z, 0-9, '+', '/'), the character at `stop` (when there is one) is the
    padding character or a character outside the alphabet, the rest is arbitrary"""

    def __init__(self, stop):
        self.stop = stop

    def cases(self, st, off):
        P = self.stop
        if st.cons.entails_lt(off, P):
            return [([], ALPHA)]
        if st.cons.entails_eq(off, P):
            return [([], PAD + JUNK)]
        if st.cons.entails_lt(P, off):
            return [([], [(0, 255)])]
        out = [([off - P + 1], ALPHA), ([off - P, P - off], PAD + JUNK)]
        if not st.cons.entails_le(off, P):
            out.append(([P - off + 1], [(0, 255)]))
        return out


# ----------------------------------------------------------------------------------------------------------------
# access frontiers: how far an object has been read / written (ghost cells, so that loops carry them)
# ----------------------------------------------------------------------------------------------------------------
def ghost_obj(st, hint, desc):
    """analysis-only object: survives unknown calls (treated like a local whose address never escapes)"""
    oid = st.fresh_name('ghost_' + hint)
    o = Obj(oid, 'alloca', Lin(64), {'desc': desc, 'ghost': True})
    st.objs[oid] = o
    return o


def set_cell(st, key, v):
    st.mem[key] = v
    if st.written is not None:
        st.written.add(key)


def watch(st, o):
    """registers read/write frontiers for object o: cells (g,0,8) = read frontier, (g,8,8) = write frontier,
    (g,16,8) / (g,24,8) = 1 when a read / write skipped over bytes (coverage cannot be concluded from the frontier)"""
    g = ghost_obj(st, 'fr', 'access frontier of %s' % o.info.get('desc', o.id))
    o.info['frontier'] = g.id
    for off in (0, 8, 16, 24):
        st.mem[(g.id, off, 8)] = mk_const(64, 0)
    return g


def frontier_hook(interp, st, inst, p, size, kind):
    if not isinstance(p, PtrVal) or p.obj is None:
        return
    o = st.objs.get(p.obj)
    g = o.info.get('frontier') if o is not None else None
    if g is None:
        return
    wr = kind == 'store' or kind.endswith('-dst')
    key = (g, 8 if wr else 0, 8)
    cur = st.mem.get(key)
    if not isinstance(cur, IntVal) or cur.u is None:
        return
    F = cur.u
    end = p.off + _L(size)
    if st.cons.entails_le(end, F):
        return
    if not st.cons.entails_le(p.off, F):
        set_cell(st, (g, 24 if wr else 16, 8), mk_const(64, 1))
    if st.cons.entails_le(F, end):
        new = end
    else:
        f = st.fresh_int(64, False, 'fr')
        st.cons.add_le(F, f.u)
        st.cons.add_le(end, f.u)
        if o.size is not None:
            st.cons.add_le(f.u, o.size)
        new = f.u
    set_cell(st, key, IntVal(64, new, None))


def frontier(T, oid, which):
    """Lin value of the read ('rd') / write ('wr') frontier of object oid, None when lost; 'rdgap' / 'wrgap' -> 0 | 1"""
    o = T.objs.get(oid)
    g = o.info.get('frontier') if o is not None else None
    if g is None:
        return None
    v = T.mem.get((g, {'rd': 0, 'wr': 8, 'rdgap': 16, 'wrgap': 24}[which], 8))
    if not isinstance(v, IntVal):
        return None
    if which.endswith('gap'):
        u = T.as_u(v)
        return 0 if u is not None and T.cons.entails_eq(u, 0) else 1
    return T.as_u(v)


# ----------------------------------------------------------------------------------------------------------------
# std::string summary
# ----------------------------------------------------------------------------------------------------------------
class StrModel:
    """externals for std::string members.  A string at (object, offset) is three cells of its own storage:
    +0 pointer to the character block (or absent: none handed out since the last growth), +8 / +16 the length in
    mixed radix a, b (length == R*a + b, 0 <= b < R; R == 1 keeps the plain length in a)."""

    def __init__(self, mod, radix=1):
        self.mod = mod
        self.radix = radix
        self.ext = {}
        self.opaque = set()
        self.push_hook = None        # f(interp, st, inst, this, a, b) before each appended character
        names = [f.name for f in mod.functions.values()]
        for n, d in zip(names, demangle(names)):
            if not d.startswith(STR_PREFIX):
                continue
            tail = d[len(STR_PREFIX):]
            self.opaque.add(n)
            self.ext[n] = self.handler(tail)

    # -- cells ---------------------------------------------------------------------------------------------------
    @staticmethod
    def at(this):
        if not isinstance(this, PtrVal) or this.is_null or not this.off.is_const():
            raise AnalysisBroken('std::string reached through a pointer the summary cannot follow: %r' % (this,))
        return this.obj, this.off.c

    def R(self, st, this):
        return st.conv.get(('strR',) + self.at(this), self.radix)

    def init(self, st, this, length, radix=None, a=None, b=None, eager=True):
        """(re)defines the length; eager: the character block exists from now on (a block that is first asked for inside
        a loop would be a new object in every iteration, and its frontiers would not be carried round the loop)"""
        obj, off = self.at(this)
        R = radix or self.radix
        st.conv[('strR', obj, off)] = R
        if a is None:
            length = _L(length)
            if R == 1:
                a, b = length, Lin(0)
            elif length.is_const():
                a, b = Lin(length.c // R), Lin(length.c % R)
            else:
                q = st.fresh_int(64, False, 'q')
                r = st.fresh_int(64, False, 'r')
                st.cons.add_le(r.u, R - 1)
                st.cons.add_eq(q.u * R + r.u, length)
                a, b = q.u, r.u
        set_cell(st, (obj, off + 8, 8), IntVal(64, a, None))
        set_cell(st, (obj, off + 16, 8), IntVal(64, b, None))
        self.drop_data(st, this)
        if eager:
            self.data_obj(st, this)

    def ab(self, st, this):
        obj, off = self.at(this)
        a = st.mem.get((obj, off + 8, 8))
        b = st.mem.get((obj, off + 16, 8))
        if not isinstance(a, IntVal) or not isinstance(b, IntVal) or st.as_u(a) is None or st.as_u(b) is None:
            raise AnalysisBroken('length of the std::string at %s is not tracked (not constructed on this path, or '
                                 'clobbered by an unknown call)' % str(obj).split('#')[0])
        return st.as_u(a), st.as_u(b)

    def length(self, st, this):
        a, b = self.ab(st, this)
        return a * self.R(st, this) + b

    def drop_data(self, st, this):
        obj, off = self.at(this)
        if (obj, off, 8) in st.mem:
            del st.mem[(obj, off, 8)]
            if st.written is not None:
                st.written.add((obj, off, 8))

    def data_obj(self, st, this, create=True):
        obj, off = self.at(this)
        p = st.mem.get((obj, off, 8))
        n = self.length(st, this)
        if isinstance(p, PtrVal) and p.obj is not None:
            o = st.objs.get(p.obj)
            if o is not None and o.size is not None and st.cons.entails_eq(o.size, n):
                return o
        if not create:
            return None
        so = st.objs.get(obj)
        if so is not None and so.kind == 'alloca':
            who = 'a local std::string'
        elif so is not None and so.info.get('desc', '').startswith('std::string '):
            who = so.info['desc']
        else:
            who = 'the returned std::string'
        o = st.new_obj('heap', n, 'strdata', {'desc': 'characters of %s' % who})
        watch(st, o)
        set_cell(st, (obj, off, 8), PtrVal(o.id, Lin(0)))
        return o

    def make(self, st, name, length, radix=1, text=None, cells=None):
        """a std::string object that exists on entry (argument / callee result) with its character block"""
        so = st.new_obj('param', Lin(32), name, {'desc': 'std::string %s' % name})
        this = PtrVal(so.id, Lin(0))
        self.init(st, this, length, radix, eager=False)
        do = st.new_obj('param', _L(length), name + '.data', {'desc': 'characters of std::string %s' % name})
        if text is not None:
            do.info['text'] = text
        watch(st, do)
        st.mem[(so.id, 0, 8)] = PtrVal(do.id, Lin(0))
        for j, v in enumerate(cells or ()):
            st.mem[(do.id, j, 1)] = v
        return this, do

    # -- members -------------------------------------------------------------------------------------------------
    def handler(self, tail):
        name = tail.split('(')[0]
        sig = tail[len(name):]
        if name == 'basic_string':
            if sig.startswith('()') or sig.startswith('(std::allocator<char> const&)'):
                return self.m_ctor
            if sig.startswith('(' + STR_TYPE + ' const&)') or sig.startswith('(' + STR_TYPE + '&&)'):
                return self.m_copy
            if sig.startswith('(unsigned long, char'):
                return self.m_fill
            if sig.startswith('(char const*, unsigned long'):
                return self.m_from_buf
        if name == '~basic_string':
            return self.m_nop
        if name in ('reserve', 'shrink_to_fit'):
            return self.m_nop
        if name in ('push_back',) or (name == 'operator+=' and sig.startswith('(char)')):
            return self.m_push
        if name == 'append' and sig.startswith('(unsigned long, char)'):
            return self.m_append_fill
        if name == 'append' and sig.startswith('(char const*, unsigned long)'):
            return self.m_append_buf
        if name == 'resize':
            return self.m_resize
        if name == 'clear':
            return self.m_clear
        if name in ('size', 'length'):
            return self.m_size
        if name == 'empty':
            return self.m_empty
        if name in ('data', 'c_str', 'begin', 'cbegin'):
            return self.m_begin
        if name in ('end', 'cend'):
            return self.m_end
        if name in ('operator[]', 'at'):
            return self.m_index
        if name == 'front':
            return self.m_begin
        if name == 'back':
            return self.m_back
        if name == 'find' and sig.startswith('(char, unsigned long)'):
            return self.m_find_char

        def unmodelled(interp, st, i, args, tail=tail):
            raise AnalysisBroken('std::string::%s is called at %s: this member is not summarised' % (tail, i.where()))
        return unmodelled

    def m_nop(self, interp, st, i, args):
        return [(st, None)]

    def m_ctor(self, interp, st, i, args):
        # no block for the empty string: it would be dropped by the first append, and a pointer cell that is rewritten inside
        # a loop becomes one more loop-head symbol
        self.init(st, args[0], 0, eager=False)
        return [(st, None)]

    def m_fill(self, interp, st, i, args):
        self.init(st, args[0], st.force_u(args[1]))
        return [(st, None)]

    def m_from_buf(self, interp, st, i, args):
        n = st.force_u(args[2])
        if not (n.is_const() and n.c == 0):
            interp.check_access(st, args[1], n, i, 'string-src')
        if st.bottom:
            return []
        self.init(st, args[0], n)
        return [(st, None)]

    def m_copy(self, interp, st, i, args):
        this, other = args[0], args[1]
        a, b = self.ab(st, other)
        self.init(st, this, None, self.R(st, other), a, b)
        src = self.data_obj(st, other, create=False)
        if src is not None and src.size.is_const() and src.size.c <= 16:
            dst = self.data_obj(st, this)
            for j in range(src.size.c):
                v = st.mem.get((src.id, j, 1))
                if v is not None:
                    st.mem[(dst.id, j, 1)] = v
        return [(st, None)]

    def push1(self, interp, st, i, this):
        """one character appended: list of states"""
        R = self.R(st, this)
        a, b = self.ab(st, this)
        if self.push_hook is not None:
            self.push_hook(interp, st, i, this, a, b)
        obj, off = self.at(this)
        self.drop_data(st, this)
        if R == 1:
            set_cell(st, (obj, off + 8, 8), IntVal(64, a + 1, None))
            return [st]
        out = []
        if st.cons.entails_le(b, R - 2):
            set_cell(st, (obj, off + 16, 8), IntVal(64, b + 1, None))
            return [st]
        if not st.cons.entails_eq(b, R - 1):
            s2 = st.fork()
            s2.cons.add_le(b, R - 2)
            if not interp.infeasible(s2, b, Lin(R)):
                set_cell(s2, (obj, off + 16, 8), IntVal(64, b + 1, None))
                out.append(s2)
            st.cons.add_eq(b, R - 1)
            if interp.infeasible(st, b, Lin(R)):
                return out
        set_cell(st, (obj, off + 8, 8), IntVal(64, a + 1, None))
        set_cell(st, (obj, off + 16, 8), IntVal(64, Lin(0), None))
        out.append(st)
        return out

    def push_n(self, interp, st, i, this, n):
        R = self.R(st, this)
        if R == 1 and self.push_hook is None:
            a, b = self.ab(st, this)
            obj, off = self.at(this)
            self.drop_data(st, this)
            set_cell(st, (obj, off + 8, 8), IntVal(64, a + n, None))
            return [st]
        if not n.is_const() or n.c > 16:
            raise AnalysisBroken('%s appends a non-constant number of characters at %s: the grouped length summary '
                                 'needs a constant' % (i.fn.srcname, i.where()))
        states = [st]
        for _ in range(n.c):
            nxt = []
            for s in states:
                nxt.extend(self.push1(interp, s, i, this))
            states = nxt
        return states

    def m_push(self, interp, st, i, args):
        return [(s, args[0]) for s in self.push1(interp, st, i, args[0])]

    def m_append_fill(self, interp, st, i, args):
        return [(s, args[0]) for s in self.push_n(interp, st, i, args[0], st.force_u(args[1]))]

    def m_append_buf(self, interp, st, i, args):
        n = st.force_u(args[2])
        if not (n.is_const() and n.c == 0):
            interp.check_access(st, args[1], n, i, 'append-src')
        if st.bottom:
            return []
        return [(s, args[0]) for s in self.push_n(interp, st, i, args[0], n)]

    def m_resize(self, interp, st, i, args):
        self.init(st, args[0], st.force_u(args[1]), self.R(st, args[0]))
        return [(st, None)]

    def m_clear(self, interp, st, i, args):
        self.init(st, args[0], 0, self.R(st, args[0]))
        return [(st, None)]

    def m_size(self, interp, st, i, args):
        return [(st, IntVal(64, self.length(st, args[0]), None))]

    def m_empty(self, interp, st, i, args):
        return [(st, CondVal('cmp', 'eq', IntVal(64, self.length(st, args[0]), None), mk_const(64, 0), None, None))]

    def m_begin(self, interp, st, i, args):
        return [(st, PtrVal(self.data_obj(st, args[0]).id, Lin(0)))]

    def m_end(self, interp, st, i, args):
        return [(st, PtrVal(self.data_obj(st, args[0]).id, self.length(st, args[0])))]

    def m_back(self, interp, st, i, args):
        return [(st, PtrVal(self.data_obj(st, args[0]).id, self.length(st, args[0]) - 1))]

    def m_index(self, interp, st, i, args):
        return [(st, PtrVal(self.data_obj(st, args[0]).id, st.force_u(args[1])))]

    def m_find_char(self, interp, st, i, args):
        """find(c, pos): the first position >= pos holding c, else npos.  On a text of constant length whose characters are
        cells the outcome is split position by position (found here / not here); otherwise the two outcomes are 'some
        position below size()' and npos.  The characters up to the result are read (in ascending order)."""
        this, c, pos = args[0], args[1], st.force_u(args[2])
        n = self.length(st, this)
        o = self.data_obj(st, this)
        npos = mk_const(64, (1 << 64) - 1)
        if n.is_const() and pos.is_const() and isinstance(c, IntVal):
            cells = [st.mem.get((o.id, j, 1)) for j in range(pos.c, n.c)]
            if all(isinstance(v, IntVal) and v.w == c.w for v in cells):
                out = []
                cur = [st]
                for j, v in zip(range(pos.c, n.c), cells):
                    nxt = []
                    for s_ in cur:
                        interp.check_access(s_, PtrVal(o.id, Lin(j)), 1, i, 'load')
                        if s_.bottom:
                            continue
                        s2 = s_.fork()
                        for t in interp.assume(s_, CondVal('cmp', 'eq', v, c, None, None), True):
                            out.append((t, mk_const(64, j)))
                        nxt.extend(interp.assume(s2, CondVal('cmp', 'eq', v, c, None, None), False))
                    cur = nxt
                out.extend((s_, npos) for s_ in cur)
                return out
        out = []
        miss = st.fork()
        hit = st
        r = hit.fresh_int(64, False, 'found')
        hit.cons.add_le(pos, r.u)
        hit.cons.add_lt(r.u, n)
        if not interp.infeasible(hit, r.u, n):
            # (bounds only: a search that stops somewhere inside the text does not count for the coverage clauses - the
            # frontier stays where it is, and a walk that follows is judged on its own)
            hook, interp.access_hook = interp.access_hook, None
            try:
                interp.check_access(hit, PtrVal(o.id, pos), r.u + 1 - pos, i, 'load')
            finally:
                interp.access_hook = hook
            if not hit.bottom:
                out.append((hit, r))
        rest = n - pos
        if not miss.cons.entails_le(rest, 0):
            m2 = miss.fork()
            m2.cons.add_le(1, rest)
            interp.check_access(m2, PtrVal(o.id, pos), rest, i, 'load')
            if not m2.bottom:
                out.append((m2, npos))
            miss.cons.add_le(rest, 0)
            if not interp.infeasible(miss, rest, Lin(0)):
                out.append((miss, npos))
        else:
            out.append((miss, npos))
        return out


# ----------------------------------------------------------------------------------------------------------------
# contract runner with extra names at the return
# ----------------------------------------------------------------------------------------------------------------
class LenRun(ContractRun):
    """binders: list of f(T, bind) called at every return; bind(name, Lin) makes `name` usable in postconditions.
    A binder returns a string when a value the clauses need is not available: the analysis is then broken (never a
    failing instance)"""

    def __init__(self, interp, struct_specs=()):
        ContractRun.__init__(self, interp, list(struct_specs))
        self.binders = []
        self.broken = []
        self.ret_cases = []     # dict(name=, when=[...], then=[...]): premises assumed at the return
        self.case_hits = {}

    def run(self, fname, spec, fn=None):
        n = ContractRun.run(self, fname, spec, fn)
        f = fn or self.mod.fn(fname)
        for pc in self.ret_cases:
            if not self.case_hits.get(pc['name']):
                # no return satisfies the premise: recorded as a vacuous instance (the floors count it, evidence shows it)
                for t in pc['then']:
                    self.record(f, 'post', '%s: %s' % (pc['name'], t), True, None, vacuous=True)
        return n

    def check_return(self, fn, spec, env, struct_params, T, rv, posts=None):
        saved = env.names
        env.names = dict(saved)
        try:
            for f in self.binders:
                why = f(T, env.bind)
                if why:
                    self.broken.append('%s: %s' % (fn.srcname or fn.name, why))
                    return
            ContractRun.check_return(self, fn, spec, env, struct_params, T, rv, posts)
            for pc in self.ret_cases:
                Ts = [T.fork()]
                for w in pc['when']:
                    nxt = []
                    for s in Ts:
                        nxt.extend(assume_text(s, env, w))
                    Ts = nxt
                # a path that the premise contradicts through a recorded disequality is not a path of this case
                Ts = [s for s in Ts if not any(s.cons.entails(d) and s.cons.entails(-d) for d in s.diseq.values())]
                if not Ts:
                    continue
                self.case_hits[pc['name']] = self.case_hits.get(pc['name'], 0) + len(Ts)
                for s in Ts:
                    ContractRun.check_return(self, fn, spec, env, struct_params, s, rv,
                                             [dict(name=pc['name'], when=[], then=pc['then'])])
        finally:
            env.names = saved


def bind_frontiers(box, pairs):
    """pairs: (name, key in box holding an object id, 'rd'|'wr')"""
    def f(T, bind):
        for (name, k, which) in pairs:
            oid = box.get(k)
            if oid is None:
                return 'object %s was not set up' % k
            v = frontier(T, oid, which)
            if v is None:
                return 'the %s frontier of %s is lost' % (which, k)
            if frontier(T, oid, which + 'gap') != 0:
                return ('%s is not accessed in ascending order: "every byte is %s" cannot be concluded from the '
                        'frontier' % (k, 'read' if which == 'rd' else 'written'))
            bind(name, v)
    return f


def import_obs(rep, rule, it, run, label, mod, keep=None, top=None):
    """obligations -> rule instances of `label`; an obligation inside a callee is keyed ...:in:<callee>"""
    obs = summarize(it, run)
    for o in obs:
        if o.get('call_stack') and o['function'] != top:
            o['root'] = label
            f = mod.fn(o['function'])
            o['leaf'] = (f.srcname if f is not None and f.srcname else o['function'])
        else:
            o['function'] = label
            o.pop('call_stack', None)
    if keep is not None:
        obs = [o for o in obs if keep(o)]
    rep.add_absint(rule, obs)
    a = rep.extra.setdefault('absint', {})
    a['accesses_checked'] = a.get('accesses_checked', 0) + it.checked
    a['loops_closed_by_invariant'] = a.get('loops_closed_by_invariant', 0) + it.loops_seen
    return obs


def ext_digit(interp, st, i, args):
    """half2hex / hex2half / hex2byte: pure; their values are the subject of R-HEXDIGIT in c18.py"""
    return [(st, st.fresh_int(i.ty.get('bits', 8), False, 'digit'))]


DIGIT_EXT = {'half2hex': ext_digit, 'hex2half': ext_digit, 'hex2byte': ext_digit}


def the_fn(mod, srcname, nparams=None, what=None):
    c = [f for f in mod.defined() if f.srcname == srcname and (nparams is None or len(f.params) == nparams)]
    if what is not None:
        c = [f for f in c if what(f)]
    if len(c) != 1:
        raise AnalysisBroken('%s: %d definitions with the expected signature in %s (anchor changed)'
                             % (srcname, len(c), mod.path))
    return c[0]


# ----------------------------------------------------------------------------------------------------------------
# R-HEXLEN
# ----------------------------------------------------------------------------------------------------------------
def hex_c_rule(rep, repo, broken):
    mod = compile_ir(repo + '/igris/util/hexascii.c', repo, inline=keep_all_but_new_helpers())
    rep.units.append('igris/util/hexascii.c (lengths)')

    def run(fname, label, pre, in_ext, out_ext, posts, env_extra=()):
        f = the_fn(mod, fname, 3)
        it = LenInterp(mod, externals=DIGIT_EXT, opaque=set(DIGIT_EXT))
        r = LenRun(it)
        box = {}

        def setup(run_, st, env, names, args, sps):
            for nm in env_extra:
                x = st.fresh_int(64, True, nm)
                st.cons.add_le(0, x.s)
                st.cons.add_le(x.s, MAXLEN)
                env.bind(nm, x.s)
            for k, idx, ext in (('in', 0, in_ext), ('out', 2, out_ext)):
                o = st.objs[args[idx].obj]
                o.size = env.lin(__import__('ast').parse(ext, mode='eval'))
                o.info['desc'] = '%s buffer (%s bytes)' % ('input' if k == 'in' else 'output', ext)
                watch(st, o)
                box[k] = o.id
        r.binders.append(bind_frontiers(box, [('rd_in', 'in', 'rd'), ('wr_out', 'out', 'wr')]))
        r.run(f.name, FnSpec(pre=pre, setup=setup, post=posts), fn=f)
        broken.extend(r.broken)
        import_obs(rep, 'R-HEXLEN', it, r, label, mod, top=f.name)

    # size is the int parameter (position 1)
    run('hexascii_encode', 'hexascii_encode', ['arg1 >= 0', 'arg1 <= %d' % MAXLEN], 'arg1', '2 * arg1',
        [dict(name='every-input-byte-is-read', then=['rd_in == arg1']),
         dict(name='writes-exactly-2n-characters', then=['wr_out == 2 * arg1'])])
    run('hexascii_decode', 'hexascii_decode(even length)', ['arg1 == 2 * h'], 'arg1', 'h',
        [dict(name='every-digit-is-read', then=['rd_in == 2 * h']),
         dict(name='writes-exactly-n/2-bytes', then=['wr_out == h'])], env_extra=('h',))
    run('hexascii_decode', 'hexascii_decode(odd length)', ['arg1 == 2 * h + 1'], 'arg1', 'h',
        [dict(name='the-trailing-odd-digit-is-ignored', then=['rd_in == 2 * h']),
         dict(name='writes-exactly-(n-1)/2-bytes', then=['wr_out == h'])], env_extra=('h',))
    run('hexascii_decode', 'hexascii_decode(length <= 0)', ['arg1 <= 0', 'arg1 >= -%d' % MAXLEN], '0', '0',
        [dict(name='touches-nothing', then=['rd_in == 0', 'wr_out == 0'])])


# ----------------------------------------------------------------------------------------------------------------
# R-B64ENCLEN
# ----------------------------------------------------------------------------------------------------------------
def pure_unknown_ptr(interp, st, i, args):
    """strchr & co: reads only; the result is not needed by the length clauses"""
    return [(st, interp.unknown_ptr(st, 'libc', False))]


def sized_input(st, env, args, pidx, nidx, box, key='in'):
    """the pointer parameter pidx is a buffer of exactly arg<nidx> bytes"""
    n = env.names['arg%d' % nidx]
    o = st.new_obj('param', n, 'arg%d' % pidx, {'desc': 'input buffer of exactly arg%d bytes' % nidx})
    watch(st, o)
    args[pidx] = PtrVal(o.id, Lin(0))
    box[key] = o.id
    return o


def bind_outlen(model, box, name='ret_len', key='out'):
    def f(T, bind):
        this = box.get(key)
        if this is None:
            return 'result string not set up'
        bind(name, model.length(T, this))
    return f


def fresh_env(st, env, name, hi=MAXLEN):
    x = st.fresh_int(64, True, name)
    st.cons.add_le(0, x.s)
    st.cons.add_le(x.s, hi)
    env.bind(name, x.s)
    return x.s


def b64enc_rule(rep, mod, broken):
    f = the_fn(mod, 'base64_encode', 3, lambda f: f.params[0].get('sret') and f.params[1]['ty']['k'] == 'ptr'
               and f.params[2]['ty']['k'] == 'int')
    model = StrModel(mod, radix=4)
    ext = dict(model.ext)
    ext.update({'strchr': pure_unknown_ptr})
    it = LenInterp(mod, externals=ext, opaque=model.opaque, radix=(3, 4))
    r = LenRun(it)
    box = {}
    NEED = [1, 2, 3, 3]

    def push_hook(interp, st, inst, this, a, b):
        # the character at output position 4a + b is appended: which input bytes have been read so far?
        if interp.recording > 0 or box.get('in') is None:
            return
        F = frontier(st, box['in'], 'rd')
        if not b.is_const():
            for j in range(4):
                if st.cons.entails_eq(b, j):
                    b = Lin(j)
                    break
        if F is None or not b.is_const() or frontier(st, box['in'], 'rdgap') != 0:
            r.broken.append('base64_encode: position inside the group (%r) / read frontier (%r, gap %r) not known at %s'
                            % (b, F, frontier(st, box['in'], 'rdgap'), inst.where()))
            return
        size = box['size']
        ok = st.cons.entails_le(F, a * 3 + 3)
        interp.oblige('group:no-byte-of-a-later-group-is-read-before-a-group-is-complete', inst, ok, None if ok else
                      'when output character 4*g+%d is appended the input has been read up to byte %r, beyond the three '
                      'bytes 3*g..3*g+2 of its group (g = %r)%s' % (b.c, F, a, interp.explain(st, [F, a])), 'char%d' % b.c)
        want = a * 3 + NEED[b.c]
        ok = st.cons.entails_le(want, F) or st.cons.entails_le(size, F)
        interp.oblige('group:the-bytes-of-a-character-are-read-before-it-is-appended', inst, ok, None if ok else
                      'output character 4*g+%d depends on input bytes up to 3*g+%d, but the input has only been read up '
                      'to %r (g = %r): the group does not advance by three bytes per four characters%s'
                      % (b.c, NEED[b.c] - 1, F, a, interp.explain(st, [F, a])), 'char%d' % b.c)
    model.push_hook = push_hook

    def store_hook(interp, st, inst, p, v):
        # the same clause for a result that is sized first and filled by stores (operator[], pointer): the character at
        # text position w = 4g + j is written
        if interp.recording > 0 or box.get('out') is None or not isinstance(p, PtrVal) or p.obj is None:
            return
        o = st.objs.get(p.obj)
        if o is None or not o.info.get('desc', '').startswith('characters of the returned std::string'):
            return
        cur = model.data_obj(st, box['out'], create=False)
        if cur is None or cur.id != p.obj:
            return
        w = p.off
        j = w.c % 4
        if (w - j).divisible(4):
            g, b = (w - j).div_exact(4), Lin(j)
        else:
            gq = st.fresh_int(64, False, 'grp')
            gr = st.fresh_int(64, False, 'pos')
            st.cons.add_le(gr.u, 3)
            st.cons.add_eq(gq.u * 4 + gr.u, w)
            g, b = gq.u, gr.u
        push_hook(interp, st, inst, box['out'], g, b)
    it.store_hook = store_hook

    def setup(run_, st, env, names, args, sps):
        sized_input(st, env, args, 1, 2, box)
        box['size'] = env.names['arg2']
        box['out'] = args[0]
        fresh_env(st, env, 'q')
    r.binders.append(bind_frontiers(box, [('rd_in', 'in', 'rd')]))
    r.binders.append(bind_outlen(model, box))
    # ret_len = length of the returned string.  The premises are assumed at the return (one analysis of the function, the
    # three classes of size are separated by the paths through the tail)
    r.ret_cases = [dict(name='size==3q', when=['arg2 == 3 * q'], then=['ret_len == 4 * q', 'rd_in == arg2']),
                   dict(name='size==3q+1', when=['arg2 == 3 * q + 1'], then=['ret_len == 4 * q + 4', 'rd_in == arg2']),
                   dict(name='size==3q+2', when=['arg2 == 3 * q + 2'], then=['ret_len == 4 * q + 4', 'rd_in == arg2'])]
    r.run(f.name, FnSpec(pre=['arg2 <= %d' % MAXLEN], setup=setup), fn=f)
    broken.extend(r.broken)
    import_obs(rep, 'R-B64ENCLEN', it, r, 'igris::base64_encode', mod, top=f.name)


# ----------------------------------------------------------------------------------------------------------------
# R-B64DECLEN
# ----------------------------------------------------------------------------------------------------------------
def b64dec_rule(rep, mod, broken):
    from c18 import ext_isalnum
    f = the_fn(mod, 'base64_decode', 2, lambda f: f.params[0].get('sret'))
    model = StrModel(mod, radix=3)
    ext = dict(model.ext)
    ext.update({'strchr': pure_unknown_ptr, 'isalnum': ext_isalnum})
    it = LenInterp(mod, externals=ext, opaque=model.opaque, radix=(3, 4))
    r = LenRun(it)
    box = {}

    def setup(run_, st, env, names, args, sps):
        n = fresh_env(st, env, 'n')
        P = fresh_env(st, env, 'P')
        st.cons.add_le(P, n)
        Q = fresh_env(st, env, 'Q')
        this, do = model.make(st, 'encoded', n, radix=1, text=Base64Text(P))
        args[1] = this
        box['in'] = do.id
        box['out'] = args[0]

        def split(interp, s):
            # P == 4*Q + k for exactly one k in 0..3 (Q is not constrained otherwise)
            out = []
            for k in range(4):
                s2 = s.fork()
                s2.cons.add_eq(P, Q * 4 + k)
                if not interp.infeasible(s2, P, Q):
                    out.append(s2)
            return out
        it.exit_split = split
    r.binders.append(bind_frontiers(box, [('rd_in', 'in', 'rd')]))
    r.binders.append(bind_outlen(model, box))
    for k in range(4):
        r.ret_cases.append(dict(name='stop-after-4Q+%d-symbols' % k, when=['P == 4 * Q + %d' % k],
                                then=['ret_len == 3 * Q + %d' % max(k - 1, 0), 'rd_in >= P', 'rd_in <= P + 1']))
    r.run(f.name, FnSpec(setup=setup), fn=f)
    broken.extend(r.broken)
    import_obs(rep, 'R-B64DECLEN', it, r, 'igris::base64_decode', mod, top=f.name)


# ----------------------------------------------------------------------------------------------------------------
# R-HEXLEN (std::string overload), R-FWD
# ----------------------------------------------------------------------------------------------------------------
def bind_text(model, box, key='out', prefix='text', nbytes=0, need=('rd', 'wr')):
    """at the return: <prefix>_len, <prefix>_rd, <prefix>_wr of the std::string box[key] (frontiers of its character
    block; 0 when no pointer into it was ever taken) and, for short constant texts, t0.. = its characters"""
    def f(T, bind):
        this = box.get(key)
        if this is None:
            return 'string %s not set up' % key
        bind(prefix + '_len', model.length(T, this))
        o = model.data_obj(T, this, create=False)
        for which in need:
            if o is None:
                # no pointer into the text was taken since it last grew: it was built by appending (every character
                # written by construction) and not read
                bind('%s_%s' % (prefix, which), model.length(T, this) if which == 'wr' else Lin(0))
                continue
            v = frontier(T, o.id, which)
            if v is None:
                return 'the %s frontier of the text is lost' % which
            if frontier(T, o.id, which + 'gap') != 0:
                return 'the text is not accessed in ascending order: coverage cannot be concluded from the frontier'
            bind('%s_%s' % (prefix, which), v)
        for j in range(nbytes):
            v = T.mem.get((o.id, j, 1)) if o is not None else None
            if not isinstance(v, IntVal):
                return 'character %d of the text is not known at the return' % j
            bind('t%d' % j, T.force_u(v))
    return f


def hex_string_rule(rep, repo, broken):
    src = repo + '/igris/string/hexascii_string.cpp'
    if not os.path.exists(src):
        raise AnalysisBroken('igris/string/hexascii_string.cpp not found (anchor vanished)')
    mod = compile_ir(src, repo, inline=keep_all_but_new_helpers())
    rep.units.append('igris/string/hexascii_string.cpp (lengths)')
    enc = the_fn(mod, 'hexascii_encode', 3, lambda f: f.params[0].get('sret') and f.params[1]['ty']['k'] == 'ptr'
                 and f.params[2]['ty']['k'] == 'int')
    model = StrModel(mod, radix=1)
    ext = dict(model.ext)
    ext.update(DIGIT_EXT)
    it = LenInterp(mod, externals=ext, opaque=model.opaque | set(DIGIT_EXT))
    r = LenRun(it)
    box = {}

    def setup(run_, st, env, names, args, sps):
        sized_input(st, env, args, 1, 2, box)
        box['out'] = args[0]
    r.binders.append(bind_frontiers(box, [('rd_in', 'in', 'rd')]))
    r.binders.append(bind_text(model, box))
    r.run(enc.name, FnSpec(pre=['arg2 <= %d' % MAXLEN], setup=setup, post=[
        dict(name='result-has-2n-characters', then=['text_len == 2 * arg2']),
        dict(name='every-input-byte-is-read', then=['rd_in == arg2']),
        dict(name='every-character-of-the-result-is-written', then=['text_wr == 2 * arg2'])]), fn=enc)
    broken.extend(r.broken)
    import_obs(rep, 'R-HEXLEN', it, r, 'igris::hexascii_encode(ptr,size)', mod, top=enc.name)
    fwd_rule(rep, mod, broken, 'hexascii_encode', enc, 'igris::hexascii_encode')


def fwd_rule(rep, mod, broken, srcname, target, label):
    """the convenience overloads of `target`(ptr, size) taking a std::string / igris::buffer hand exactly the
    characters of their argument on: pointer to the first one, length == size()"""
    n_found = 0
    for f in mod.defined():
        if f.srcname != srcname or f is target or len(f.params) != 2 or not f.params[0].get('sret'):
            continue
        pty = f.params[1]['ty']
        if pty['k'] != 'ptr':
            continue
        kind = 'string' if 'basic_string' in pty.get('elem', '') else ('buffer' if 'igris::buffer' in pty.get('elem', '') else None)
        if kind is None:
            continue
        n_found += 1
        model = StrModel(mod, radix=1)
        ext = dict(model.ext)
        box = {}

        def callee(interp, st, i, args, box=box, model=model):
            n = st.force_u(args[2])
            if not (n.is_const() and n.c == 0):
                interp.check_access(st, args[1], n, i, 'forwarded-buffer')
            if st.bottom:
                return []
            p = args[1]
            st.ghost['fwd_calls'] = st.ghost.get('fwd_calls', 0) + 1
            st.ghost['fwd_len'] = n
            st.ghost['fwd_off'] = p.off if isinstance(p, PtrVal) and not p.is_null else Lin(-1)
            st.ghost['fwd_same'] = 1 if isinstance(p, PtrVal) and p.obj == box.get('data') else 0
            model.init(st, args[0], st.fresh_int(64, False, 'outlen').u)
            return [(st, None)]
        ext[target.name] = callee
        it = LenInterp(mod, externals=ext, opaque=model.opaque | {target.name})
        r = LenRun(it)

        def setup(run_, st, env, names, args, sps, kind=kind, box=box, model=model, f=f):
            n = fresh_env(st, env, 'n')
            if kind == 'string':
                this, do = model.make(st, 'arg', n, radix=1)
                args[1] = this
                box['data'] = do.id
            else:
                sname = tyname(f.params[1]['ty']['elem'])
                fl = mod.flat_fields(sname)
                ptrs = [m for m in fl if m['ty']['k'] == 'ptr']
                ints = [m for m in fl if m['ty']['k'] == 'int' and m['ty']['bits'] >= 32]
                if len(ptrs) != 1 or len(ints) != 1:
                    raise AnalysisBroken('igris::buffer is no longer {pointer, size} (%r)' % [m['name'] for m in fl])
                do = st.new_obj('param', n, 'buf.data', {'desc': 'bytes of the igris::buffer argument'})
                bo = st.new_obj('param', Lin(mod.structs[sname]['size']), 'buf', {'desc': 'igris::buffer argument'})
                st.mem[(bo.id, ptrs[0]['off'], 8)] = PtrVal(do.id, Lin(0))
                st.mem[(bo.id, ints[0]['off'], ints[0]['ty']['size'])] = IntVal(ints[0]['ty']['bits'], n, None)
                args[1] = PtrVal(bo.id, Lin(0))
                box['data'] = do.id
        r.run(f.name, FnSpec(setup=setup, post=[
            dict(name='calls-the-(ptr,size)-overload-once', then=['ghost_fwd_calls == 1']),
            dict(name='passes-the-first-character', then=['ghost_fwd_same == 1', 'ghost_fwd_off == 0']),
            dict(name='passes-the-whole-length', then=['ghost_fwd_len == n'])]), fn=f)
        broken.extend(r.broken)
        import_obs(rep, 'R-FWD', it, r, '%s(%s)' % (label, 'std::string' if kind == 'string' else 'igris::buffer'), mod,
                   top=f.name)
    return n_found


# ----------------------------------------------------------------------------------------------------------------
# R-URLWALK, R-URLMAP
# ----------------------------------------------------------------------------------------------------------------
def url_rules(rep, mod, broken, lengths=(1, 3)):
    enc = the_fn(mod, 'base64_encode', 3, lambda f: f.params[0].get('sret') and f.params[1]['ty']['k'] == 'ptr'
                 and f.params[2]['ty']['k'] == 'int')
    dec = the_fn(mod, 'base64_decode', 2, lambda f: f.params[0].get('sret'))
    uenc = the_fn(mod, 'base64url_encode', 3, lambda f: f.params[0].get('sret') and f.params[1]['ty']['k'] == 'ptr'
                  and f.params[2]['ty']['k'] == 'int')
    udec = the_fn(mod, 'base64url_decode', 2, lambda f: f.params[0].get('sret'))
    ENC_MAP = [('plus', 43, 43, 45), ('slash', 47, 47, 95), ('below-plus', 0, 42, None), ('between', 44, 46, None),
               ('above-slash', 48, 255, None)]
    DEC_MAP = [('minus', 45, 45, 43), ('underscore', 95, 95, 47), ('below-minus', 0, 44, None), ('between', 46, 94, None),
               ('above-underscore', 96, 255, None)]

    def one(fn, label, direction, nconst):
        """nconst None: text of symbolic length (walk clauses); else a text of nconst characters (map clauses)"""
        model = StrModel(mod, radix=1)
        ext = dict(model.ext)
        box = {}

        def ext_encode(interp, st, i, args):
            # igris::base64_encode(ptr, size) as decided by R-B64ENCLEN: reads [0, size), returns a text
            n = st.force_u(args[2])
            if not (n.is_const() and n.c == 0):
                interp.check_access(st, args[1], n, i, 'base64_encode-src')
            if st.bottom:
                return []
            st.ghost['codec_calls'] = st.ghost.get('codec_calls', 0) + 1
            model.init(st, args[0], box['L'])
            if nconst is not None:
                o = model.data_obj(st, args[0])
                for j, v in enumerate(box['bytes']):
                    st.mem[(o.id, j, 1)] = v
            return [(st, None)]

        def ext_decode(interp, st, i, args):
            # igris::base64_decode(text): the text it is handed is the subject of the clauses
            st.ghost['codec_calls'] = st.ghost.get('codec_calls', 0) + 1
            why = bind_text(model, {'out': args[1]}, nbytes=nconst or 0, need=('rd',))(st, lambda k, v: st.ghost.__setitem__(k, v))
            if why:
                broken.append('%s: %s' % (label, why))
            model.init(st, args[0], st.fresh_int(64, False, 'decoded').u)
            return [(st, None)]
        ext[enc.name] = ext_encode
        ext[dec.name] = ext_decode
        it = LenInterp(mod, externals=ext, opaque=model.opaque | {enc.name, dec.name})
        it.max_peel_states = 81
        r = LenRun(it)

        def setup(run_, st, env, names, args, sps):
            if nconst is None:
                L = fresh_env(st, env, 'L')
            else:
                L = Lin(nconst)
                env.bind('L', L)
                box['bytes'] = []
                for j in range(nconst):
                    c = st.fresh_int(8, False, 'c%d' % j)
                    box['bytes'].append(c)
                    env.bind('c%d' % j, c.u)
            box['L'] = L
            if direction == 'enc':
                sized_input(st, env, args, 1, 2, box)
                box['out'] = args[0]
            else:
                this, do = model.make(st, 's', L, radix=1, cells=box.get('bytes'))
                args[1] = this
        if direction == 'enc':
            def b(T, bind):
                return bind_text(model, box, nbytes=nconst or 0, need=('rd',))(T, lambda k, v: bind('ghost_' + k, v))
            r.binders.append(b)
        posts = [dict(name='codec-called-once', then=['ghost_codec_calls == 1'])]
        if nconst is None:
            posts += [dict(name='the-text-keeps-its-length', then=['ghost_text_len == L']),
                      dict(name='every-position-of-the-text-is-read', then=['ghost_text_rd == L'])]
            if direction == 'enc':
                posts.append(dict(name='the-result-is-the-substituted-text', then=['ghost_text_len == L']))
        else:
            for j in range(nconst):
                for (cname, lo, hi, img) in (ENC_MAP if direction == 'enc' else DEC_MAP):
                    r.ret_cases.append(dict(
                        name='text[%d]:%s' % (j, cname), when=['c%d >= %d' % (j, lo), 'c%d <= %d' % (j, hi)],
                        then=['ghost_t%d == %s' % (j, img if img is not None else 'c%d' % j)]))
        r.run(fn.name, FnSpec(pre=(['arg2 <= %d' % MAXLEN] if direction == 'enc' else []), setup=setup, post=posts), fn=fn)
        broken.extend(r.broken)
        rule = 'R-URLWALK' if nconst is None else 'R-URLMAP'
        import_obs(rep, rule, it, r, label if nconst is None else '%s[%d characters]' % (label, nconst), mod, top=fn.name,
                   keep=None if nconst is None else (lambda o: o['kind'] == 'post'))

    for (fn, label, direction) in ((uenc, 'igris::base64url_encode', 'enc'), (udec, 'igris::base64url_decode', 'dec')):
        one(fn, label, direction, None)
        for n_ in lengths:
            one(fn, label, direction, n_)
    n = fwd_rule(rep, mod, broken, 'base64_encode', enc, 'igris::base64_encode')
    n += fwd_rule(rep, mod, broken, 'base64url_encode', uenc, 'igris::base64url_encode')
    return n


def run_ext(rep, repo, tier):
    import absint
    saved = absint.MAX_STATES
    # the case analyses (character classes x residues of the stop position) meet at the return block: more disjuncts than
    # the engine's default are allowed there, for the duration of this extension only
    absint.MAX_STATES = 600
    try:
        run_parts(rep, repo, tier)
    finally:
        absint.MAX_STATES = saved


def run_parts(rep, repo, tier):
    broken = []

    def part(name):
        return ONLY is None or name in ONLY
    rep.explanation += (
        ' Lengths and loop structure (c18_len.py, abstract interpretation with std::string summarised by a length cell): '
        'hexascii_encode / hexascii_decode and igris::hexascii_encode(ptr, size) touch exactly n input and 2n output bytes '
        '(n and n/2 for the decoder, an odd trailing digit is ignored, nothing is touched for n <= 0), every byte of both '
        'is read / written; base64_encode reads inside an exactly sized buffer, advances by three bytes per four characters '
        'and returns 4*ceil(n/3) characters (cases n mod 3); base64_decode reads below size(), stops at the first padding or '
        'non-alphabet character (text model: alphabet classes before a symbolic stop position, every other class at it) and '
        'returns 3 bytes per quartet plus k-1 for a tail of k symbols, scratch arrays in bounds; the url-safe variants walk '
        'exactly the text and apply the character map position by position (texts of 1 and 3 characters, every class); '
        'the std::string / igris::buffer overloads forward (data(), size()). Not decided: the decoded / encoded contents as '
        'a whole (bit slices per group are decided by R-B64GROUP), inputs longer than 2^30.')
    rep.assumptions += ['lengths <= 2^30 (the int / size_t arithmetic of the codecs does not wrap); hexascii_encode is called '
                        'with size >= 0',
                        'std::string members are trusted and summarised (length cell, exactly sized character block); '
                        'isalnum is the C-locale predicate; the digit maps half2hex / hex2byte are pure (R-HEXDIGIT)',
                        'base64url_encode / base64url_decode are analysed against the summaries of base64_encode / '
                        'base64_decode that R-B64ENCLEN / R-B64DECLEN justify']
    if part('hexc'):
        hex_c_rule(rep, repo, broken)
    modb = None
    if ONLY is None or ONLY & {'enc', 'dec', 'url'}:
        modb = compile_ir(repo + '/igris/util/base64.cpp', repo, inline=keep_all_but_new_helpers(('is_base64',)))
        rep.units.append('igris/util/base64.cpp (lengths)')
    if part('enc'):
        b64enc_rule(rep, modb, broken)
    if part('dec'):
        b64dec_rule(rep, modb, broken)
    if part('url'):
        url_rules(rep, modb, broken, (1, 3) if tier != 'thorough' else (1, 2, 3, 4))
    if part('hexs'):
        hex_string_rule(rep, repo, broken)
    if ONLY is None:
        rep.floor('R-HEXLEN:bounds', 4)
        rep.floor('R-HEXLEN:post', 11)
        rep.floor('R-B64ENCLEN:bounds', 1)
        rep.floor('R-B64ENCLEN:group', 8)
        rep.floor('R-B64ENCLEN:post', 6)
        rep.floor('R-B64DECLEN:bounds', 3)
        rep.floor('R-B64DECLEN:post', 12)
        rep.floor('R-URLWALK:bounds', 3)
        rep.floor('R-URLWALK:post', 7)
        rep.floor('R-URLMAP:post', 40)
        rep.floor('R-FWD:post', 12)
    mine = ('R-HEXLEN', 'R-B64ENCLEN', 'R-B64DECLEN', 'R-URLWALK', 'R-URLMAP', 'R-FWD')
    failing = [i for i in rep.instances if not i['ok'] and i['rule'].split(':')[0] in mine]
    if broken and not failing:
        # a clause could not be stated on this form of the code (and no clause failed): never a pass
        raise AnalysisBroken('; '.join(sorted(set(broken))[:4]))
