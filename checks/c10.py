"""C10 allocators: fixed-block pools (datastruct/pool.h, container/pool.h,
container/static_object_pool.h) and the bare-metal heap (compat/mem/lin_malloc.cpp,
lin_realloc.cpp).  Everything is decided on LLVM IR by abstract interpretation on
symbolic configurations plus IR dataflow rules and compile-time witnesses."""
import contextlib
import os
import subprocess
from common import *
from shape import ShapeRunner, gen_rings, is_gap, seq_remove, seq_insert_after, NEXT
from absval import State, PtrVal, IntVal, CondVal, NULL, TOP, mk_const
from lin import Lin
from irlib import V
import absint
import c10_heap as H
from c10_heap import SymInterp, cell

ELEMS = (8, 16, 24, 40, 64)


# --------------------------------------------------------------------------
# small helpers
# --------------------------------------------------------------------------
@contextlib.contextmanager
def specialised(fn, argno, value):
    """interpret fn under the precondition arg<argno> == value: GEP indices that are this argument become
    the constant, so that the engine's pointer-cursor template (offset = base + stride*k) applies to
    'it += elemsz'.  The rewrite is undone afterwards."""
    saved = []
    for i in fn.all_insts():
        if i.op == 'getelementptr':
            for s in i.d['gep']['steps']:
                if s['k'] == 'index' and s['v'].get('k') == 'arg' and s['v'].get('i') == argno:
                    saved.append((s, s['v']))
                    s['v'] = {'k': 'ci', 'w': 64, 'v': value, 'u': str(value)}
    # the index form `offset += elemsz; &base[offset]`: additions of the argument become additions of the constant
    saved_ops = []
    for i in fn.all_insts():
        if i.op == 'add':
            for k, o in enumerate(i.ops):
                if o.k == 'arg' and o.argno == argno:
                    saved_ops.append((i, k, o))
                    i.ops[k] = V({'k': 'ci', 'w': i.bits, 'v': value, 'u': str(value)})
    try:
        yield len(saved) + len(saved_ops)
    finally:
        for s, v in saved:
            s['v'] = v
        for i, k, o in saved_ops:
            i.ops[k] = o


def F(mod, srcname):
    return mod.fn(fn_named(mod, srcname))


def M(mod, cls, name, **kw):
    return mod.fn(cxx(mod, cls, name, **kw))


def arg_ptrs(*names):
    def b(st, objs):
        return [PtrVal(objs[n].id, Lin(0)) for n in names]
    return b


def import_shape(rep, rule, runner):
    for r in runner.results:
        rep.inst(rule, r['function'], 'config:' + r['config'], r['ok'], r['where'], r['detail'])
    if runner.footprint:
        f, cfg, where = runner.footprint[0]
        raise AnalysisBroken('%s touches a node outside the footprint in configuration %s at %s' % (f, cfg, where))


def bad_obligs(it):
    return [ob for ob in it.obligs.values() if not ob.ok]


def where_of(f):
    return '%s:%d' % (f.file, f.line)


def explicit_rings(max_cells=3):
    names = ['a', 'b', 'c', 'd']
    return [['h'] + names[:k] for k in range(max_cells + 1)]


# --------------------------------------------------------------------------
# C pool primitives
# --------------------------------------------------------------------------
def pool_shape(rep, mod):
    """pool_init / pool_alloc / pool_free on every footprint configuration of the free ring"""
    R = ShapeRunner(mod, cell_size=8, fields=(NEXT,))
    R.run('pool_init', F(mod, 'pool_init'), arg_ptrs('h'), [], lambda r: dict(rings=[], self=['h']), loose=['h'])
    for ring in gen_rings('h', ['h'], ['a', 'b', 'c']):
        if len(ring) == 1:
            R.run('pool_alloc', F(mod, 'pool_alloc'), arg_ptrs('h'), [ring], lambda r: dict(rings=r),
                  ret_check=lambda T, rv, objs, it: None if (isinstance(rv, PtrVal) and rv.is_null)
                  else 'an exhausted pool must answer NULL, got %r' % (rv,))
            continue
        first = ring[1]
        if is_gap(first) or is_gap(ring[2 % len(ring)]):
            continue
        R.run('pool_alloc', F(mod, 'pool_alloc'), arg_ptrs('h'), [ring],
              lambda r, f=first: dict(rings=seq_remove(r, f)),
              ret_check=lambda T, rv, objs, it, f=first: None
              if (isinstance(rv, PtrVal) and rv.obj == objs[f].id and rv.off == Lin(0))
              else 'a non-empty pool must hand out the first free cell, got %r' % (rv,))
    for ring in gen_rings('h', ['h'], ['a', 'b', 'c']):
        R.run('pool_free', F(mod, 'pool_free'), arg_ptrs('h', 'x'), [ring],
              lambda r: dict(rings=seq_insert_after(r, 'x', 'h')), loose=['x'])
    import_shape(rep, 'R-POOL-SHAPE', R)
    # observers on explicit rings: avail == number of free cells, in_freelist == membership
    R2 = ShapeRunner(mod, cell_size=8, fields=(NEXT,))
    for ring in explicit_rings():
        k = len(ring) - 1
        R2.run('pool_avail', F(mod, 'pool_avail'), arg_ptrs('h'), [ring], lambda r: dict(rings=r),
               ret_check=lambda T, rv, objs, it, k=k: None if (isinstance(rv, IntVal) and rv.const() == k)
               else 'pool_avail must return the number of free cells (%d), got %r' % (k, rv))
        for c in ring[1:]:
            R2.run('pool_in_freelist', F(mod, 'pool_in_freelist'), arg_ptrs('h', c), [ring], lambda r: dict(rings=r),
                   label='%s member %s' % (R2.describe([ring], ()), c),
                   ret_check=lambda T, rv, objs, it: None if (isinstance(rv, IntVal) and rv.const() not in (None, 0))
                   else 'a cell on the free list must be reported as free, got %r' % (rv,))
        R2.run('pool_in_freelist', F(mod, 'pool_in_freelist'), arg_ptrs('h', 'x'), [ring], lambda r: dict(rings=r),
               loose=['x'], label='%s non-member x' % R2.describe([ring], ()),
               ret_check=lambda T, rv, objs, it: None if (isinstance(rv, IntVal) and rv.const() == 0)
               else 'a cell that is not on the free list must be reported as allocated, got %r' % (rv,))
    import_shape(rep, 'R-POOL-SHAPE', R2)
    return R.configs + R2.configs


def read_chain(T, head_ptr, zone_id, head_id, limit=12):
    """follow next links from *head_ptr: [PtrVal...] until the head itself comes back"""
    out = []
    p = T.mem.get((head_id, 0, 8))
    for _ in range(limit):
        if not isinstance(p, PtrVal) or p.is_null:
            return out, 'link %r is not a cell address' % (p,)
        if p.obj == head_id:
            return out, None if p.off == Lin(0) else 'link into the middle of the head'
        out.append(p)
        if p.obj == zone_id:
            nx = cell(T, p.off, 8, zone_id)
            if nx is None and p.off.is_const():
                nx = T.mem.get((zone_id, p.off.c, 8))
        else:
            nx = T.mem.get((p.obj, p.off.c if p.off.is_const() else None, 8))
        p = nx
    return out, 'free list does not close'


def engage_exact(rep, rule, fname, fn, n, preexisting, mod, args_of, head_field_off=0, label=''):
    """pool_engage (or a wrapper) with n cells of symbolic size e >= 8: the free list afterwards is
    exactly  head -> cell[n-1] -> ... -> cell[0] -> (previous list) -> head,  cell[i] = zone + i*e"""
    st = State()
    e = st.fresh_int(64, False, 'elemsz')
    st.cons.add_le(8, e.u)
    st.cons.add_le(e.u, 1 << 20)
    zone = st.new_obj('param', e.u * n, 'zone', {'desc': 'pool zone'})
    objs, head = args_of(st, zone, e, n)
    old = []
    if preexisting:
        a = st.new_obj('param', Lin(8), 'old_cell', {'desc': 'cell already on the free list'})
        st.mem[(head.id, head_field_off, 8)] = PtrVal(a.id, Lin(0))
        st.mem[(a.id, 0, 8)] = PtrVal(head.id, Lin(head_field_off))
        old = [a]
    it = SymInterp(mod, [zone.id])
    cfg = 'cells=%d%s%s' % (n, ',list-not-empty' if preexisting else '', label)
    try:
        rets = it.run_function(fn, st, objs)
    except AnalysisBroken as e:
        if 'not decided by the configuration' not in str(e):
            raise
        rep.inst(rule, fname, 'exact-carve:' + cfg, False, where_of(fn),
                 'the carving loop does not stop after %d steps of elemsz bytes over a zone of %d*elemsz bytes: %s'
                 % (n, n, e))
        return
    ok, detail = bool(rets), None if rets else 'no feasible return'
    for (T, rv) in rets:
        chain, err = read_chain(T, None, zone.id, head.id)
        if err:
            ok, detail = False, err
            break
        want = [('z', e.u * i) for i in reversed(range(n))] + [('o', o.id) for o in old]
        if len(chain) != len(want):
            ok, detail = False, 'free list has %d cells after engaging %d cells of the zone%s' % (
                len(chain), n, ' (one cell was on the list before)' if old else '')
            break
        for p, w in zip(chain, want):
            good = (p.obj == zone.id and T.cons.entails_eq(p.off, w[1])) if w[0] == 'z' else \
                (p.obj == w[1] and p.off == Lin(0))
            if not good:
                ok, detail = False, 'free list cell %r where %s expected (cells must be zone + i*elemsz)' % (
                    p, ('zone+%r' % w[1]) if w[0] == 'z' else 'the old cell')
                break
        if not ok:
            break
    bad = bad_obligs(it)
    if ok and bad:
        ok, detail = False, bad[0].detail
    rep.inst(rule, fname, 'exact-carve:' + cfg, ok, where_of(fn), detail)


def engage_bounds(rep, rule, mod):
    """pool_engage for every zone of n cells (n symbolic) of size e in ELEMS: every store lies inside the zone"""
    fn = F(mod, 'pool_engage')
    for e in ELEMS:
        it = Interp(mod)
        st = State()
        h = st.new_obj('param', Lin(8), 'head', {'desc': 'pool head'})
        st.mem[(h.id, 0, 8)] = PtrVal(h.id, Lin(0))
        n = st.fresh_int(64, False, 'n')
        st.cons.add_le(n.u, 1 << 40)
        z = st.new_obj('param', n.u * e, 'zone', {'desc': 'pool zone'})
        with specialised(fn, 3, e) as k:
            if k < 1:
                if any(not i['ok'] for i in rep.instances if i['rule'] == rule and i['function'] == 'pool_engage'):
                    return      # the exact-carve clauses already report that the cursor does not advance by elemsz
                raise AnalysisBroken('pool_engage: no cursor advance by the element-size parameter found')
            rets = it.run_function(fn, st, [PtrVal(h.id), PtrVal(z.id), IntVal(64, n.u * e, None), mk_const(64, e)])
        obs = [ob for ob in it.obligs.values() if ob.kind.startswith('bounds') and ob.objdesc == 'pool zone']
        if not obs:
            raise AnalysisBroken('pool_engage: no access to the zone seen')
        bad = [ob for ob in it.obligs.values() if not ob.ok]
        rep.inst(rule, 'pool_engage', 'stores-inside-zone:elemsz=%d,cells=any' % e, bool(rets) and not bad,
                 where_of(fn), bad[0].detail if bad else (None if rets else 'no feasible return'))


def pool_engage_rules(rep, mod):
    fn = F(mod, 'pool_engage')

    def args_of(st, zone, e, n):
        h = st.new_obj('param', Lin(8), 'head', {'desc': 'pool head'})
        st.mem[(h.id, 0, 8)] = PtrVal(h.id, Lin(0))
        return [PtrVal(h.id), PtrVal(zone.id), IntVal(64, e.u * n, None), e], h
    for n in range(0, 4):
        for pre in (False, True):
            engage_exact(rep, 'R-POOL-ENGAGE', 'pool_engage', fn, n, pre, mod, args_of)
    engage_bounds(rep, 'R-POOL-ENGAGE', mod)


# --------------------------------------------------------------------------
# igris::pool
# --------------------------------------------------------------------------
class DivGuardInterp(Interp):
    """Interp that reports a division whose divisor is not provably non-zero; ptrtoint(p) + n keeps the
    provenance of p (so that  (uintptr_t)ptr < (uintptr_t)zone + size  is decided on offsets)"""

    def __init__(self, mod, **kw):
        super().__init__(mod, **kw)
        self.divzero = []

    def binop(self, st, op, a, b, inst):
        if op in ('udiv', 'urem', 'sdiv', 'srem') and isinstance(b, IntVal) and self.recording == 0:
            bu = st.as_u(b)
            nz = bu is not None and st.cons.entails_le(1, bu)
            if not nz and b.s is not None:
                nz = st.cons.entails_le(1, b.s) or st.cons.entails_le(b.s, -1)
            if not nz:
                self.divzero.append((inst, 'divisor %r of %s is not provably non-zero' % (b, op)))
        r = super().binop(st, op, a, b, inst)
        if op == 'add' and isinstance(a, IntVal) and isinstance(b, IntVal) and isinstance(r, IntVal):
            for x, y in ((a, b), (b, a)):
                if x.pint is not None and x.pint.obj is not None and y.pint is None and st.as_u(y) is not None \
                        and st.cons.entails_le(st.as_u(y), 1 << 48):
                    r = IntVal(r.w, r.u, r.s, x.pint.moved(x.pint.off + st.as_u(y)))
                    break
        return r


class PoolFields:
    def __init__(self, mod):
        fl = {f['name']: f for f in mod.flat_fields('class.igris::pool')}
        need = ('head.free_blocks.next', '_zone', '_size', '_elemsz', '_count')
        for n in need:
            if n not in fl:
                raise AnalysisBroken('igris::pool: field %s not found (anchor vanished)' % n)
        self.head, self.zone, self.size, self.elemsz, self.count = [fl[n]['off'] for n in need]
        self.sizeof = mod.structs['class.igris::pool']['size']
        if self.head != 0:
            raise AnalysisBroken('igris::pool: free-list head is not the first member')


def poolxx_rules(rep, mod):
    P = 'igris::pool'
    pf = PoolFields(mod)
    get, put = M(mod, P, 'get'), M(mod, P, 'put')
    rule = 'R-POOLXX'

    def fill(st, objs, count=None, elemsz=16, cells=4):
        """bookkeeping fields of the pool object objs['h']"""
        h = objs['h']
        c = st.fresh_int(32, True, 'count')
        st.cons.add_le(0, c.s)
        st.cons.add_le(c.s, 1 << 20)
        st.mem[(h.id, pf.count, 4)] = c
        z = st.new_obj('param', Lin(elemsz * cells), 'zone', {'desc': 'pool zone'})
        st.mem[(h.id, pf.zone, 8)] = PtrVal(z.id, Lin(0))
        st.mem[(h.id, pf.size, 8)] = mk_const(64, elemsz * cells)
        st.mem[(h.id, pf.elemsz, 8)] = mk_const(64, elemsz)
        return c.s, z

    # get(): pops the first cell and counts it - or answers NULL and leaves the books alone
    R = ShapeRunner(mod, cell_size=8, fields=(NEXT,))
    for ring in gen_rings('h', ['h'], ['a', 'b', 'c']):
        box = {}

        def args(st, objs, box=box):
            box['c'], _ = fill(st, objs)
            return [PtrVal(objs['h'].id, Lin(0))]
        if len(ring) == 1:
            def chk(T, rv, objs, it, box=box):
                if not (isinstance(rv, PtrVal) and rv.is_null):
                    return 'an exhausted pool must answer NULL, got %r' % (rv,)
                v = T.mem.get((objs['h'].id, pf.count, 4))
                if not (isinstance(v, IntVal) and T.as_s(v) is not None and T.cons.entails_eq(T.as_s(v), box['c'])):
                    return ('get() on an exhausted pool changes the free count from %r to %r '
                            '(room() then reports a huge value)' % (box['c'], v))
                return None
            R.run(P + '::get', get, args, [ring], lambda r: dict(rings=r), cell_sizes={'h': pf.sizeof}, ret_check=chk,
                  label='exhausted')
            continue
        first = ring[1]
        if is_gap(first) or is_gap(ring[2 % len(ring)]):
            continue

        def chk2(T, rv, objs, it, box=box, f=first):
            if not (isinstance(rv, PtrVal) and rv.obj == objs[f].id and rv.off == Lin(0)):
                return 'get() must return the first free cell, got %r' % (rv,)
            v = T.mem.get((objs['h'].id, pf.count, 4))
            if not (isinstance(v, IntVal) and T.as_s(v) is not None and T.cons.entails_eq(T.as_s(v), box['c'] - 1)):
                return 'free count after a successful get() is %r, %r - 1 expected' % (v, box['c'])
            return None
        R.run(P + '::get', get, args, [ring], lambda r, f=first: dict(rings=seq_remove(r, f)),
              cell_sizes={'h': pf.sizeof}, ret_check=chk2)
    # put(): pushes the cell and counts it; put(NULL) is a no-op
    for ring in gen_rings('h', ['h'], ['a', 'b', 'c']):
        box = {}

        def args(st, objs, box=box):
            box['c'], _ = fill(st, objs)
            return [PtrVal(objs['h'].id, Lin(0)), PtrVal(objs['x'].id, Lin(0))]

        def chk(T, rv, objs, it, box=box):
            v = T.mem.get((objs['h'].id, pf.count, 4))
            if not (isinstance(v, IntVal) and T.as_s(v) is not None and T.cons.entails_eq(T.as_s(v), box['c'] + 1)):
                return 'free count after put() is %r, %r + 1 expected' % (v, box['c'])
            return None
        R.run(P + '::put', put, args, [ring], lambda r: dict(rings=seq_insert_after(r, 'x', 'h')), loose=['x'],
              cell_sizes={'h': pf.sizeof}, ret_check=chk)

        def args0(st, objs, box=box):
            box['c'], _ = fill(st, objs)
            return [PtrVal(objs['h'].id, Lin(0)), NULL]

        def chk0(T, rv, objs, it, box=box):
            v = T.mem.get((objs['h'].id, pf.count, 4))
            if not (isinstance(v, IntVal) and T.as_s(v) is not None and T.cons.entails_eq(T.as_s(v), box['c'])):
                return 'put(NULL) changes the free count'
            return None
        R.run(P + '::put', put, args0, [ring], lambda r: dict(rings=r), cell_sizes={'h': pf.sizeof}, ret_check=chk0,
              label=R.describe([ring], ()) + ' put(NULL)')
    import_shape(rep, rule, R)

    # put() refuses addresses outside the zone (assertion): no return is feasible
    for what, off in (('one-past-the-end', 64), ('below-the-zone', -8)):
        st = State()
        h = st.new_obj('param', Lin(pf.sizeof), 'pool', {'desc': 'igris::pool object'})
        st.mem[(h.id, 0, 8)] = PtrVal(h.id, Lin(0))
        _, z = fill(st, {'h': h})
        it = DivGuardInterp(mod)
        rets = it.run_function(put, st, [PtrVal(h.id), PtrVal(z.id, Lin(off))])
        rep.inst(rule, P + '::put', 'rejects-address-outside-zone:' + what, not rets, where_of(put),
                 None if not rets else 'put() accepts an address %s' % what)

    # init(): books agree with the carve, for every cell count
    init = M(mod, P, 'init')
    eng = F(mod, 'pool_engage')
    for e in ELEMS:
        st = State()
        h = st.new_obj('param', Lin(pf.sizeof), 'pool', {'desc': 'igris::pool object'})
        n = st.fresh_int(64, False, 'n')
        st.cons.add_le(n.u, 1 << 20)
        z = st.new_obj('param', n.u * e, 'zone', {'desc': 'pool zone'})
        it = DivGuardInterp(mod)
        with specialised(eng, 3, e):
            rets = it.run_function(init, st, [PtrVal(h.id), PtrVal(z.id), IntVal(64, n.u * e, None), mk_const(64, e)])
        ok, detail = bool(rets), None if rets else 'no feasible return'
        for (T, rv) in rets:
            c = T.mem.get((h.id, pf.count, 4))
            zz = T.mem.get((h.id, pf.zone, 8))
            sz = T.mem.get((h.id, pf.size, 8))
            es = T.mem.get((h.id, pf.elemsz, 8))
            if not (isinstance(c, IntVal) and (T.as_s(c) is not None or T.as_u(c) is not None) and
                    T.cons.entails_eq(T.as_s(c) if T.as_s(c) is not None else T.as_u(c), n.u)):
                ok, detail = False, 'free count after init() is %r, the number of cells %r expected' % (c, n.u)
            elif not (isinstance(zz, PtrVal) and zz.obj == z.id and zz.off == Lin(0)):
                ok, detail = False, '_zone is %r after init()' % (zz,)
            elif not (isinstance(sz, IntVal) and T.as_u(sz) is not None and T.cons.entails_eq(T.as_u(sz), n.u * e)):
                ok, detail = False, '_size is %r after init()' % (sz,)
            elif not (isinstance(es, IntVal) and es.const() == e):
                ok, detail = False, '_elemsz is %r after init()' % (es,)
        bad = bad_obligs(it)
        if ok and bad:
            ok, detail = False, bad[0].detail
        rep.inst(rule, P + '::init', 'books-agree-with-carve:elemsz=%d,cells=any' % e, ok, where_of(init), detail)

    def init_args(st, zone, e, n):
        h = st.new_obj('param', Lin(pf.sizeof), 'pool', {'desc': 'igris::pool object'})
        return [PtrVal(h.id), PtrVal(zone.id), IntVal(64, e.u * n, None), e], h
    for n in range(0, 4):
        engage_exact(rep, rule, P + '::init', init, n, False, mod, init_args)

    # observers: room() == _count, size() == cells, element_size(), avail(), cell(i), cell_is_allocated(i)
    E, N = 16, 3
    for free in ((), (1,), (0, 2), (0, 1, 2)):
        def build():
            st = State()
            h = st.new_obj('param', Lin(pf.sizeof), 'pool', {'desc': 'igris::pool object'})
            c, z = fill(st, {'h': h}, elemsz=E, cells=N)
            prev = (h.id, 0)
            for i in free:
                st.mem[(prev[0], prev[1], 8)] = PtrVal(z.id, Lin(i * E))
                prev = (z.id, i * E)
            st.mem[(prev[0], prev[1], 8)] = PtrVal(h.id, Lin(0))
            return st, h, z, c
        cfg = 'cells=%d,free={%s}' % (N, ','.join(str(i) for i in free))
        st, h, z, c = build()
        it = DivGuardInterp(mod)
        f = M(mod, P, 'avail')
        rets = it.run_function(f, st, [PtrVal(h.id)])
        ok = bool(rets) and all(isinstance(rv, IntVal) and rv.const() == len(free) for (T, rv) in rets)
        rep.inst(rule, P + '::avail', 'equals-free-cells:' + cfg, ok, where_of(f),
                 None if ok else 'avail() does not return the number of free cells (%d)' % len(free))
        f = M(mod, P, 'cell_is_allocated')
        for i in (-1, 0, 1, 2, 3):
            st, h, z, c = build()
            it = DivGuardInterp(mod)
            rets = it.run_function(f, st, [PtrVal(h.id), mk_const(32, i)])
            want = (0 <= i < N) and (i not in free)
            ok = bool(rets)
            got = None
            for (T, rv) in rets:
                d = it.decide(T, rv) if isinstance(rv, CondVal) else None
                got = d
                if d is not want:
                    ok = False
            rep.inst(rule, P + '::cell_is_allocated', 'index=%d:%s' % (i, cfg), ok and not it.divzero, where_of(f),
                     None if ok else 'cell_is_allocated(%d) yields %r, expected %r' % (i, got, want))
    for (name, expect) in (('room', 'count'), ('size', 'cells'), ('element_size', 'elemsz')):
        f = M(mod, P, name)
        st = State()
        h = st.new_obj('param', Lin(pf.sizeof), 'pool', {'desc': 'igris::pool object'})
        st.mem[(h.id, 0, 8)] = PtrVal(h.id, Lin(0))
        c, z = fill(st, {'h': h}, elemsz=24, cells=5)
        it = DivGuardInterp(mod)
        rets = it.run_function(f, st, [PtrVal(h.id)])
        ok = bool(rets)
        for (T, rv) in rets:
            if expect == 'count':
                l = T.as_s(rv) if isinstance(rv, IntVal) and T.as_s(rv) is not None else (T.as_u(rv) if isinstance(rv, IntVal) else None)
                ok = ok and l is not None and T.cons.entails_eq(l, c)
            else:
                ok = ok and isinstance(rv, IntVal) and rv.const() == (5 if expect == 'cells' else 24)
        rep.inst(rule, P + '::' + name, 'returns-' + expect, ok and not it.divzero, where_of(f),
                 None if ok else '%s() does not return the pool\'s %s' % (name, expect))
    f = M(mod, P, 'cell')
    st = State()
    h = st.new_obj('param', Lin(pf.sizeof), 'pool', {'desc': 'igris::pool object'})
    c, z = fill(st, {'h': h}, elemsz=24, cells=5)
    i = st.fresh_int(32, True, 'i')
    st.cons.add_le(0, i.s)
    st.cons.add_le(i.s, 4)
    it = Interp(mod)
    rets = it.run_function(f, st, [PtrVal(h.id), i])
    ok = bool(rets) and all(isinstance(rv, PtrVal) and rv.obj == z.id and T.cons.entails_eq(rv.off, i.s * 24)
                            for (T, rv) in rets)
    rep.inst(rule, P + '::cell', 'address=zone+i*elemsz', ok, where_of(f),
             None if ok else 'cell(i) is not zone + i*elemsz')

    # a default-constructed pool is a valid empty pool: every observer answers without dividing by zero
    ctor = M(mod, P, 'pool', param_count=1)
    for name in ('size', 'room', 'avail', 'get', 'cell_is_allocated', 'begin'):
        f = M(mod, P, name)
        st = State()
        h = st.new_obj('param', Lin(pf.sizeof), 'pool', {'desc': 'igris::pool object'})
        it = DivGuardInterp(mod)
        rets = it.run_function(ctor, st, [PtrVal(h.id)])
        if len(rets) != 1:
            raise AnalysisBroken('igris::pool default constructor: %d return states' % len(rets))
        T0 = rets[0][0]
        args = [PtrVal(h.id)]
        for p in f.params[1:]:
            args.append(mk_const(p['ty'].get('bits', 32), 0))
        if f.params and f.params[0].get('sret'):
            r = T0.new_obj('param', Lin(16), 'result')
            args = [PtrVal(r.id)] + args
        rets2 = it.run_function(f, T0, args)
        ok = not it.divzero
        rep.inst(rule, P + '::' + name, 'no-division-by-zero:default-constructed-pool', ok,
                 it.divzero[0][0].where() if it.divzero else where_of(f),
                 None if ok else 'on a default-constructed pool (_elemsz == 0) %s() reaches a division by '
                 'the element size: %s' % (name, it.divzero[0][1]))


# --------------------------------------------------------------------------
# static_object_pool<T, 3>
# --------------------------------------------------------------------------
def sop_ctor_rule(rep, mod, elem, rule='R-SOP'):
    """constructor: exactly the Capacity slots of 'storage' (stride sizeof(storage_type), padding included) are on the
    free list, every store of the carving loop inside the object"""
    S = 'igris::static_object_pool<%s, 3' % elem
    ctor = M(mod, S, 'static_object_pool')
    this_ty = tyname_of(ctor.params[0])
    stl = mod.structs.get(this_ty)
    fl = {f['name']: f for f in mod.flat_fields(this_ty)}
    if stl is None or 'storage._M_elems' not in fl or 'head.free_blocks.next' not in fl:
        raise AnalysisBroken('%s: layout not found' % S)
    soff = fl['storage._M_elems']['off']
    total = stl['size']
    cap = 3
    slot = (total - soff) // cap
    tag = S.split('::')[-1] + '>'
    st = State()
    this = st.new_obj('param', Lin(total), 'sop', {'desc': 'static_object_pool object'})
    it = Interp(mod)
    rets = it.run_function(ctor, st, [PtrVal(this.id)])
    ok, detail = bool(rets), None if rets else 'no feasible return (an assertion of pool_engage fails for this element type)'
    for (T, rv) in rets:
        p = T.mem.get((this.id, 0, 8))
        chain = []
        for _ in range(8):
            if not isinstance(p, PtrVal) or p.obj != this.id or not p.off.is_const():
                ok, detail = False, 'free-list link %r leaves the pool object' % (p,)
                break
            if p.off.c == 0:
                break
            chain.append(p.off.c)
            p = T.mem.get((this.id, p.off.c, 8))
        want = [soff + i * slot for i in reversed(range(cap))]
        if ok and chain != want:
            ok, detail = False, 'free list after construction holds the offsets %r, the slots are at %r' % (chain, want)
    bad = bad_obligs(it)
    if ok and bad:
        ok, detail = False, bad[0].detail
    rep.inst(rule, tag + '::static_object_pool', 'carves-exactly-the-storage-slots', ok, where_of(ctor), detail,
             fact={'slot_bytes': slot, 'storage_offset': soff, 'capacity': cap})
    return S, total, slot, tag


def sop_rules(rep, mod, elem, elem_label, probe):
    rule = 'R-SOP'
    S, total, slot, tag = sop_ctor_rule(rep, mod, elem, rule)

    # create(): constructs in the popped cell, or answers nullptr without constructing
    creates = sorted([f for f in class_methods(mod, S) if base_name(f) == 'create'], key=lambda f: f.name)
    if len(creates) < 2:
        raise AnalysisBroken('%s::create: %d instantiations (witness out of date?)' % (S, len(creates)))
    for f in creates:
        R = ShapeRunner(mod, cell_size=slot, fields=(NEXT,))
        label_f = tag + '::' + f.srcname
        for ring in gen_rings('h', ['h'], ['a', 'b']):
            log = []

            def ext(interp, st_, i, args, log=log):
                if interp.recording == 0:
                    log.append((i.callee, args[0], st_.mem.get((args_h[0], 0, 8))))
                if isinstance(args[0], PtrVal) and not args[0].is_null:
                    interp.check_access(st_, args[0], 8, i, 'construct-element')
                return [(st_, None)]
            args_h = [None]

            def args(st_, objs, f=f):
                args_h[0] = objs['h'].id
                a = [PtrVal(objs['h'].id, Lin(0))]
                for p in f.params[1:]:
                    o = st_.new_obj('param', Lin(8), 'ctor_arg', {'desc': 'constructor argument'})
                    a.append(PtrVal(o.id))
                return a
            exts = {n: ext for n in VTR_NAMES}
            if len(ring) == 1:
                def chk(T, rv, objs, it_, log=log):
                    if not (isinstance(rv, PtrVal) and rv.is_null):
                        return 'create() on an exhausted pool must return nullptr, got %r' % (rv,)
                    if log:
                        return 'create() on an exhausted pool runs a constructor'
                    return None
                run_with_ext(R, exts, label_f, f, args, [ring], lambda r: dict(rings=r), {'h': total}, chk, 'exhausted')
                continue
            first = ring[1]
            if is_gap(first) or is_gap(ring[2 % len(ring)]):
                continue

            def chk2(T, rv, objs, it_, log=log, fst=first):
                if not (isinstance(rv, PtrVal) and rv.obj == objs[fst].id and rv.off == Lin(0)):
                    return 'create() must return the popped cell, got %r' % (rv,)
                if probe:
                    ct = [l for l in log if 'C1' in l[0] or 'C2' in l[0]]
                    if len(ct) != 1:
                        return 'create() runs %d constructors' % len(ct)
                    (_, this_, headnext) = ct[0]
                    if not (isinstance(this_, PtrVal) and this_.obj == objs[fst].id and this_.off == Lin(0)):
                        return 'the object is constructed at %r, not in the popped cell' % (this_,)
                    if isinstance(headnext, PtrVal) and headnext.obj == objs[fst].id:
                        return 'the object is constructed while its cell is still on the free list'
                return None
            run_with_ext(R, exts, label_f, f, args, [ring], lambda r, fst=first: dict(rings=seq_remove(r, fst)),
                         {'h': total}, chk2, None)
        import_shape(rep, rule, R)

    # destroy(): destructor first, then the cell goes back to the list
    f = M(mod, S, 'destroy')
    R = ShapeRunner(mod, cell_size=slot, fields=(NEXT,))
    for ring in gen_rings('h', ['h'], ['a', 'b']):
        log = []
        args_h = [None]

        def ext(interp, st_, i, args, log=log, args_h=args_h):
            if interp.recording == 0:
                log.append((i.callee, args[0], st_.mem.get((args_h[0], 0, 8))))
            return [(st_, None)]

        def args(st_, objs, args_h=args_h):
            args_h[0] = objs['h'].id
            return [PtrVal(objs['h'].id, Lin(0)), PtrVal(objs['x'].id, Lin(0))]

        def chk(T, rv, objs, it_, log=log):
            if probe:
                dt = [l for l in log if 'D1' in l[0] or 'D2' in l[0]]
                if len(dt) != 1:
                    return 'destroy() runs %d destructors' % len(dt)
                (_, this_, headnext) = dt[0]
                if not (isinstance(this_, PtrVal) and this_.obj == objs['x'].id and this_.off == Lin(0)):
                    return 'destructor runs on %r, not on the object handed in' % (this_,)
                if isinstance(headnext, PtrVal) and headnext.obj == objs['x'].id:
                    return 'the destructor runs after the cell was linked into the free list (link overwrites the object)'
            return None
        run_with_ext(R, {n: ext for n in VTR_NAMES}, tag + '::destroy', f, args, [ring],
                     lambda r: dict(rings=seq_insert_after(r, 'x', 'h')), {'h': total}, chk, None, loose=['x'])
    import_shape(rep, rule, R)
    f = M(mod, S, 'avail')
    R = ShapeRunner(mod, cell_size=slot, fields=(NEXT,))
    for ring in explicit_rings():
        k = len(ring) - 1
        R.run(tag + '::avail', f, arg_ptrs('h'), [ring], lambda r: dict(rings=r), cell_sizes={'h': total},
              ret_check=lambda T, rv, objs, it_, k=k: None if (isinstance(rv, IntVal) and rv.const() == k)
              else 'avail() must return the number of free cells (%d), got %r' % (k, rv))
    import_shape(rep, rule, R)


VTR_NAMES = ('_ZN3VTrC1Ev', '_ZN3VTrC2Ev', '_ZN3VTrC1Ei', '_ZN3VTrC2Ei', '_ZN3VTrC1ERKS_', '_ZN3VTrC2ERKS_',
             '_ZN3VTrC1EOS_', '_ZN3VTrC2EOS_', '_ZN3VTrD1Ev', '_ZN3VTrD2Ev')


def tyname_of(param):
    from irlib import V,  tyname
    return tyname(param['ty']['elem'])


def run_with_ext(R, exts, fname, fn, args, rings, expect, cell_sizes, ret_check, label, loose=()):
    """ShapeRunner.run with external summaries for the probe type's special members"""
    saved = dict(absint.DEFAULT_EXTERNALS)
    absint.DEFAULT_EXTERNALS.update(exts)
    try:
        R.run(fname, fn, args, rings, expect, loose=loose, cell_sizes=cell_sizes, ret_check=ret_check,
              label=(R.describe(rings, loose) + ' ' + label) if label else None)
    finally:
        absint.DEFAULT_EXTERNALS.clear()
        absint.DEFAULT_EXTERNALS.update(saved)


def static_witness(rep, repo):
    src = os.path.join(WIT, 'w_c10_static.cpp')
    if not os.path.exists(src):
        raise AnalysisBroken('witness unit %s missing' % src)
    for (macro, fn, key, where) in (
            ('C10_SLOTS', 'igris::static_object_pool::storage_type', 'static_assert:slot-size-alignment-tiling',
             'igris/container/static_object_pool.h'),
            ('C10_CHUNK', 'struct __freelist', 'static_assert:header-layout-and-granule', 'compat/mem/lin_malloc.h')):
        r = subprocess.run(['clang++', '-std=gnu++20', '-fsyntax-only', '-I' + repo, '-I' + WIT, '-D' + macro, src],
                           capture_output=True, text=True)
        errs = [l for l in r.stderr.splitlines() if 'error' in l]
        if r.returncode != 0 and not any('static_assert' in l or 'static assertion' in l for l in errs):
            raise AnalysisBroken('witness w_c10_static.cpp (-D%s) does not compile:\n%s' % (macro, r.stderr[-1500:]))
        rep.inst('R-LAYOUT', fn, key, r.returncode == 0, where, None if r.returncode == 0 else '; '.join(errs)[:900])


# --------------------------------------------------------------------------
# heap: IR dataflow rules on the separately compiled sources
# --------------------------------------------------------------------------
HEAP_PRELUDE = '''#include <sys/cdefs.h>
#undef __THROW
#define __THROW
#undef __THROWNL
#define __THROWNL
#undef __NTH
#define __NTH(fct) fct
#undef __NTHNL
#define __NTHNL(fct) fct
'''


def heap_unit(repo, rel):
    """compat/mem sources only parse hosted (<memory>, <mutex>); glibc's nothrow annotations on
    malloc/free/realloc are emptied so that the definitions are accepted"""
    from irlib import scratch
    pre = os.path.join(scratch(), 'c10_prelude.h')
    if not os.path.exists(pre):
        with open(pre, 'w') as f:
            f.write(HEAP_PRELUDE)
    from irlib import keep_all_but_new_helpers
    return compile_ir(os.path.join(repo, rel), repo, ['-include', pre], inline=keep_all_but_new_helpers())


def trace_const(fn, v):
    """follow bitcast / constant-offset GEP chains: (root value, constant byte offset) or (value, None)
    when a step is not constant"""
    off = 0
    for _ in range(40):
        if v.k != 'inst':
            break
        i = fn.insts[v.id]
        if i.op in ('bitcast', 'addrspacecast'):
            v = i.ops[0]
        elif i.op == 'getelementptr':
            d = 0
            for s in i.d['gep']['steps']:
                if s['k'] == 'field':
                    d += s['off']
                elif s['v']['k'] == 'ci':
                    d += s['stride'] * s['v']['v']
                else:
                    return v, None if off == 0 else off
            off += d
            v = i.ops[0]
        else:
            break
    return v, off


def ret_leaves(fn, v, seen=None):
    """values a returned SSA value may take (through phis/selects)"""
    seen = seen if seen is not None else set()
    if v.k == 'inst':
        if v.id in seen:
            return []
        seen.add(v.id)
        i = fn.insts[v.id]
        if i.op == 'phi':
            out = []
            for (bb, x) in i.incoming:
                out += ret_leaves(fn, x, seen)
            return out
        if i.op == 'select':
            return ret_leaves(fn, i.ops[1], seen) + ret_leaves(fn, i.ops[2], seen)
    return [v]


def hdr_rule(rep, mods):
    """R-HDR: malloc hands out chunk + offsetof(nx); free and realloc step back by exactly that much"""
    mm, mr = mods
    Hoff = mm.field_off('struct.__freelist', 'nx')
    if Hoff is None or mr.field_off('struct.__freelist', 'nx') != Hoff:
        raise AnalysisBroken('struct __freelist::nx not found / differs between the two units')
    szf = [f for f in mm.flat_fields('struct.__freelist') if f['name'] == 'sz']
    if not szf or szf[0]['ty'].get('size') != Hoff:
        raise AnalysisBroken('struct __freelist::sz is not the header preceding nx')
    f = mm.fn('malloc')
    n = 0
    bad = None
    for r in f.returns():
        for v in ret_leaves(f, r.ops[0]):
            if v.k == 'null' or (v.k == 'ci'):
                continue
            n += 1
            root, off = trace_const(f, v)
            rty = None
            if root.k == 'inst':
                rty = f.insts[root.id].ty.get('s')
            if off != Hoff:
                bad = 'malloc returns %r + %r, the payload starts at chunk + %d' % (root, off, Hoff)
    if n < 3:
        raise AnalysisBroken('malloc: only %d non-null return values found' % n)
    rep.inst('R-HDR', 'malloc', 'returns=chunk+offsetof(nx)', bad is None, where_of(f), bad,
             fact={'header_bytes': Hoff, 'return_sites': n})
    for (mod, name) in ((mm, 'free'), (mr, 'realloc')):
        f = mod.fn(name)
        n = 0
        bad = None
        for i in f.all_insts():
            if i.op != 'getelementptr':
                continue
            root, off = trace_const(f, V_of(i))
            if root.k == 'arg' and root.argno == 0 and off is not None and off != 0:
                # only the first step away from the argument is judged
                base = i.ops[0]
                b0, o0 = trace_const(f, base)
                if b0.k == 'arg' and o0 == 0:
                    n += 1
                    if off != -Hoff:
                        bad = '%s derives its chunk pointer as ptr%+d, malloc handed out chunk%+d' % (name, off, Hoff)
        if n < 1:
            raise AnalysisBroken('%s: no chunk pointer derived from the argument' % name)
        rep.inst('R-HDR', name, 'chunk=ptr-offsetof(nx)', bad is None, where_of(f), bad, fact={'derivations': n})
    # realloc returns its argument, malloc's result, or NULL - never an adjusted pointer
    f = mr.fn('realloc')
    bad = None
    n = 0
    for r in f.returns():
        for v in ret_leaves(f, r.ops[0]):
            n += 1
            if v.k == 'null':
                continue
            if v.k == 'arg' and v.argno == 0:
                continue
            if v.k == 'inst' and f.insts[v.id].op == 'call' and f.insts[v.id].callee == 'malloc':
                continue
            bad = 'realloc returns %r (neither its argument, a malloc() result nor NULL)' % (v,)
    rep.inst('R-HDR', 'realloc', 'returns-ptr|malloc()|NULL', bad is None and n >= 3, where_of(f), bad)


def V_of(inst):
    from irlib import V
    return V({'k': 'inst', 'id': inst.id})


def transitive_callers(mod, leaf):
    """defined functions that (transitively) call the external 'leaf'"""
    out = set()
    changed = True
    while changed:
        changed = False
        for f in mod.defined():
            if f.name in out:
                continue
            for c in f.calls():
                if c.callee == leaf or c.callee in out:
                    out.add(f.name)
                    changed = True
                    break
    return out


SHARED_GLOBALS = ('__flp', '__brkval', '__allocation_counter')


def lock_rule(rep, mods):
    """R-HEAPLOCK: every access to __flp/__brkval/__allocation_counter and every access through a pointer
    loaded from them lies between the guard's system_lock() and its system_unlock()"""
    for (mod, name) in ((mods[0], 'malloc'), (mods[0], 'free'), (mods[1], 'realloc')):
        f = mod.fn(name)
        if f is None or f.decl:
            raise AnalysisBroken('%s not found' % name)
        lockers = transitive_callers(mod, 'system_lock')
        unlockers = transitive_callers(mod, 'system_unlock')
        L = [c for c in f.calls() if c.callee in lockers and c.callee not in unlockers or c.callee == 'system_lock']
        U = [c for c in f.calls() if c.callee in unlockers and c.callee not in lockers or c.callee == 'system_unlock']
        if not L or not U:
            rep.inst('R-HEAPLOCK', name, 'takes-and-releases-the-system-lock', False, where_of(f),
                     '%s does not take/release the system lock (lock calls %d, unlock calls %d)' % (name, len(L), len(U)))
            continue
        rep.inst('R-HEAPLOCK', name, 'takes-and-releases-the-system-lock', True, where_of(f))
        acc = []
        for i in f.all_insts():
            if i.op in ('load', 'store'):
                p = i.ops[0] if i.op == 'load' else i.ops[1]
                root, off = trace_const(f, p)
                if root.k == 'global' and root.name in SHARED_GLOBALS:
                    acc.append((i, root.name))
        if len(acc) < 3:
            raise AnalysisBroken('%s: only %d accesses to the heap state found' % (name, len(acc)))
        bad = None
        for (i, g) in acc:
            if not any(f.dominates(l, i) for l in L):
                bad = '%s of %s at %s is not dominated by the lock acquisition' % (i.op, g, i.where())
            for u in U:
                if f.dominates(u, i):
                    bad = '%s of %s at %s happens after the lock was released' % (i.op, g, i.where())
        rep.inst('R-HEAPLOCK', name, 'heap-state-accessed-only-under-lock', bad is None, where_of(f), bad,
                 fact={'accesses': len(acc)})
        # no return is reachable from the acquisition without passing a release
        bad = None
        ublocks = set(u.block for u in U)
        reached_unlock = False
        for l in L:
            if any(u.block is l.block and u.idx > l.idx for u in U):
                reached_unlock = True
                continue
            seen = set()
            work = list(l.block.succs)
            while work:
                b = work.pop()
                if b in seen:
                    continue
                seen.add(b)
                if b in ublocks:
                    reached_unlock = True
                    continue
                if b.term.op == 'ret':
                    bad = 'the return at %s is reachable with the system lock still held' % b.term.where()
                work.extend(b.succs)
        rep.inst('R-HEAPLOCK', name, 'every-locked-path-unlocks-before-return', bad is None and reached_unlock,
                 where_of(f), bad or (None if reached_unlock else 'no release reachable from the acquisition'))


def cone_sources(fn, v, depth=0, seen=None):
    """global names / argument indices / callee names a value is computed from"""
    seen = seen if seen is not None else set()
    out = set()
    if v.k == 'global':
        out.add(('global', v.name))
    elif v.k == 'arg':
        out.add(('arg', v.argno))
    elif v.k == 'cexpr':
        from irlib import V
        for x in v.d.get('ops', []):
            out |= cone_sources(fn, V(x), depth + 1, seen)
    elif v.k == 'inst' and v.id not in seen and depth < 40:
        seen.add(v.id)
        i = fn.insts[v.id]
        if i.op in ('call', 'invoke'):
            out.add(('call', i.callee))
        elif i.op == 'load':
            out |= {('load:' + k, n) for (k, n) in cone_sources(fn, i.ops[0], depth + 1, seen)}
        else:
            for o in i.ops:
                out |= cone_sources(fn, o, depth + 1, seen)
    return out


def brk_limit_rule(rep, mods):
    """R-BRKLIMIT: a store that raises __brkval is guarded by a comparison that involves both the new
    break (or the request) and a heap limit (a value not derived from the allocator's own state)"""
    own = {'__brkval', '__flp', '__allocation_counter', '__malloc_heap_start'}
    for (mod, name, lenarg) in ((mods[0], 'malloc', 0), (mods[1], 'realloc', 1)):
        f = mod.fn(name)
        raises = []
        for i in f.all_insts():
            if i.op != 'store':
                continue
            root, off = trace_const(f, i.ops[1])
            if not (root.k == 'global' and root.name == '__brkval' and off == 0):
                continue
            src = cone_sources(f, i.ops[0])
            if ('arg', lenarg) in src:
                raises.append(i)
        if not raises:
            raise AnalysisBroken('%s: no store raising __brkval by the request size found' % name)
        bad = None
        for s in raises:
            guarded = False
            for b in f.blocks:
                t = b.term
                if t.op != 'br' or 'f' not in t.d or not f.dominates(t, s):
                    continue
                src = cone_sources(f, t.ops[0])
                uses_req = ('arg', lenarg) in src or any(k.startswith('load') and n == '__brkval' for (k, n) in src)
                limit = [x for x in src if (x[0] in ('global', 'load:global') and x[1] not in own) or
                         (x[0] == 'call' and x[1] not in ('critical_context_level',))]
                if uses_req and limit:
                    guarded = True
            if not guarded:
                bad = ('%s raises __brkval by the request size at %s without comparing the new break with any heap '
                       'limit: the heap grows without bound (into the stack / past the end of RAM) and never '
                       'reports exhaustion' % (name, s.where()))
        rep.inst('R-BRKLIMIT', name, 'break-raise-compared-with-a-heap-limit', bad is None, where_of(f), bad)


# --------------------------------------------------------------------------
# heap: per-operation interpretation on symbolic layouts
# --------------------------------------------------------------------------
def heap_layout_rules(rep, repo, tier):
    mod = witness('w_c10_heap.cpp', repo)
    rep.units.append('witness/w_c10_heap.cpp -> compat/mem/lin_malloc.cpp + lin_realloc.cpp (one module)')
    for n in ('malloc', 'free', 'realloc'):
        f = mod.fn(n)
        if f is None or f.decl:
            raise AnalysisBroken('heap function %s not defined in the witness module' % n)
    thorough = tier == 'thorough'
    res = H.Results()
    saved = absint.MAX_STATES
    absint.MAX_STATES = 6000
    try:
        H.run_malloc(res, mod, (), virgin=True)
        mp = [p for p in H.patterns(3 if thorough else 2, False, 7 if thorough else 5) if p]
        for p in mp:
            H.run_malloc(res, mod, p)
        for p in [(), ('L',), ('F', 'L'), ('L', 'F', 'L', 'F', 'L')]:
            H.run_malloc(res, mod, p, virgin=(p == ()), fn='realloc', pre='realloc(NULL,n):', via_realloc=True)
        for p in H.patterns(3 if thorough else 2, True, 7 if thorough else 5):
            H.run_free(res, mod, p)
        for p in [('L',), ('F', 'L'), ('L', 'F', 'L')]:
            H.run_free_null(res, mod, p)
        for p in H.patterns(2, True, 6 if thorough else 4):
            H.run_realloc(res, mod, p)
    finally:
        absint.MAX_STATES = saved
    rule = {'malloc': 'R-HEAP-MALLOC', 'free': 'R-HEAP-FREE', 'realloc': 'R-HEAP-REALLOC'}
    for (fn, clause), lst in sorted(res.r.items()):
        f = mod.fn(fn)
        bad = [x for x in lst if not x[1]]
        seen = set()
        for (lay, ok, d) in lst:
            if ok and lay not in seen and not any(b[0] == lay for b in bad):
                seen.add(lay)
                rep.inst(rule[fn], fn, '%s:layout=%s' % (clause, lay), True, where_of(f))
        detail = None
        if bad:
            detail = 'layout %s: %s' % (bad[0][0], bad[0][2])
            if len(bad) > 1:
                detail += '  (and %d more return states, layouts %s)' % (
                    len(bad) - 1, ', '.join(sorted(set(b[0] for b in bad))[:6]))
        rep.inst(rule[fn], fn, clause, not bad, where_of(f), detail,
                 fact={'layouts': len(set(x[0] for x in lst)), 'return_states': len(lst)})
    rep.extra['heap'] = {'layouts_interpreted': res.layouts, 'return_states_checked': res.states}
    if res.layouts < 40:
        raise AnalysisBroken('only %d heap layouts interpreted' % res.layouts)


def run(rep, repo, tier):
    rep.explanation = (
        'POOLS. The IR of pool_init/pool_alloc/pool_free, igris::pool::get/put and static_object_pool::create/destroy '
        'is interpreted on every footprint configuration of the free ring (explicit cells + opaque gaps) and compared '
        'with a sequence model: an exhausted pool answers NULL and changes nothing, otherwise exactly the first free '
        'cell is unlinked and returned, a freed cell is pushed, the free count of igris::pool moves by exactly one on '
        'success and not at all on failure, construction happens in the popped cell after the pop and destruction before '
        'the push. pool_engage / igris::pool::init / the static_object_pool constructor are proved to carve exactly the '
        'cells zone+i*elemsz (symbolic element size >= 8, up to 3 cells; and for every cell count at fixed element sizes '
        'all stores inside the zone, free count == number of cells). Slot size/alignment/tiling are compile-time '
        'witnesses. HEAP. malloc, free and realloc are interpreted on symbolic heap layouts (segments: free chunk, '
        'opaque live region, the argument chunk; all sizes, gaps, the heap start and the request length symbolic) for '
        'every layout pattern with a bounded number of segments that satisfies the allocator invariant. For every return '
        'state: granted size >= request, size >= link field, alignment, byte conservation (free bytes + returned block '
        'partition exactly what was free/owned before, so the block overlaps no live region and no free chunk), the '
        'free list stays address ordered / merged / trimmed, free() equals the insert-merge-trim interval model, the '
        'break only moves by the returned/released top chunk, realloc keeps the common prefix (no store into it in '
        'place; one memcpy of the old size on a move), no access outside the chunks the operation owns, every access '
        'to heap state under the system lock, live-block counter arithmetic. IR rules: header-offset agreement of '
        'malloc/free/realloc, lock dominance, break raise without limit. NOT decided: non-overlap, coalescing and '
        'leak-freedom over whole histories (they follow from the per-operation verdicts by induction over the invariant '
        'only for heaps within the enumerated segment patterns; the induction is not mechanised), free lists longer '
        'than the bound, double free / foreign pointers, pool cells freed twice, an upper end of the heap arena (the '
        'port has none: reported), alignment beyond sizeof(size_t).')
    rep.assumptions += ['pool element size >= sizeof(slist_head) and zone size a multiple of it (pool_engage asserts the latter)',
                        'pointers given to pool_free/put/destroy/free/realloc were handed out by the same allocator and are live',
                        'heap sizes < 2^43 bytes; request sizes up to 2^40 bytes for the layout clauses (size and NULL clauses: all sizes)',
                        'heap start aligned to sizeof(size_t)',
                        'compat/mem sources parsed hosted (x86-64 glibc/libstdc++ headers, __WORDSIZE = 64)']
    mod = witness('w_c10_pool.cpp', repo)
    rep.units.append('witness/w_c10_pool.cpp -> igris/datastruct/pool.h, igris/container/pool.h, static_object_pool.h')
    ncfg = pool_shape(rep, mod)
    pool_engage_rules(rep, mod)
    poolxx_rules(rep, mod)
    sop_rules(rep, mod, 'int', 'int', probe=False)
    sop_rules(rep, mod, 'VTr', 'VTr', probe=True)
    # an element whose storage cell is padded (sizeof 12, alignment 4 -> 16-byte cells): stride must be the padded cell
    sop_ctor_rule(rep, mod, 'igris_verif_P12')
    static_witness(rep, repo)
    rep.units.append('witness/w_c10_static.cpp (-fsyntax-only)')
    mm = heap_unit(repo, 'compat/mem/lin_malloc.cpp')
    mr = heap_unit(repo, 'compat/mem/lin_realloc.cpp')
    rep.units += ['compat/mem/lin_malloc.cpp', 'compat/mem/lin_realloc.cpp']
    hdr_rule(rep, (mm, mr))
    lock_rule(rep, (mm, mr))
    brk_limit_rule(rep, (mm, mr))
    heap_layout_rules(rep, repo, tier)
    rep.extra['shape'] = {'pool_configurations': ncfg}
    rep.floor('R-POOL-SHAPE', 25)
    rep.floor('R-POOL-ENGAGE', 12)
    rep.floor('R-POOLXX', 60)
    rep.floor('R-SOP', 30)
    rep.floor('R-LAYOUT', 2)
    rep.floor('R-HDR', 4)
    rep.floor('R-HEAPLOCK', 9)
    rep.floor('R-BRKLIMIT', 2)
    rep.floor('R-HEAP-MALLOC', 8)
    rep.floor('R-HEAP-FREE', 8)
    rep.floor('R-HEAP-REALLOC', 12)
    import c10_content
    c10_content.run_ext(rep, repo, tier)

