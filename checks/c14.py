"""C14 fixed-capacity containers: static_vector<T,N>, static_string<N> and their std_portable twins."""
from common import *
from absval import PtrVal, IntVal
from lin import Lin

N = 4
SZ_VTR = 8


def ext_vtr(interp, st, i, args):
    """element special members (declared, not defined, in witness/probe.h):
    each touches exactly the sizeof(VTr) bytes of its object arguments"""
    name = i.callee
    this = args[0]
    if 'C1' in name or 'C2' in name:
        interp.check_access(st, this, SZ_VTR, i, 'construct-element')
        interp.mem_range_write(st, this, Lin(SZ_VTR), i)
        if len(args) > 1 and isinstance(args[1], PtrVal):
            interp.check_access(st, args[1], SZ_VTR, i, 'read-element')
        return [(st, None)]
    if 'D1' in name or 'D2' in name:
        interp.check_access(st, this, SZ_VTR, i, 'destroy-element')
        return [(st, None)]
    if 'aS' in name:
        interp.check_access(st, this, SZ_VTR, i, 'assign-element')
        interp.mem_range_write(st, this, Lin(SZ_VTR), i)
        if len(args) > 1 and isinstance(args[1], PtrVal):
            interp.check_access(st, args[1], SZ_VTR, i, 'read-element')
        return [(st, this)]
    return None


VTR_EXT = {}
for n in ('_ZN3VTrC1Ev', '_ZN3VTrC2Ev', '_ZN3VTrC1Ei', '_ZN3VTrC1ERKS_', '_ZN3VTrC2ERKS_', '_ZN3VTrC1EOS_',
          '_ZN3VTrC2EOS_', '_ZN3VTrD1Ev', '_ZN3VTrD2Ev', '_ZN3VTraSERKS_', '_ZN3VTraSEOS_'):
    VTR_EXT[n] = ext_vtr


def range_setup(elem):
    """(b, e) are iterators into one caller-owned array: e == b + n elements"""
    def setup(run, st, env, names, args, sps):
        ib, ie = names.index('b'), names.index('e')
        n = st.fresh_int(64, False, 'range_len')
        st.cons.add_le(n.u, 1 << 40)
        o = st.new_obj('param', n.u * elem, 'range', {'desc': 'source range [b,e)'})
        args[ib] = PtrVal(o.id, Lin(0))
        args[ie] = PtrVal(o.id, n.u * elem)
        env.bind('range_len', n.u)
    return setup


def erase_setup(elem):
    """first/last are iterators into this container: begin()+a, begin()+b with a <= b <= size"""
    def setup(run, st, env, names, args, sps):
        this = [sp for sp in sps if sp[0] == 'this'][0]
        o = this[1]
        a = st.fresh_int(64, False, 'first_idx')
        b = st.fresh_int(64, False, 'last_idx')
        st.cons.add_le(a.u, b.u)
        st.cons.add_le(b.u, this[3]['m_size'])
        args[names.index('first')] = PtrVal(o.id, a.u * elem, Lin(0), Lin(N * elem))
        args[names.index('last')] = PtrVal(o.id, b.u * elem, Lin(0), Lin(N * elem))
        env.bind('first_idx', a.u)
        env.bind('last_idx', b.u)
    return setup


def ilist_setup(elem):
    """std::initializer_list<T>: _M_array points to _M_len elements"""
    def setup(run, st, env, names, args, sps):
        il = names.index('lst')
        n = st.fresh_int(64, False, 'il_len')
        st.cons.add_le(n.u, 1 << 40)
        arr = st.new_obj('param', n.u * elem, 'il_array', {'desc': 'initializer_list backing array'})
        lo = st.new_obj('param', Lin(16), 'lst', {'desc': 'initializer_list object'})
        st.mem[(lo.id, 0, 8)] = PtrVal(arr.id, Lin(0))
        st.mem[(lo.id, 8, 8)] = n
        args[il] = PtrVal(lo.id, Lin(0))
        env.bind('il_len', n.u)
    return setup


def sv_table(elem):
    return [
        (lambda f: base_name(f) == 'static_vector' and [p['name'] for p in f.params] == ['this'], FnSpec(ctor=True,
            post=[dict(name='empty', then=['m_size_post == 0'])])),
        (lambda f: base_name(f) == 'static_vector' and [p['name'] for p in f.params] == ['this', 'other'],
            FnSpec(ctor=True, post=[dict(name='size', then=['this.m_size_post == other.m_size'])])),
        (lambda f: base_name(f) == 'static_vector' and [p['name'] for p in f.params] == ['this', 'b', 'e'],
            FnSpec(ctor=True, setup=range_setup(elem))),
        (lambda f: base_name(f) == 'static_vector' and [p['name'] for p in f.params] == ['this', 'lst'],
            FnSpec(ctor=True, setup=ilist_setup(elem))),
        ('~static_vector', FnSpec(dtor=True)),
        ('operator=', FnSpec(post=[dict(name='size', then=['this.m_size_post == other.m_size'])])),
        ('operator[]', FnSpec(pre=['pos < m_size'])),
        ('back', FnSpec(pre=['m_size >= 1'])),
        ('front', FnSpec(pre=['m_size >= 1'])),
        ('erase', FnSpec(setup=erase_setup(elem),
                         post=[dict(name='size', then=['m_size_post == m_size - (last_idx - first_idx)'])])),
        ('push_back', FnSpec(post=[dict(name='full', when=['m_size >= %d' % N], then=['m_size_post == m_size']),
                                   dict(name='room', when=['m_size < %d' % N], then=['m_size_post == m_size + 1'])])),
        ('emplace_back', FnSpec(post=[dict(name='full', when=['m_size >= %d' % N], then=['m_size_post == m_size']),
                                      dict(name='room', when=['m_size < %d' % N], then=['m_size_post == m_size + 1'])])),
        ('resize', FnSpec(post=[dict(name='clamped', when=['newsize >= %d' % N], then=['m_size_post == %d' % N]),
                                dict(name='exact', when=['newsize < %d' % N], then=['m_size_post == newsize'])])),
        ('clear', FnSpec(post=[dict(name='empty', then=['m_size_post == 0'])])),
        ('room', FnSpec(post=[dict(name='value', then=['ret == %d - m_size' % N])])),
        ('size', FnSpec(post=[dict(name='value', then=['ret == m_size'])])),
    ]


def ss_table():
    def cstr_setup(run, st, env, names, args, sps):
        i = names.index('dat')
        n = st.fresh_int(64, False, 'dat_len')
        st.cons.add_le(n.u, 1 << 40)
        o = st.new_obj('param', n.u + 1, 'dat', {'desc': 'C string dat', 'cstr_len': n.u})
        args[i] = PtrVal(o.id, Lin(0))
        env.bind('dat_len', n.u)
    return [
        (lambda f: base_name(f) == 'static_string' and [p['name'] for p in f.params] == ['this'], FnSpec(ctor=True)),
        (lambda f: base_name(f) == 'static_string' and [p['name'] for p in f.params] == ['this', 'dat'],
            FnSpec(ctor=True, setup=cstr_setup)),
        (lambda f: base_name(f) == 'static_string' and [p['name'] for p in f.params] == ['this', 'dat', 'sz'],
            FnSpec(ctor=True, extents={'dat': 'sz'})),
        ('operator[]', FnSpec(pre=['pos < m_size'])),
        ('push_back', FnSpec(post=[dict(name='full', when=['m_size >= %d' % N], then=['m_size_post == m_size']),
                                   dict(name='room', when=['m_size < %d' % N], then=['m_size_post == m_size + 1'])])),
        ('find', None), ('split', None),
    ]


def run(rep, repo, tier):
    rep.explanation = (
        'Abstract interpretation of every instantiated member of static_vector<int,4>, static_vector<VTr,4> '
        '(VTr: probe type whose special members are external calls on the slot address) and static_string<4>, and of '
        'their std_portable.h twins, under the class invariant m_size <= N: every slot construct/destroy/assign and '
        'every byte access lies inside the inline storage, the invariant holds after every constructor and method, '
        'push/emplace refuse when full, resize clamps. Decides the capacity/bounds clauses for all states and all '
        'argument values at N = 4 (code is uniform in N); content equality is not decided here; element lifetimes are decided by the R-LIFE rules below.')
    rep.assumptions += ['iterator arguments of erase point into the container with first <= last <= end()',
                        'range constructor arguments delimit one array', 'N instantiated at 4']
    SV_INT = StructSpec('sv<int>', inv=['m_size >= 0', 'm_size <= %d' % N])
    SS = StructSpec('ss', inv=['m_size >= 0', 'm_size <= %d' % N])
    for wit, label in (('w_staticvec.cpp', 'static_vector.h/static_string.h'),
                       ('w_staticvec_portable.cpp', 'std_portable.h twins')):
        mod = witness(wit, repo)
        rep.units.append('witness/%s -> %s' % (wit, label))
        tag = 'R-SVEC' if 'portable' not in wit else 'R-SVEC-TWIN'
        # members that exist today; a member outside this list that other members call is a helper split off by a refactoring
        today = ('back', 'begin', 'c_str', 'clear', 'data', 'emplace_back', 'end', 'erase', 'front', 'operator+=', 'operator=',
                 'operator[]', 'push_back', 'resize', 'room', 'size', 'static_string', 'static_vector', '~static_vector')
        run_class(rep, tag, mod, 'igris::static_vector<int, 4', SV_INT, sv_table(4), FnSpec(), min_methods=20, today=today)
        run_class(rep, tag, mod, 'igris::static_vector<VTr, 4', SV_INT, sv_table(SZ_VTR), FnSpec(),
                  externals=VTR_EXT, min_methods=20, today=today)
        run_class(rep, 'R-SSTR' if 'portable' not in wit else 'R-SSTR-TWIN', mod, 'igris::static_string<4', SS,
                  ss_table(), FnSpec(), min_methods=6, today=today)
    rep.floor('R-SVEC:bounds', 20)
    rep.floor('R-SVEC:invariant', 60)
    rep.floor('R-SVEC-TWIN:invariant', 50)
    rep.floor('R-SSTR:bounds', 3)
    import c14_life
    c14_life.run_life(rep, repo, tier)
    import c14_ident
    c14_ident.run_ext(rep, repo, tier)
    import c14_sstr
    c14_sstr.run_ext(rep, repo, tier)
