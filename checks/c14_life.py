"""C14, element-lifetime clause of igris::static_vector<T,N> and its std_portable.h twin:
"every element object the container constructs is destroyed exactly once, and no operation assigns to, moves from or
reads an unconstructed or already destroyed element".

Slot typestate (life_core.py) by trace partitioning on the entry value of m_size (0..N), of other.m_size for the
two-container members, and on the small integer / iterator arguments (positions 0..m_size, counts 0..2N).
Entry: [0,m_size) LIVE, [m_size,N) RAW; at every return the same must hold for the stored m_size; constructors start
from all RAW; the destructor must end all RAW.  By induction over the history nothing that was constructed is
dropped without destruction, and the destructor destroys [0,m_size): every element is destroyed exactly once."""
import os

from common import *
from contracts import StructSpec
import life_core as L
from life_core import Part, Member
from life_core import ext_vtr

RULES = {False: 'R-LIFE-SVEC', True: 'R-LIFE-SVEC-TWIN'}
# members that must exist (anchors); the twin has no erase / range / initializer-list constructor
REQUIRED = {False: {'static_vector': 5, '~static_vector': 1, 'operator=': 2, 'clear': 1, 'resize': 1, 'erase': 1,
                    'push_back': 1, 'emplace_back': 1},
            True: {'static_vector': 3, '~static_vector': 1, 'operator=': 2, 'clear': 1, 'resize': 1,
                   'push_back': 1, 'emplace_back': 1}}

# members that exist today (a member outside this list that other members call is a helper split off by a refactoring)
TODAY = ('back', 'begin', 'c_str', 'clear', 'data', 'emplace_back', 'end', 'erase', 'front', 'operator+=', 'operator=',
         'operator[]', 'push_back', 'resize', 'room', 'size', 'static_string', 'static_vector', '~static_vector')


def pnames(f):
    return [p['name'] for p in f.params]


def member_for(f, n, tier):
    """lifetime contract (partition of the entry states) of member f of static_vector<VTr, n>"""
    b = base_name(f)
    P = pnames(f)
    sizes = range(n + 1)
    counts = range(2 * n + 1)
    ptr = [p for p in f.params if p['ty']['k'] == 'ptr' and p['name'] != 'this']
    if b == 'static_vector':
        if P == ['this']:
            return Member([Part('-')], ctor=True)
        if P == ['this', 'other']:
            return Member([Part('other.m_size=%d' % o, other=o) for o in sizes], ctor=True)
        if P == ['this', 'b', 'e']:
            return Member([Part('range of %d' % k, args={'b': ('range', k, 'e')}) for k in counts], ctor=True)
        if P == ['this', 'lst']:
            return Member([Part('initializer_list of %d' % k, args={'lst': ('ilist', k)}) for k in counts], ctor=True)
        return None
    if b == '~static_vector':
        return Member([Part('m_size=%d' % s, this=s) for s in sizes], dtor=True)
    if b == 'operator=' and P == ['this', 'other']:
        parts = [Part('m_size=%d,other.m_size=%d' % (s, o), this=s, other=o) for s in sizes for o in sizes]
        parts += [Part('m_size=%d,self-assignment' % s, this=s, other=s, same=True) for s in sizes]
        return Member(parts)
    if b == 'operator[]' and P == ['this', 'pos']:
        return Member([Part('m_size=%d,pos=%d' % (s, k), this=s, args={'pos': ('int', k)}) for s in sizes for k in range(s)],
                      result_ref=True, note='precondition pos < m_size')
    if b in ('back', 'front') and P == ['this']:
        return Member([Part('m_size=%d' % s, this=s) for s in sizes if s >= 1], result_ref=True,
                      note='precondition m_size >= 1')
    if b == 'erase' and P == ['this', 'first', 'last']:
        return Member([Part('m_size=%d,first=begin()+%d,last=begin()+%d' % (s, a, c), this=s,
                            args={'first': ('slot', a), 'last': ('slot', c)})
                       for s in sizes for a in range(s + 1) for c in range(a, s + 1)],
                      note='precondition begin() <= first <= last <= end()')
    if b in ('push_back', 'emplace_back') and len(ptr) == 1 and len(P) == 2 and ptr[0]['ty']['s'] == '%struct.VTr*':
        a = ptr[0]['name']
        parts = [Part('m_size=%d' % s, this=s, args={a: ('foreign',)}) for s in sizes]
        parts += [Part('m_size=%d,%s=(*this)[%d]' % (s, a, j), this=s, args={a: ('slot', j)}) for s in sizes for j in range(s)]
        return Member(parts)
    if b == 'resize' and P == ['this', 'newsize']:
        return Member([Part('m_size=%d,newsize=%d' % (s, k), this=s, args={'newsize': ('int', k)})
                       for s in sizes for k in counts])
    if any(p['ty']['s'] == '%struct.VTr*' for p in ptr) or \
            any(p['ty']['k'] == 'ptr' and p['ty']['elem'] == f.params[0]['ty']['elem'] for p in f.params[1:]):
        return None         # a new member with element/container arguments: needs a contract here
    ints = [p for p in f.params if p['ty']['k'] == 'int' and p['ty']['bits'] > 1]
    if len(ints) > 1:
        return None
    if ints:
        return Member([Part('m_size=%d,%s=%d' % (s, ints[0]['name'], k), this=s, args={ints[0]['name']: ('int', k)})
                       for s in sizes for k in counts])
    return Member([Part('m_size=%d' % s, this=s) for s in sizes])


def layout_for(mod, f, n):
    sname = L.tyname(f.params[0]['ty']['elem'])
    st = mod.structs.get(sname)
    fields = {m['name']: m for m in mod.flat_fields(sname)}
    if st is None or '_data' not in fields or 'm_size' not in fields:
        raise AnalysisBroken('static_vector layout (_data, m_size) not found in %s' % mod.path)
    if fields['_data']['size'] != n * L.ESZ:
        raise AnalysisBroken('static_vector<VTr,%d>::_data has %d bytes' % (n, fields['_data']['size']))

    def spec(cs):
        return StructSpec('igris::static_vector<VTr,%d>' % n, fixed={} if cs is None else {'m_size': cs})
    return {'kind': 'inline', 'n': n, 'data_off': fields['_data']['off'], 'spec': spec}


def run_unit(rep, repo, tier, twin, n):
    flags = ['-DLIFE_N=%d' % n] + (['-DLIFE_TWIN'] if twin else [])
    mod = compile_ir(os.path.join(WIT, 'w_life_staticvec.cpp'), repo, flags,
                     out_name='w_life_staticvec_%d_%d' % (n, int(twin)))
    label = 'static_vector<VTr,%d> %s' % (n, 'std_portable.h' if twin else 'static_vector.h')
    rep.units.append('witness/w_life_staticvec.cpp %s -> %s' % (' '.join(flags), label))
    L.check_probe(mod)
    fns = class_methods(mod, 'igris::static_vector<VTr, %d' % n)
    have = {}
    for f in fns:
        have[base_name(f)] = have.get(base_name(f), 0) + 1
    for k, c in REQUIRED[twin].items():
        if have.get(k, 0) < c:
            raise AnalysisBroken('%s: member %s instantiated %d time(s), expected >= %d (anchor vanished or witness out '
                                 'of date)' % (label, k, have.get(k, 0), c))
    members = []
    helpers = []
    for f in fns:
        if base_name(f) not in TODAY and any(c.callee == f.name for g in fns if g is not f for c in g.calls()):
            # a member that did not exist when the contracts were written and that other members call: a helper split off
            # by a refactoring; it is analysed, typestate included, in the context of each caller
            helpers.append(f.qualname)
            continue
        mb = member_for(f, n, tier)
        if mb is None:
            # a member without a contract of its own (a helper introduced by a refactoring) is covered when members that
            # have one call it: callees are analysed in the caller's context, typestate included
            callers = [g for g in fns if g is not f and any(c.callee == f.name for c in g.calls())]
            if callers:
                helpers.append(f.qualname)
                continue
            raise AnalysisBroken('%s: no lifetime contract for member %s%s' % (label, f.qualname, sig_suffix(f)))
        members.append((f, mb))
    lay = layout_for(mod, fns[0], n)
    # one identity per member whatever the capacity: the capacity is part of the partition
    st = L.run_members(rep, RULES[twin], repo, mod, members, lay, ext_vtr, peel=2 * n + 3, label=label,
                       cls='igris::static_vector<', rename=lambda s: s.replace('<VTr, %dul>' % n, '<VTr, N>'),
                       part_prefix='N=%d,' % n)
    return st, len(members)


def run_life(rep, repo, tier):
    rep.explanation = (rep.explanation or '') + EXPLANATION
    rep.assumptions += ['lifetime rules: element special members do not throw (only the normal edge of an invoke is '
                        'followed)', 'lifetime rules: erase(first,last) is called with begin() <= first <= last <= end(); '
                        'operator[] with pos < size(); front/back on a non-empty container']
    expected = {False: 0, True: 0}      # (member, capacity) pairs
    partitions = 0
    caps = [4, 1, 2] if tier != 'thorough' else [4, 1, 2, 3, 6, 8]
    units = [(twin, n) for n in caps for twin in (False, True)]
    for (twin, n) in units:
        st, nm = run_unit(rep, repo, tier, twin, n)
        partitions += st['partitions']
        expected[twin] += nm
    # floors: instances are distinct by (rule, member, clause) and merged over capacities and partitions; the
    # ':analysed' instances are per (member, capacity).  A partition that cannot be analysed removes that instance, so
    # the floor of the rule is missed (exit 2, never a pass)
    for twin in (False, True):
        rep.floor(RULES[twin] + ':analysed', expected[twin])
        rep.floor(RULES[twin] + ':event', 20 if twin else 28)
        rep.floor(RULES[twin] + ':return', 50 if twin else 56)
        rep.floor(RULES[twin] + ':result', 6)
    if partitions < (900 if tier != 'thorough' else 3800):
        raise AnalysisBroken('lifetime rules: only %d (member, partition) pairs analysed' % partitions)


EXPLANATION = (
    ' Element lifetimes (rules R-LIFE-SVEC for static_vector.h, R-LIFE-SVEC-TWIN for the std_portable.h twin): slot '
    'typestate RAW/LIVE over the inline storage of static_vector<VTr,N>, N = 4, 1 and 2 (thorough tier also 3, 6, 8), '
    'decided by trace partitioning: every member is interpreted once per entry value of m_size in 0..N (and of '
    'other.m_size, and for self-assignment, in the two-container members), per position 0..m_size of its iterator/index '
    'arguments, per count 0..2N, and for a value argument owned by the caller as well as one that is an element of the '
    'container, so that every loop runs on concrete bounds and every slot index is a constant while element contents '
    'stay abstract. Decided per (member, partition): every constructor call hits a RAW slot, every destructor call and '
    'every assignment a LIVE slot, every element read as the source of a copy/move is LIVE, no raw memset/memcpy/store '
    'of the container touches a LIVE slot, references returned by operator[]/front/back designate LIVE slots, and at '
    'every return the slots are again [0,m_size) LIVE and [m_size,N) RAW for the stored m_size (constructors start from '
    'all RAW, the destructor ends all RAW): by induction over the operation history every constructed element is '
    'destroyed exactly once. Not decided: exception paths (a throwing element constructor), the int instantiation (no '
    'lifetime events), capacities other than those listed (the code has no N-dependent case).')
