"""C14 (and, with run_ext_vec, C02), CONTENT clause of the igris sequence containers: "within capacity they expose
exactly the contents of a reference sequence".

Element identity on top of the slot typestate of life_core.py.  The probe element type VTr (witness/probe.h) declares
its special members without defining them, so every construction, destruction and assignment of an element is a
visible external call on the slot address.  Next to the RAW/LIVE state of a slot the analysis keeps, as ghost state, the
IDENTITY of the value a LIVE slot holds:

    ('this', i)   the value element i of *this had on entry            ('other', i)  likewise for the other container
    ('arg',)      the value of the element argument                     ('range', k)  element k of the source range
    ('default',)  a default-constructed value                           ('int', v)    VTr(v)
    ('moved',)    unspecified: the object was moved from                ('unknown',)  unspecified: copied from storage
                                                                                      without an object / raw bytes

and the transfer functions of the events are
    copy-construct(dst, src), copy-assign(dst, src):  id(dst) := id(src)
    move-construct(dst, src), move-assign(dst, src):  id(dst) := id(src); id(src) := ('moved',)      (dst == src: the
                                                      object is moved from itself, id := ('moved',))
    default-construct(dst): ('default',)      construct-from-int(dst, v): ('int', v)      destroy(dst): no identity
    raw byte write into a slot: ('unknown',)

Every member is interpreted once per element of the partition of its entry states that the lifetime rules use (entry
size 0..N, positions, counts, aliasing of the value argument with an element, self-assignment); in each partition every
loop runs on concrete bounds and every slot index is a constant, element values stay abstract (identities are symbols,
not numbers).  At every return the sequence of identities in slots [0, m_size) of the container is compared with the
reference sequence of the member (python list operations on the entry sequence), and a returned reference / iterator
with the slot that holds the expected element.  Nothing is executed.

A partition that cannot be analysed exactly is recorded as unresolved and removes the ':analysed' instance of its member,
which breaks the floor of the rule (exit 2) - never a verdict."""
import multiprocessing
import os
import sys

from common import *
from absval import PtrVal, IntVal
from lin import Lin
import life_core as L
from life_core import Unresolved, RAW, LIVE, ESZ, g_get

# ----------------------------------------------------------------------------------------------------------------
# identities
# ----------------------------------------------------------------------------------------------------------------
MOVED = ('moved',)
UNKNOWN = ('unknown',)
DEFAULT = ('default',)
ARG = ('arg',)


def fmt(t):
    if t is None:
        return '<no object>'
    k = t[0]
    if k == 'this':
        return 'old[%d]' % t[1]
    if k == 'other':
        return 'other[%d]' % t[1]
    if k == 'range':
        return 'src[%d]' % t[1]
    if k == 'arg':
        return 'value'
    if k == 'default':
        return 'T()'
    if k == 'int':
        return 'T(%s)' % (t[1],)
    if k == 'moved':
        return '<moved-from>'
    if k == 'either':
        return ' or '.join(fmt(x) for x in t[1:])
    return '<unspecified>'


def fmts(seq):
    return '[' + ', '.join(fmt(t) for t in seq) + ']'


def either(*ts):
    """an expected identity that admits alternatives (an element the caller asked to move from may have been copied)"""
    return ('either',) + tuple(ts)


def matches(actual, want):
    if want is not None and want[0] == 'either':
        return actual in want[1:]
    return actual == want


def t_get(st):
    return dict(st.ghost.get('ident', ()))


def t_put(st, d):
    st.ghost['ident'] = tuple(sorted(d.items(), key=lambda kv: (str(kv[0][0]), kv[0][1])))


class Expect:
    """reference result of one (member, partition).
    this / other: list of identities expected in [0, m_size) at every return (None: not constrained)
    result: None | ('elem', identity): the returned pointer designates a slot of *this holding it
                 | ('pos', k): the returned pointer is begin() + k of *this (as of the return)"""

    def __init__(self, this=None, other=None, result=None):
        self.this = this
        self.other = other
        self.result = result


class IdentTracker(L.Tracker):
    """slot typestate + identity of the value in every LIVE slot"""

    def __init__(self, mod, layout, part, fn, ext_vtr, expect):
        L.Tracker.__init__(self, mod, layout, part, fn, ext_vtr)
        self.expect = expect
        self.int_args = {}      # key of the linear form of an int passed by reference -> True
        self.copies = 0         # identity transfers seen (copy/move/assign with a source)

    # ---- identities of addressed elements ----------------------------------------------------------------------
    def slot_key(self, interp, st, p, what):
        """-> ('slot', (oid, idx)) | ('foreign', identity) | None (outside the storage: the lifetime rule reports)"""
        loc = self.locate(interp, st, p, what)
        if loc[0] == 'foreign':
            o = st.objs.get(p.obj)
            src = o.info.get('ident_src')
            if src is None:
                raise Unresolved('%s: element of a caller-owned object without an identity (%s)' % (what, p.obj))
            if src == 'arg':
                if not p.off.is_const() or p.off.c != 0:
                    raise Unresolved('%s inside the element argument (offset %r)' % (what, p.off))
                return ('foreign', ARG)
            if not p.off.is_const() or p.off.c % ESZ != 0:
                raise Unresolved('%s at a source-range offset that is not a constant element index (%r)' % (what, p.off))
            return ('foreign', ('range', p.off.c // ESZ))
        if loc[0] == 'outside':
            return None
        return ('slot', (loc[1], loc[3]))

    def ident_at(self, interp, st, p, what):
        k = self.slot_key(interp, st, p, what)
        if k is None:
            return UNKNOWN, None
        if k[0] == 'foreign':
            return k[1], None
        return t_get(st).get(k[1], UNKNOWN), k[1]

    # ---- events --------------------------------------------------------------------------------------------------
    def on_event(self, interp, st, i, args):
        cls, ev, has_src = L.EVENTS[i.callee]
        src_t = src_k = None
        if has_src and len(args) >= 2:
            src_t, src_k = self.ident_at(interp, st, args[1], 'source of ' + ev)
        dst = self.slot_key(interp, st, args[0], ev)
        r = L.Tracker.on_event(self, interp, st, i, args)
        if dst is None or dst[0] != 'slot':
            return r                # an element the caller owns (not part of any sequence) or an address outside the storage
        dk = dst[1]
        d = t_get(st)
        if cls == 'destroy':
            d.pop(dk, None)
        elif has_src:
            self.copies += 1
            move = ev.startswith('move')
            if move and src_k is not None and src_k == dk:
                d[dk] = MOVED
            else:
                d[dk] = src_t
                if move and src_k is not None:
                    d[src_k] = MOVED
        elif ev == 'default-construct':
            d[dk] = DEFAULT
        elif ev == 'construct-from-int':
            v = None
            if len(args) > 1 and isinstance(args[1], IntVal):
                v = args[1].sconst()
                if v is None:
                    for l in (args[1].s, args[1].u):
                        if l is not None and l.key() in self.int_args:
                            v = 'value'
            d[dk] = ('int', v)
        else:
            raise Unresolved('event %s has no identity transfer function' % ev)
        t_put(st, d)
        return r

    def on_access(self, interp, st, inst, p, size, kind):
        L.Tracker.on_access(self, interp, st, inst, p, size, kind)
        if kind not in ('store', 'memcpy-dst', 'memset-dst') or not isinstance(p, PtrVal) or p.is_null:
            return
        ent = g_get(st).get(p.obj)
        if ent is None:
            return
        base, states, k_, freed = ent
        size = size if isinstance(size, Lin) else Lin(size)
        if not p.off.is_const() or not size.is_const() or size.c == 0:
            return                  # outside the storage or already unresolved in the base class
        first = max(0, (p.off.c - base) // ESZ)
        last = min(len(states) - 1, (p.off.c + size.c - 1 - base) // ESZ)
        d = t_get(st)
        ch = False
        for k in range(first, last + 1):
            if (p.obj, k) in d:
                d[(p.obj, k)] = UNKNOWN
                ch = True
        if ch:
            t_put(st, d)

    # ---- returns -------------------------------------------------------------------------------------------------
    def storage_of(self, run, T, name, o, sname):
        """-> (oid, base offset, slot states) of the storage that *name designates at this return, or None (no block)"""
        lay = self.layout
        d = g_get(T)
        if lay['kind'] == 'inline':
            ent = d.get(o.id)
            if ent is None:
                raise Unresolved('storage of *%s is not tracked' % name)
            return (o.id, ent[0], ent[1])
        pv, _m = self.read_size(run, T, o, sname, 'm_data')
        if not isinstance(pv, PtrVal):
            raise Unresolved('m_data of *%s is not a pointer value at a return (%r)' % (name, pv))
        if pv.is_null:
            return None
        ent = d.get(pv.obj)
        if ent is None or ent[2] != 'block' or not pv.off.is_const() or pv.off.c != ent[0]:
            raise Unresolved('m_data of *%s does not point to the start of a tracked block at a return' % name)
        return (pv.obj, ent[0], ent[1])

    def sequence_of(self, run, T, name, o, sname):
        v, _m = self.read_size(run, T, o, sname, 'm_size')
        if not isinstance(v, IntVal) or v.const() is None:
            raise Unresolved('m_size of *%s is not a constant at a return (%r)' % (name, v))
        size = v.const()
        sto = self.storage_of(run, T, name, o, sname)
        tags = t_get(T)
        seq = []
        for k in range(min(size, 64)):
            if sto is None or k >= len(sto[2]) or sto[2][k] != LIVE:
                seq.append(None)
            else:
                seq.append(tags.get((sto[0], k), UNKNOWN))
        return size, seq, sto

    def at_return(self, run, fn, spec, struct_params, T, rv):
        L.Tracker.at_return(self, run, fn, spec, struct_params, T, rv)
        ex = self.expect
        this_sto = None
        for (name, o, sspec, fs, sname) in struct_params:
            if sspec is None or name in self.skip_params:
                continue
            want = ex.this if name == 'this' else ex.other
            if self.is_dtor and name == 'this':
                continue
            size, seq, sto = self.sequence_of(run, T, name, o, sname)
            if name == 'this':
                this_sto = sto
            if want is None:
                continue
            what = 'this' if name == 'this' else 'other'
            ok = size == len(want)
            self.out('content:size-of-%s' % what, ok,
                     None if ok else 'at return *%s has m_size %d, the reference sequence %s has %d element(s)'
                     % (name, size, fmts(want), len(want)))
            if ok:
                bad = [k for k in range(size) if not matches(seq[k], want[k])]
                self.out('content:elements-of-%s' % what, not bad,
                         None if not bad else 'at return *%s holds %s, the reference sequence is %s (first difference at '
                         'index %d)' % (name, fmts(seq), fmts(want), bad[0]))
        if ex.result is not None:
            if not isinstance(rv, PtrVal):
                raise Unresolved('the result is not a pointer value (%r)' % (rv,))
            kind, x = ex.result
            if kind == 'elem':
                t, key = self.ident_at(run.interp, T, rv, 'returned reference')
                ok = key is not None and this_sto is not None and key[0] == this_sto[0] and matches(t, x)
                self.out('result:designates-the-element', ok,
                         None if ok else 'the returned reference designates %s, expected the slot holding %s'
                         % ('slot %d holding %s' % (key[1], fmt(t)) if key is not None else 'no slot of the storage', fmt(x)))
            else:
                if this_sto is None:
                    ok = rv.is_null and x == 0
                    got = 'nullptr' if rv.is_null else 'a non-null pointer'
                else:
                    off = None if rv.is_null else rv.off - this_sto[1]
                    ok = (not rv.is_null) and rv.obj == this_sto[0] and T.cons.entails_eq(off, x * ESZ)
                    got = 'nullptr' if rv.is_null else ('begin() + %r bytes' % (off,) if rv.obj == this_sto[0]
                                                        else 'a pointer into another object')
                self.out('result:iterator-position', ok,
                         None if ok else 'the returned iterator is %s, expected begin() + %d' % (got, x))


# ----------------------------------------------------------------------------------------------------------------
# one partition
# ----------------------------------------------------------------------------------------------------------------
def is_int_ref(p):
    return p['ty']['k'] == 'ptr' and p['ty'].get('elem') in ('i8', 'i16', 'i32', 'i64')


def ditype(f, pname):
    """debug-info spelling of the type of parameter pname ('VTr&&', 'const VTr&', ...)"""
    dit = f.d.get('ditypes') or []
    k = 1
    for p in f.params:
        if p.get('sret'):
            continue
        if p['name'] == pname:
            return dit[k]['type'] if k < len(dit) else ''
        k += 1
    return ''


def make_setup(tr, layout, part, fn):
    base = L.make_setup(tr, layout, part, fn)

    def setup(run, st, env, names, args, sps):
        base(run, st, env, names, args, sps)
        life = g_get(st)
        tags = {}
        for (name, o, sspec, fs, sname) in sps:
            if sspec is None or name in tr.skip_params:
                continue
            who = 'this' if name == 'this' else 'other'
            if layout['kind'] == 'inline':
                oid = o.id
            else:
                cur = st.mem.get((o.id, layout['data_ptr_off'], 8))
                if not isinstance(cur, PtrVal) or cur.is_null:
                    continue
                oid = cur.obj
            ent = life.get(oid)
            if ent is None:
                continue
            for k, s_ in enumerate(ent[1]):
                if s_ == LIVE:
                    tags[(oid, k)] = (who, k)
        plain = {name: o for (name, o, sspec, fs, sname) in sps if sspec is None}
        for p in fn.params:
            if p['name'] in plain and p['name'] not in part.args and is_int_ref(p):
                # an int passed by reference (emplace_back(int&&)): a symbolic value with an identity of its own
                bits = int(p['ty']['elem'][1:])
                x = st.fresh_int(bits, True, 'intarg')
                o = plain[p['name']]
                o.size = Lin(bits // 8)
                st.mem[(o.id, 0, bits // 8)] = x
                tr.int_args[x.s.key()] = True
        for pname, a in part.args.items():
            idx = names.index(pname)
            if a[0] == 'foreign':
                plain[pname].info['ident_src'] = 'arg'
            elif a[0] == 'range':
                st.objs[args[idx].obj].info['ident_src'] = 'range'
            elif a[0] == 'ilist':
                arr = st.mem.get((args[idx].obj, 0, 8))
                st.objs[arr.obj].info['ident_src'] = 'range'
        t_put(st, tags)
    return setup


def run_partition(mod, fn, layout, member, part, ext_vtr, peel, expect):
    """as life_core.run_partition, with the identity tracker; only the content/result clauses are kept"""
    tr = IdentTracker(mod, layout, part, fn, ext_vtr, expect)
    tr.is_ctor, tr.is_dtor, tr.result_ref = member.ctor, member.dtor, False
    ext = dict(layout.get('externals') or {})
    for n in L.EVENTS:
        ext[n] = tr.on_event
    for n in L.NEW_FNS:
        ext[n] = tr.on_new
    for n in L.FREE_FNS:
        ext[n] = tr.on_free
    it = L.LifeInterp(mod, externals=ext)
    it.max_peel = peel
    it.max_peel_states = 16
    it.ghost_keys = ('life', 'ident')
    it.access_hook = tr.on_access
    run = L.LifeRun(it, tr)
    structs = {}
    this_ty = None
    for p in fn.params:
        if p['name'] == 'this':
            this_ty = p['ty']['elem']
    for p in fn.params:
        if p['ty']['k'] == 'ptr' and this_ty is not None and p['ty']['elem'] == this_ty:
            structs[p['name']] = layout['spec'](part.this if p['name'] == 'this' else part.other)
    spec = FnSpec(ctor=member.ctor, dtor=member.dtor, structs=structs)
    spec.setup = make_setup(tr, layout, part, fn)
    unresolved = None
    try:
        run.run(fn.name, spec, fn=fn)
    except Unresolved as e:
        unresolved = str(e)
    except AnalysisBroken as e:
        unresolved = 'engine: ' + str(e)
    finally:
        it.stack = []
    findings = []
    if unresolved is None:
        for ob in it.obligs.values():
            if ob.kind == 'ghost-loop-invariant' and not ob.ok:
                unresolved = 'a loop that changes slot states is not decided by the partition (%s)' % ob.detail
            if ob.kind == 'deref-null' and not ob.ok:
                unresolved = 'a path dereferences a null pointer and is dropped by the interpreter (%s)' % ob.detail
        findings = [r for r in tr.ret if r[0].startswith('content:') or r[0].startswith('result:designates') or
                    r[0].startswith('result:iterator')]
        if tr.returns == 0 and unresolved is None:
            unresolved = 'no path of this partition reaches a return'
        bad_calls = [c for c in it.unknown_calls if c not in layout.get('harmless_calls', ())]
        if bad_calls:
            unresolved = 'call(s) to unsummarised external function(s) %s' % sorted(bad_calls)
    if unresolved is not None:
        findings = []
    return {'findings': findings, 'unresolved': unresolved, 'copies': tr.copies, 'returns': tr.returns}


_CTX = {}


def _work(k):
    c = _CTX
    (fi, pi) = c['tasks'][k]
    fn, member, expects = c['members'][fi]
    sys.setrecursionlimit(20000)
    return (fi, pi, run_partition(c['mod'], fn, c['layout'], member, member.parts[pi], c['ext_vtr'], c['peel'], expects[pi]))


def run_members(rep, rule, repo, mod, members, layout, peel, label, cls, rename=None, part_prefix=''):
    """members: list of (Function, life_core.Member, [Expect per partition]).  Instances:
         <rule>:content   key = clause (size-of-this, elements-of-this, ... ), function = member, merged over partitions
         <rule>:result    key = clause
         <rule>:analysed  one per member whose partitions were all analysed"""
    tasks = [(fi, pi) for fi, (fn, mb, ex) in enumerate(members) for pi in range(len(mb.parts))]
    _CTX.clear()
    _CTX.update(mod=mod, members=members, layout=layout, ext_vtr=L.ext_vtr, peel=peel, tasks=tasks)
    workers = min(16, os.cpu_count() or 2, max(1, len(tasks) // 4))
    if workers > 1 and not os.environ.get('VERIF_LIFE_SERIAL'):
        with multiprocessing.get_context('fork').Pool(workers) as pool:
            results = pool.map(_work, range(len(tasks)), chunksize=max(1, len(tasks) // (workers * 8)))
    else:
        results = [_work(k) for k in range(len(tasks))]
    per = {}
    for (fi, pi, r) in results:
        per.setdefault(fi, []).append((pi, r))
    stats = {'members': 0, 'partitions': 0, 'copies': 0, 'returns': 0, 'unresolved': []}
    table = {}
    for fi, (fn, mb, ex) in enumerate(members):
        fname = L.nice_name(fn, cls)
        if rename:
            fname = rename(fname)
        where = '%s:%d' % (relpath(repo, fn.file), fn.line)
        rs = sorted(per.get(fi, []), key=lambda x: x[0])
        unres = [(part_prefix + mb.parts[pi].label, r['unresolved']) for (pi, r) in rs if r['unresolved'] is not None]
        nret = sum(r['returns'] for (_pi, r) in rs)
        ncp = sum(r['copies'] for (_pi, r) in rs)
        stats['partitions'] += len(rs)
        stats['copies'] += ncp
        stats['returns'] += nret
        table[fname] = {'partitions': len(rs), 'returns': nret, 'identity_transfers': ncp}
        for (pi, r) in rs:
            plabel = part_prefix + mb.parts[pi].label
            for (clause, ok, detail) in r['findings']:
                sub = clause.split(':', 1)[0]
                rep.inst('%s:%s' % (rule, sub), fname, clause, ok, where,
                         None if ok else 'partition {%s}: %s' % (plabel, detail),
                         fact={'partition': plabel, 'unit': label})
        if unres:
            for (pl, why) in unres:
                stats['unresolved'].append('%s {%s}: %s' % (fname, pl, why))
        else:
            stats['members'] += 1
            rep.inst('%s:analysed' % rule, fname,
                     'every-partition-analysed' + (':' + part_prefix.rstrip(',') if part_prefix else ''), True, where,
                     fact={'partitions': len(rs), 'returns': nret, 'identity_transfers': ncp, 'unit': label})
    exx = rep.extra.setdefault('ident', {})
    exx[label] = {'members': table, 'partitions': stats['partitions'], 'identity_transfers': stats['copies'],
                  'returns_checked': stats['returns'], 'unresolved': stats['unresolved']}
    for u in stats['unresolved']:
        print('NOTE %s (%s) partition not analysable, no verdict: %s' % (rule, label, u))
    return stats


# ----------------------------------------------------------------------------------------------------------------
# reference semantics: static_vector<T, N>
# ----------------------------------------------------------------------------------------------------------------
def old(who, n):
    return [(who, k) for k in range(n)]


def value_of(f, pname, a, this_seq):
    """identity of the value argument described by the partition entry a; an element of *this passed as an rvalue
    reference may be left moved-from (this_seq is updated)"""
    if a[0] == 'foreign':
        return ARG
    if a[0] == 'slot':
        v = this_seq[a[1]]
        if ditype(f, pname).endswith('&&'):
            this_seq[a[1]] = either(v, MOVED)
        return v
    if a[0] == 'int':
        return ('int', a[1])
    raise AnalysisBroken('argument class %r has no element identity' % (a,))


def args_in_order(f, part):
    """partition entries of the parameters other than this, in parameter order"""
    return [(p['name'], part.args[p['name']]) for p in f.params if p['name'] in part.args]


def expect_sv(f, part, n):
    """reference result of member f of static_vector<VTr, n> in partition part (None: no content clause)"""
    b = base_name(f)
    np_ = len(f.params)
    A = args_in_order(f, part)
    s = part.this if part.this is not None else 0
    me = old('this', s)
    if b == 'static_vector':
        if np_ == 1:
            return Expect(this=[])
        if part.other is not None:
            # copy and move construction: other's sequence; a copy leaves other as it was (both overloads have the same
            # IR signature: the clause on other is limited to what both guarantee, i.e. nothing for the moved-from one)
            return Expect(this=old('other', part.other))
        if A and A[0][1][0] in ('range', 'ilist'):
            return Expect(this=old('range', min(A[0][1][1], n)))
        return None
    if b == '~static_vector':
        return Expect()
    if b == 'operator=' and part.other is not None:
        if part.same:
            return Expect(this=me)
        return Expect(this=old('other', part.other))
    if b == 'operator[]' and len(A) == 1 and A[0][1][0] == 'int':
        return Expect(this=me, result=('elem', ('this', A[0][1][1])))
    if b == 'front' and np_ == 1:
        return Expect(this=me, result=('elem', ('this', 0)))
    if b == 'back' and np_ == 1:
        return Expect(this=me, result=('elem', ('this', s - 1)))
    if b in ('begin', 'data') and np_ == 1:
        return Expect(this=me, result=('pos', 0))
    if b == 'end' and np_ == 1:
        return Expect(this=me, result=('pos', s))
    if b == 'erase' and len(A) == 2 and A[0][1][0] == 'slot' and A[1][1][0] == 'slot':
        return Expect(this=me[:A[0][1][1]] + me[A[1][1][1]:])
    if b in ('push_back', 'emplace_back') and len(A) <= 1:
        irefs = [p for p in f.params[1:] if is_int_ref(p)]
        if s >= n:
            return Expect(this=me)
        if A:
            v = value_of(f, A[0][0], A[0][1], me)
        elif irefs and np_ == 2:
            v = ('int', 'value')
        elif np_ == 1:
            v = DEFAULT
        else:
            return None
        return Expect(this=me + [v])
    if b == 'resize' and len(A) == 1 and A[0][1][0] == 'int':
        k = min(A[0][1][1], n)
        return Expect(this=me[:k] + [DEFAULT] * max(0, k - s))
    if b == 'clear' and np_ == 1:
        return Expect(this=[])
    if b in ('size', 'room') and np_ == 1:
        return Expect(this=me)
    return observer(f, part, me)


def observer(f, part, me):
    """a const member without element / container / pointer arguments (an observer added later) leaves the sequence
    alone; anything else needs reference semantics of its own"""
    if f.name.startswith('_ZNK') and part.other is None and all(p['ty']['k'] == 'int' for p in f.params[1:]):
        return Expect(this=me)
    return None


def copy_overload(mod, f):
    """True when the 'other' parameter of this constructor/assignment is a const reference (copy), False for an rvalue
    reference (move); decided from the debug-info type of the parameter, None when it cannot be told"""
    d = L.demangle1(f.name)
    if 'const&' in d.replace(' ', ''):
        return True
    if '&&' in d:
        return False
    return None


SV_RULES = {False: 'R-IDENT-SVEC', True: 'R-IDENT-SVEC-TWIN'}
# members whose content clause is mandatory (anchors): (base name, minimum number of overloads with a clause)
SV_REQUIRED = {False: {'static_vector': 5, 'operator=': 2, 'clear': 1, 'resize': 1, 'erase': 1, 'push_back': 1,
                       'emplace_back': 4, 'operator[]': 2, 'front': 2, 'back': 2, 'begin': 2, 'end': 2},
               True: {'static_vector': 3, 'operator=': 2, 'clear': 1, 'resize': 1, 'push_back': 1, 'emplace_back': 4,
                      'operator[]': 2, 'front': 2, 'back': 2, 'begin': 2, 'end': 2}}


def run_sv_unit(rep, repo, tier, twin, n):
    import c14_life
    flags = ['-DLIFE_N=%d' % n] + (['-DLIFE_TWIN'] if twin else [])
    mod = compile_ir(os.path.join(WIT, 'w_life_staticvec.cpp'), repo, flags,
                     out_name='w_life_staticvec_%d_%d' % (n, int(twin)))
    label = 'static_vector<VTr,%d> %s' % (n, 'std_portable.h' if twin else 'static_vector.h')
    L.check_probe(mod)
    fns = class_methods(mod, 'igris::static_vector<VTr, %d' % n)
    if not fns:
        raise AnalysisBroken('%s: no member instantiated' % label)
    members = []
    have = {}
    for f in fns:
        if base_name(f) not in c14_life.TODAY and any(c.callee == f.name for g in fns if g is not f for c in g.calls()):
            continue            # helper split off by a refactoring: analysed in its callers' contexts
        mb = c14_life.member_for(f, n, tier)
        if mb is None:
            if any(c.callee == f.name for g in fns if g is not f for c in g.calls()):
                continue
            raise AnalysisBroken('%s: no partition for member %s%s' % (label, f.qualname, sig_suffix(f)))
        exs = [expect_sv(f, p, n) for p in mb.parts]
        if any(e is None for e in exs):
            if base_name(f) in SV_REQUIRED[twin]:
                raise AnalysisBroken('%s: member %s%s has no reference semantics (signature changed?)'
                                     % (label, f.qualname, sig_suffix(f)))
            if any(c.callee == f.name for g in fns if g is not f for c in g.calls()):
                continue
            raise AnalysisBroken('%s: no reference semantics for member %s%s' % (label, f.qualname, sig_suffix(f)))
        if any(p.other is not None for p in mb.parts) and copy_overload(mod, f):
            for p, e in zip(mb.parts, exs):
                if p.other is not None and not p.same:
                    e.other = old('other', p.other)
        members.append((f, mb, exs))
        have[base_name(f)] = have.get(base_name(f), 0) + 1
    for k, c in SV_REQUIRED[twin].items():
        if have.get(k, 0) < c:
            raise AnalysisBroken('%s: member %s has %d overload(s) with a content clause, expected >= %d (anchor vanished '
                                 'or witness out of date)' % (label, k, have.get(k, 0), c))
    lay = c14_life.layout_for(mod, fns[0], n)
    st = run_members(rep, SV_RULES[twin], repo, mod, members, lay, peel=2 * n + 3, label=label,
                     cls='igris::static_vector<', rename=lambda s: s.replace('<VTr, %dul>' % n, '<VTr, N>'),
                     part_prefix='N=%d,' % n)
    return st, len(members)


EXPLANATION = (
    ' Contents (rules R-IDENT-SVEC for static_vector.h, R-IDENT-SVEC-TWIN for the std_portable.h twin): next to the '
    'RAW/LIVE typestate every LIVE slot of static_vector<VTr,N> carries the identity of the value it holds (element i of '
    '*this or of the other container on entry, the value argument, element k of the source range, default-constructed, '
    'moved-from/unspecified), propagated through the external copy/move constructors and assignments of the probe type '
    '(copy: id(dst) := id(src); move: additionally id(src) := moved-from; destroy: none; raw byte write: unspecified). '
    'Per member and per partition of the entry states (size 0..N, positions, counts 0..2N, value argument owned by the '
    'caller or an element of the container, self-assignment; N = 4, 2, 1) the identities in [0, m_size) at every return '
    'are compared with the reference sequence: erase(first,last) = old[0,first) ++ old[last,size); push_back/emplace_back '
    'append the argument value when there is room and change nothing when full; resize keeps the common prefix and '
    'default-constructs the rest (clamped at N); copy/move construction and assignment yield the other sequence (copy '
    'leaves the source as it was, self-assignment changes nothing); range / initializer-list construction keeps the '
    'first min(len, N) source elements in order; clear leaves none; operator[]/front/back return the address of the slot '
    'holding the right element, begin/data/end the positions 0 and size; observers leave the sequence alone. Not '
    'decided: the int instantiation (no events: its values live in raw memory), exception paths, capacities other than '
    'those listed (no N-dependent case in the code), element values other than by identity (a copy constructor is '
    'assumed to copy).')


def run_ext(rep, repo, tier):
    """called at the end of c14.run"""
    rep.explanation = (rep.explanation or '').replace('content equality is not decided here; ', '') + EXPLANATION
    rep.assumptions += ['content rules: the element copy/move constructors and assignments transfer the value (identity) of '
                        'their source; a moved-from element holds an unspecified value',
                        'content rules: same preconditions as the lifetime rules (erase with begin() <= first <= last <= '
                        'end(), operator[] below size(), front/back on a non-empty container)']
    caps = [4, 2, 1] if tier != 'thorough' else [4, 2, 1, 3, 6]
    expected = {False: 0, True: 0}
    partitions = 0
    for n in caps:
        for twin in (False, True):
            st, nm = run_sv_unit(rep, repo, tier, twin, n)
            rep.units.append('witness/w_life_staticvec.cpp -DLIFE_N=%d%s -> content of static_vector<VTr,%d>'
                             % (n, ' -DLIFE_TWIN' if twin else '', n))
            expected[twin] += nm
            partitions += st['partitions']
    for twin in (False, True):
        rep.floor(SV_RULES[twin] + ':analysed', expected[twin])
        rep.floor(SV_RULES[twin] + ':content', 50 if twin else 56)
        rep.floor(SV_RULES[twin] + ':result', 10)
    if partitions < (850 if tier != 'thorough' else 2200):
        raise AnalysisBroken('content rules: only %d (member, partition) pairs analysed' % partitions)


# ----------------------------------------------------------------------------------------------------------------
# reference semantics: igris::vector<T>  (property C02 shares the technique; call run_ext_vec from c02.run)
# ----------------------------------------------------------------------------------------------------------------
def expect_vec(f, part):
    """reference result of member f of igris::vector<VTr> in partition part (None: no content clause)"""
    b = base_name(f)
    np_ = len(f.params)
    A = args_in_order(f, part)
    kinds = [a[1][0] for a in A]
    s = part.this[0] if part.this is not None else 0
    me = old('this', s)
    if b == 'vector':
        if part.other is not None:
            return Expect(this=old('other', part.other[0]))
        if kinds in (['range'], ['ilist']):
            return Expect(this=old('range', A[0][1][1]))
        if kinds == ['int']:
            return Expect(this=[DEFAULT] * A[0][1][1])
        if not A:
            return Expect(this=[])
        return None
    if b == '~vector':
        return Expect()
    if b == 'operator=' and part.other is not None:
        return Expect(this=me if part.same else old('other', part.other[0]))
    if b in ('at', 'operator[]') and kinds == ['int']:
        return Expect(this=me, result=('elem', ('this', A[0][1][1])))
    if b == 'front' and np_ == 1:
        return Expect(this=me, result=('elem', ('this', 0)))
    if b == 'back' and np_ == 1:
        return Expect(this=me, result=('elem', ('this', s - 1)))
    if b in ('begin', 'data') and np_ == 1:
        return Expect(this=me, result=('pos', 0))
    if b == 'end' and np_ == 1:
        return Expect(this=me, result=('pos', s))
    if b in ('reserve', 'changeBuffer') and kinds == ['int']:
        return Expect(this=me)
    if b == 'resize' and kinds == ['int']:
        k = A[0][1][1]
        return Expect(this=me[:k] + [DEFAULT] * max(0, k - s))
    if b in ('push_back', 'emplace_back') and len(A) <= 1:
        irefs = [p for p in f.params[1:] if is_int_ref(p)]
        if A:
            v = value_of(f, A[0][0], A[0][1], me)
        elif irefs and np_ == 2:
            v = ('int', 'value')
        elif np_ == 1:
            v = DEFAULT
        else:
            return None
        return Expect(this=me + [v])
    if b == 'pop_back' and np_ == 1:
        return Expect(this=me[:-1])
    if b in ('emplace', 'insert') and len(A) == 2 and kinds[0] in ('slot', 'int') and kinds[1] in ('foreign', 'slot'):
        p = A[0][1][1]
        v = value_of(f, A[1][0], A[1][1], me)
        return Expect(this=me[:p] + [v] + me[p:], result=('pos', p))
    if b == 'insert' and kinds == ['slot', 'slot', 'slot']:
        p, a, c = A[0][1][1], A[1][1][1], A[2][1][1]
        return Expect(this=me[:p] + me[a:c] + me[p:], result=('pos', p))
    if b == 'insert' and kinds == ['slot', 'range']:
        p = A[0][1][1]
        return Expect(this=me[:p] + old('range', A[1][1][1]) + me[p:], result=('pos', p))
    if b == 'erase' and kinds == ['slot']:
        return Expect(this=me[:A[0][1][1]])
    if b == 'erase' and kinds == ['slot', 'slot']:
        return Expect(this=me[:A[0][1][1]] + me[A[1][1][1]:])
    if b in ('clear', 'invalidate') and np_ == 1:
        return Expect(this=[])
    if b in ('size', 'capacity', 'empty', 'rbegin', 'rend') and np_ == 1:
        return Expect(this=me)
    return observer(f, part, me)


VEC_RULE = 'R-IDENT-VEC'
VEC_REQUIRED = {'vector': 8, 'operator=': 2, 'invalidate': 1, 'reserve': 1, 'changeBuffer': 1, 'clear': 1, 'push_back': 1,
                'emplace_back': 4, 'pop_back': 1, 'emplace': 2, 'insert': 3, 'resize': 1, 'erase': 2, 'at': 2,
                'operator[]': 2, 'front': 2, 'back': 2, 'begin': 2, 'end': 2}

VEC_EXPLANATION = (
    ' Contents (rule R-IDENT-VEC): every LIVE slot of every heap block of igris::vector<VTr> carries the identity of the '
    'value it holds (see C14 R-IDENT-SVEC), propagated through the copy/move constructors and assignments of the probe '
    'type, through reallocation (changeBuffer) and through the temporaries that emplace/insert build. Per member and per '
    'partition of the lifetime rules (m_size 0..4, m_capacity m_size..5 and the block-less state, positions, counts, value '
    'argument owned by the caller or an element of the vector, source range inside the vector or owned by the caller, '
    'self-assignment) the identities in [0, m_size) of the block in m_data at every return are compared with the reference '
    'sequence: emplace/insert(pos, x) = old[0,pos) ++ [x] ++ old[pos,size) where x is the value the argument had on entry '
    '(also when it is an element of the vector), insert(pos, first, last) likewise with the source range, '
    'erase(first,last) = old[0,first) ++ old[last,size), erase(newend) the prefix, push_back/emplace_back append, pop_back '
    'drops the last, resize keeps the common prefix and default-constructs the rest, vector(n) is n default-constructed '
    'elements, range/initializer-list construction copies the source in order, copy construction/assignment yields the '
    'other sequence and leaves the source alone, move construction/assignment yields the other sequence, reserve/'
    'changeBuffer keep the sequence, clear/invalidate leave none; at/operator[]/front/back return the address of the slot '
    'holding the right element, begin/data/end and the iterator returned by emplace/insert the right position. Not '
    'decided: the int instantiation, exception paths, insert_sorted/operator==/operator< (not instantiable for the probe '
    'type), sizes above the partition (code uniform in the size).')


def run_ext_vec(rep, repo, tier):
    """content clauses of igris::vector<VTr>; to be called at the end of c02.run"""
    import c02_life
    rep.explanation = (rep.explanation or '') + VEC_EXPLANATION
    rep.assumptions += ['content rules: the element copy/move constructors and assignments transfer the value (identity) of '
                        'their source; a moved-from element holds an unspecified value']
    sz = 4 if tier != 'thorough' else 6
    mod = compile_ir(os.path.join(WIT, 'w_life_vector.cpp'), repo, exceptions=True)
    label = 'igris::vector<VTr> sizes 0..%d' % sz
    rep.units.append('witness/w_life_vector.cpp -> content of igris::vector<VTr>')
    L.check_probe(mod)
    fns = class_methods(mod, 'igris::vector<VTr')
    if not fns:
        raise AnalysisBroken('igris::vector<VTr>: no member instantiated')
    members = []
    have = {}
    for f in fns:
        called = any(c.callee == f.name for g in fns if g is not f for c in g.calls())
        if base_name(f) not in c02_life.TODAY and called:
            continue
        mb = c02_life.member_for(f, sz, tier)
        if mb is None:
            if called:
                continue
            raise AnalysisBroken('igris::vector<VTr>: no partition for member %s%s' % (f.qualname, sig_suffix(f)))
        exs = [expect_vec(f, p) for p in mb.parts]
        if any(e is None for e in exs):
            if base_name(f) not in VEC_REQUIRED and called:
                continue
            raise AnalysisBroken('igris::vector<VTr>: member %s%s has no reference semantics (signature changed?)'
                                 % (f.qualname, sig_suffix(f)))
        if any(p.other is not None for p in mb.parts) and copy_overload(mod, f):
            for p, e in zip(mb.parts, exs):
                if p.other is not None and not p.same:
                    e.other = old('other', p.other[0])
        members.append((f, mb, exs))
        have[base_name(f)] = have.get(base_name(f), 0) + 1
    for k, c in VEC_REQUIRED.items():
        if have.get(k, 0) < c:
            raise AnalysisBroken('igris::vector<VTr>: member %s has %d overload(s) with a content clause, expected >= %d '
                                 '(anchor vanished or witness out of date)' % (k, have.get(k, 0), c))
    lay = c02_life.layout_for(mod, fns[0])
    st = run_members(rep, VEC_RULE, repo, mod, members, lay, peel=2 * sz + 6, label=label, cls='igris::vector<')
    rep.floor(VEC_RULE + ':analysed', len(members))
    rep.floor(VEC_RULE + ':content', 80)
    rep.floor(VEC_RULE + ':result', 16)
    if st['partitions'] < (3000 if tier != 'thorough' else 8500):
        raise AnalysisBroken('content rules: only %d (member, partition) pairs analysed' % st['partitions'])
