"""C20 system lock, wait queues, event, safe_queue.

Decided (static, per path - never per schedule):
  R-LOCKBAL     lockset dataflow: every path from a lock acquisition reaches exactly one matching
                release before each return, no release of a lock that is not held
  R-GUARDED     must-hold lockset at every access to guarded state (wait lists, waiter records,
                fallback semaphore count, event flag, safe_queue members, shared debug global)
  R-NOTIFYHELD  event members touch nothing of *this after m_mutex was released
  R-PREDWAIT    condition_variable::wait/wait_for is the predicate overload on (m_condition, guard of
                m_mutex) and the predicate is the latched flag
  R-LATCH       signal() latches the flag (stores true under the lock, before notify_all)
  R-ENQBLOCK    wait_current_schedee publishes callback+object, enqueues its own node under the lock on
                every path, and only then blocks on its own event with the system lock not held
  R-ORDER       priority waiters are queued at the end unwait_one/unwait_all dequeue from, others at the
                opposite end
  R-WAKE        a waiter is woken only after its node was unlinked, inside the system-lock critical
                section; unwait_one wakes exactly one, unwait_all loops until the list is empty
  R-ATOMICPARK  the test of guarded state that decides to park and the enqueue are one critical section
  R-DEPTH       closed-form contract of system_lock/unlock/save/restore: thread-local depth and number of
                recursive_mutex operations (abstract interpretation with ghost counters)
  R-SEMWRAP     igris::semaphore forwards each operation to the matching sem_* function on its own sem_t;
                safe_queue initialises its semaphore to 1 (binary)
  R-SEMCOUNT    fallback semaphore: count >= 0 is an invariant, +-1 closed forms
Undecided: everything that quantifies over schedules.
"""
from common import *
from irlib import V, demangle, tyname
from absval import IntVal, PtrVal
from absint import ext_pure
from lin import Lin
from contracts import ContractRun
from c20_lockflow import (Flow, lock_events, trace, gep_field, ptr_name, base_name, dem, derived, uses_of,
                          is_alloca, resolve, slot_value, CAP)

NO_HAS_INCLUDE = ['-D__has_include(x)=0']


def qn(f):
    return f.qualname


def need(mod, pred, what):
    c = [f for f in mod.defined() if pred(f)]
    if not c:
        raise AnalysisBroken('%s not found in %s (anchor vanished?)' % (what, mod.path))
    return c


def one(mod, srcname, scope=None):
    c = [f for f in mod.defined() if f.srcname == srcname and (scope is None or f.scope.startswith(scope))]
    if len(c) != 1:
        raise AnalysisBroken('function %s%s: %d definitions in %s' % (scope or '', srcname, len(c), mod.path))
    return c[0]


def calls_to(f, pred):
    return [i for i in f.all_insts() if i.op in ('call', 'invoke') and i.callee and pred(base_name(i.callee), i)]


def fn_where(f):
    return '%s:%d' % (f.file, f.line)


# ----------------------------------------------------------------------------------------------
# R-LOCKBAL
# ----------------------------------------------------------------------------------------------
def lockbal(rep, fl, expect_exit=None, rule='R-LOCKBAL'):
    """fl: Flow. One instance per lock touched by the function."""
    f = fl.f
    expect_exit = expect_exit or {}
    exits = fl.exits()
    if not exits:
        raise AnalysisBroken('%s has no reachable return' % qn(f))
    for lk in fl.locks:
        want = expect_exit.get(lk, fl.entry.get(lk, 0))
        ok = True
        detail = None
        where = fn_where(f)
        for (i, l2) in fl.bad_release:
            if l2 == lk:
                ok = False
                where = i.where()
                detail = ('%s is released here although it is not held on every path reaching this point '
                          '(depth on entry %d)' % (lk, fl.entry.get(lk, 0)))
                break
        if ok:
            for (r, s) in exits:
                lo, hi = s.depth.get(lk, (0, 0))
                if lo != want or hi != want:
                    ok = False
                    where = r.where()
                    if hi >= CAP or lo <= -CAP:
                        detail = '%s is acquired/released an unbounded number of times around a loop' % lk
                    else:
                        detail = ('at this return %s is held %s time(s) (expected exactly %d, %d on entry): some path '
                                  'from an acquisition misses its release or releases twice' % (
                                      lk, ('%d' % lo) if lo == hi else 'between %d and %d' % (lo, hi), want,
                                      fl.entry.get(lk, 0)))
                    break
        rep.inst(rule, qn(f), 'balanced:%s' % lk, ok, where, detail,
                 fact={'lock': lk, 'entry': fl.entry.get(lk, 0), 'exit': want, 'returns': len(exits)})


def guarded(rep, fl, inst, lock, key, what, rule='R-GUARDED'):
    s = fl.at(inst)
    if s is None:
        return
    ok = s.holds(lock)
    detail = None
    if not ok:
        if lock in s.released:
            detail = '%s: %s may already have been released on a path reaching this point' % (what, lock)
        else:
            detail = '%s without holding %s on every path reaching this point' % (what, lock)
    rep.inst(rule, qn(fl.f), key, ok, inst.where(), detail, fact={'lock': lock, 'depth': list(s.depth.get(lock, (0, 0)))})


# ----------------------------------------------------------------------------------------------
# wait lists / waiters / fallback semaphore   (units wait.cpp, wait-linux.cpp, semaphore.cpp)
# ----------------------------------------------------------------------------------------------
LIST_STRUCTS = ('class.igris::dlist_node', 'class.igris::dlist_base', 'struct.dlist_head')
REQUIRES_SYSLOCK = {'waiter_unwait': 'called by unwait_one/unwait_all inside their critical section'}
INITIALISERS = ('sem_init',)


def is_list_op(b):
    if b.startswith('igris::dlist_base::') or b.startswith('igris::dlist_node::'):
        last = b.rsplit('::', 1)[-1]
        return not (last.startswith('~') or last in ('dlist_base', 'dlist_node'))
    return b.startswith('dlist_') or b.startswith('__dlist_')


def unit_functions(mod, repo, rel):
    fs = [f for f in mod.defined() if relpath(repo, f.file) == rel]
    return fs


def waitlist_rules(rep, mod, repo, rel, floor_fns):
    fs = unit_functions(mod, repo, rel)
    if len(fs) < floor_fns:
        raise AnalysisBroken('%s defines %d function(s), expected at least %d' % (rel, len(fs), floor_fns))
    flows = {}
    for f in fs:
        if f.srcname.startswith('~') or f.srcname == f.scope.rstrip(':').rsplit('::', 1)[-1]:
            continue    # implicit constructors / destructors of local record types
        entry = {'syslock': 1} if f.name in REQUIRES_SYSLOCK else {}
        fl = Flow(f, mod, entry=entry)
        flows[f.name] = fl
        if fl.locks:
            lockbal(rep, fl)
        if f.name in INITIALISERS:
            continue
        for i in f.all_insts():
            if i.op in ('call', 'invoke') and i.callee:
                b = base_name(i.callee)
                if is_list_op(b):
                    # list operations on a node of the function's own stack record that was never
                    # enqueued are private; everything else is shared
                    guarded(rep, fl, i, 'syslock', 'wait-list:%s' % b, 'wait-list operation %s' % b)
                elif i.callee in REQUIRES_SYSLOCK:
                    guarded(rep, fl, i, 'syslock', 'call:%s' % i.callee,
                            'call of %s (which accesses the waiter record and requires the system lock)' % i.callee)
            elif i.op in ('load', 'store'):
                p = i.ops[0] if i.op == 'load' else i.ops[1]
                st, fld = gep_field(f, mod, p)
                if st is None:
                    continue
                root, _ = trace(f, p)
                if is_alloca(f, root):
                    continue        # own stack record: ordering is decided by R-ENQBLOCK
                if st in LIST_STRUCTS:
                    guarded(rep, fl, i, 'syslock', 'wait-list:%s %s' % (i.op, fld), 'direct %s of list link %s' % (i.op, fld))
                elif st == 'class.waiter':
                    guarded(rep, fl, i, 'syslock', 'waiter:%s %s' % (i.op, fld), '%s of waiter field %s' % (i.op, fld))
                elif st == 'struct.semaphore' and fld == 'count':
                    guarded(rep, fl, i, 'syslock', 'semaphore:%s count' % i.op, '%s of the semaphore count' % i.op)
    return flows


def node_of_wake(f, i):
    """SSA value passed as node to waiter_unwait"""
    return i.ops[0]


def wake_rules(rep, mod, flows):
    """wait.cpp: unwait_one / unwait_all / waiter_unwait"""
    u1 = one(mod, 'unwait_one')
    ua = one(mod, 'unwait_all')
    wu = one(mod, 'waiter_unwait')
    for f in (u1, ua):
        fl = flows[f.name]
        wakes = f.calls('waiter_unwait')
        rep.inst('R-WAKE', qn(f), 'wakes-through-waiter_unwait', len(wakes) == 1, fn_where(f),
                 None if len(wakes) == 1 else '%d calls of waiter_unwait (expected exactly one wake site)' % len(wakes))
        for w in wakes:
            node = w.ops[0]
            ni = f.inst_of(node)
            from_first = (ni is not None and ni.op == 'call' and base_name(ni.callee or '') == 'igris::dlist_base::first_node'
                          and ni.ops[0].k == 'arg' and ni.ops[0].argno == 0)
            rep.inst('R-ORDER', qn(f), 'wakes-first-node-of-arg0', from_first, w.where(),
                     None if from_first else 'the woken node is not head->first_node() of the list passed as arg0: the longest '
                     'waiting / prioritised waiter is at the front')
            unl = [c for c in f.all_insts() if c.op == 'call' and base_name(c.callee or '') == 'igris::dlist_node::unlink'
                   and c.ops[0].key() == node.key() and f.dominates(c, w)]
            s = fl.at(w)
            ok = bool(unl) and s is not None and s.holds('syslock') and all(fl.at(c).holds('syslock') for c in unl)
            rep.inst('R-WAKE', qn(f), 'unlink-before-wake-in-critical-section', ok, w.where(),
                     None if ok else ('the node handed to waiter_unwait is not unlinked (dlist_node::unlink on the same node, '
                                      'dominating the call, system lock held): a waiter woken while still queued is woken a '
                                      'second time after it has destroyed its record'))
            passes = len(w.ops) >= 2 and w.ops[1].k == 'arg' and w.ops[1].argno == 1
            rep.inst('R-WAKE', qn(f), 'passes-future-arg1', passes, w.where(),
                     None if passes else 'the future value given to the waiter is not the caller\'s arg1')
    # unwait_one: exactly one wake, none when empty
    w = u1.calls('waiter_unwait')
    if w:
        w = w[0]
        in_loop = any(w.block in L['blocks'] for L in u1.loops)
        ok, why = nonempty_edge_dominates(u1, w)
        rep.inst('R-WAKE', qn(u1), 'exactly-one-wake-iff-nonempty', ok and not in_loop, w.where(),
                 None if ok and not in_loop else ('the wake site is inside a loop' if in_loop else why))
    w = ua.calls('waiter_unwait')
    if w:
        w = w[0]
        L = [L for L in ua.loops if w.block in L['blocks']]
        ok = False
        why = 'the wake site is not inside a loop'
        if L:
            L = L[0]
            ok = True
            why = None
            for (frm, to) in L['exits']:
                if to.term.op == 'unreachable':
                    continue
                e = empty_edge(ua, frm, to)
                if e is not True:
                    ok = False
                    why = ('the loop can be left at %s although head->empty() was not observed true: waiters may stay '
                           'queued' % frm.term.where())
        rep.inst('R-WAKE', qn(ua), 'loops-until-list-empty', ok, w.where(), why)
    # waiter_unwait: store future, then w->func(w->obj)
    f = wu
    ic = [i for i in f.all_insts() if i.op == 'call' and i.callee is None]
    ok = len(ic) == 1
    detail = None if ok else '%d indirect calls (expected the single callback invocation)' % len(ic)
    if ok:
        c = ic[0]
        cv = f.inst_of(c.callee_v)
        st1, fld1 = (gep_field(f, mod, cv.ops[0]) if cv is not None and cv.op == 'load' else (None, None))
        a = f.inst_of(c.ops[0]) if c.ops else None
        if a is not None and a.op == 'inttoptr':
            a = f.inst_of(a.ops[0])
        st2, fld2 = (gep_field(f, mod, a.ops[0]) if a is not None and a.op == 'load' else (None, None))
        r1 = trace(f, cv.ops[0])[0] if cv is not None and cv.op == 'load' else None
        r2 = trace(f, a.ops[0])[0] if a is not None and a.op == 'load' else None
        ok = (st1, fld1) == ('class.waiter', 'func') and (st2, fld2) == ('class.waiter', 'obj') and \
            r1 is not None and r2 is not None and r1.key() == r2.key() == ('a', 0)
        detail = None if ok else 'the callback invoked is %s.%s(%s.%s), expected w->func(w->obj) of the waiter at arg0' % (
            st1, fld1, st2, fld2)
        rep.inst('R-WAKE', qn(f), 'invokes-func(obj)-of-arg0', ok, c.where(), detail)
        sts = [i for i in f.all_insts() if i.op == 'store' and gep_field(f, mod, i.ops[1]) == ('class.waiter', 'future')]
        ok2 = len(sts) == 1 and sts[0].ops[0].k == 'arg' and sts[0].ops[0].argno == 1 and f.dominates(sts[0], c)
        rep.inst('R-WAKE', qn(f), 'future-stored-before-callback', ok2, c.where(),
                 None if ok2 else 'w->future = arg1 must be stored (once) before the callback signals the waiter: the waiter '
                 'reads it right after waking up')
    else:
        rep.inst('R-WAKE', qn(f), 'invokes-func(obj)-of-arg0', False, fn_where(f), detail)


def empty_call_of(f, cond):
    """cond is (possibly negated) result of dlist_base::empty(arg0) / dlist_empty: returns (call, negated)"""
    neg = False
    v = cond
    for _ in range(6):
        i = f.inst_of(v)
        if i is None:
            return None, neg
        if i.op == 'xor' and any(o.k == 'ci' and o.ival in (1, -1) for o in i.ops):
            neg = not neg
            v = [o for o in i.ops if o.k != 'ci'][0]
            continue
        if i.op == 'icmp' and any(o.k == 'ci' and o.ival == 0 for o in i.ops):
            if i.pred == 'eq':
                neg = not neg
            elif i.pred != 'ne':
                return None, neg
            v = [o for o in i.ops if o.k != 'ci'][0]
            continue
        if i.op in ('zext', 'trunc'):
            v = i.ops[0]
            continue
        if i.op == 'call' and base_name(i.callee or '') in ('igris::dlist_base::empty', 'dlist_empty'):
            return i, neg
        return None, neg
    return None, neg


def empty_edge(f, frm, to):
    """True if edge frm->to is taken exactly when head->empty() is true, False when it is the non-empty edge,
    None when the branch does not test emptiness"""
    t = frm.term
    if t.op != 'br' or 'f' not in t.d:
        return None
    c, neg = empty_call_of(f, t.ops[0])
    if c is None:
        return None
    r_, _ = trace(f, c.ops[0])
    if not (r_.k == 'arg' and r_.argno == 0):
        return None
    on_true = (t.d['t'] == to.name)
    on_false = (t.d['f'] == to.name)
    if on_true and on_false:
        return None
    empty_when_true = not neg
    return empty_when_true if on_true else (not empty_when_true)


def nonempty_edge_dominates(f, site):
    for b in f.blocks:
        for s in b.succs:
            if empty_edge(f, b, s) is False and len(s.preds) == 1 and f.dominates_block(s, site.block):
                return True, None
    return False, 'the wake site is not confined to the non-empty branch of head->empty()'


def enqblock_rules(rep, mod, flows):
    """wait-linux.cpp: wait_current_schedee, __unwait_handler, unwait_schedee_waiter"""
    f = one(mod, 'wait_current_schedee')
    fl = flows[f.name]
    name = qn(f)
    waits = calls_to(f, lambda b, i: b == 'igris::event::wait' or b.startswith('igris::event::wait<'))
    rep.inst('R-ENQBLOCK', name, 'blocks-on-an-event', len(waits) >= 1, fn_where(f),
             None if waits else 'no call of igris::event::wait found')
    enq = calls_to(f, lambda b, i: b in ('igris::dlist_base::move_front', 'igris::dlist_base::move_back'))
    # must-fact dataflow: 'enq' after an enqueue of the own node under the lock
    gens = {}
    own = None
    for e in enq:
        root, off = trace(f, e.ops[1])
        s = fl.at(e)
        if is_alloca(f, root) and e.ops[0].k == 'arg' and e.ops[0].argno == 0:
            own = (root, off)
            if s is not None and s.holds('syslock'):
                gens[e.id] = {'enq'}
    fl2 = Flow(f, mod, gens=gens, events=fl.events)
    for w in waits:
        s = fl2.at(w)
        ok = s is not None and 'enq' in s.facts
        rep.inst('R-ENQBLOCK', name, 'enqueue-under-lock-on-every-path-before-block', ok, w.where(),
                 None if ok else 'a path reaches event::wait() without having put the function\'s own waiter node on the list '
                 'passed as arg0 while holding the system lock: nobody can ever wake it')
        ok = s is not None and s.hi('syslock') <= 0
        rep.inst('R-ENQBLOCK', name, 'blocks-without-holding-the-system-lock', ok, w.where(),
                 None if ok else 'event::wait() is reached with the system lock still held by this function: every waker needs '
                 'that lock, so the thread sleeps forever')
        wroot, woff = trace(f, w.ops[0])
        same = own is not None and is_alloca(f, wroot) and wroot.id == own[0].id
        rep.inst('R-ENQBLOCK', name, 'waits-on-the-event-of-the-enqueued-record', same, w.where(),
                 None if same else 'the event waited on does not belong to the stack record whose node was enqueued')
        # registration: func / obj stored before the enqueue
        if not same:
            for k_ in ('callback-registered-before-enqueue', 'registers-itself-and-a-callback-signalling-its-event',
                       'future-read-after-wake-up'):
                rep.inst('R-ENQBLOCK', name, k_, False, w.where(), 'not decidable: the event waited on is not part of the '
                         'enqueued stack record')
        else:
            rec = wroot
            stf = [i for i in f.all_insts() if i.op == 'store' and gep_field(f, mod, i.ops[1]) == ('class.waiter', 'func')
                   and trace(f, i.ops[1])[0].key() == rec.key()]
            sto = [i for i in f.all_insts() if i.op == 'store' and gep_field(f, mod, i.ops[1]) == ('class.waiter', 'obj')
                   and trace(f, i.ops[1])[0].key() == rec.key()]
            pub = bool(stf) and bool(sto) and bool(enq) and all(any(f.dominates(s_, e) for s_ in stf) and
                                                                 any(f.dominates(s_, e) for s_ in sto) for e in enq)
            rep.inst('R-ENQBLOCK', name, 'callback-registered-before-enqueue', pub, w.where(),
                     None if pub else 'waiter.func / waiter.obj must be stored before the node becomes visible on the list '
                     '(a waker may run immediately after the enqueue)')
            # obj is the record itself, func signals the event at the same offset
            objok = False
            for s_ in sto:
                v = f.inst_of(s_.ops[0])
                if v is not None and v.op == 'ptrtoint':
                    r, o = trace(f, v.ops[0])
                    objok = r.key() == rec.key() and o == 0
            hand = None
            for s_ in stf:
                if s_.ops[0].k == 'func':
                    hand = mod.fn(s_.ops[0].name)
            hok = False
            hwhy = 'waiter.func is not a function of this unit'
            if hand is not None and not hand.decl:
                sig = calls_to(hand, lambda b, i: b == 'igris::event::signal')
                hok = len(sig) == 1
                hwhy = 'the registered callback %s does not signal exactly one event' % qn(hand)
                if hok:
                    r, o = trace(hand, sig[0].ops[0])
                    hok = r.k == 'arg' and r.argno == 0 and o == woff
                    hwhy = ('the registered callback signals the event at offset %s of its argument, the sleeper waits on '
                            'offset %s of the record it registered' % (o, woff))
                direct = [c for g in mod.defined() for c in g.all_insts()
                          if c.op in ('call', 'invoke') and c.callee == hand.name]
                rep.inst('R-WAKE', qn(hand), 'callback-only-invoked-through-waiter.func', not direct,
                         direct[0].where() if direct else fn_where(hand),
                         None if not direct else 'the wake callback is called directly, bypassing unlink-under-lock in unwait_*')
            rep.inst('R-ENQBLOCK', name, 'registers-itself-and-a-callback-signalling-its-event', objok and hok, w.where(),
                     None if objok and hok else ('waiter.obj is not the address of the record' if not objok else hwhy))
            # result read after wake-up
            lds = [i for i in f.all_insts() if i.op == 'load' and gep_field(f, mod, i.ops[0]) == ('class.waiter', 'future')
                   and trace(f, i.ops[0])[0].key() == rec.key()]
            okl = bool(lds) and all(f.dominates(w, l) for l in lds)
            rep.inst('R-ENQBLOCK', name, 'future-read-after-wake-up', okl, w.where(),
                     None if okl else 'waiter.future is read before the blocking wait returned')
    # priority order
    t = None
    for b in f.blocks:
        br = b.term
        if br.op == 'br' and 'f' in br.d and br.ops[0].k == 'inst':
            c = f.insts[br.ops[0].id]
            if c.op == 'icmp' and c.pred in ('ne', 'eq') and any(o.k == 'arg' and o.argno == 1 for o in c.ops) and \
                    any(o.k == 'ci' and o.ival == 0 for o in c.ops):
                t = (b, br, c)
    ok = False
    why = 'no branch on priority (arg1) != 0 selecting the enqueue end'
    if t is not None:
        b, br, c = t
        prio_bb = f.bmap[br.d['t'] if c.pred == 'ne' else br.d['f']]
        norm_bb = f.bmap[br.d['f'] if c.pred == 'ne' else br.d['t']]
        fr = [e for e in enq if base_name(e.callee) == 'igris::dlist_base::move_front']
        bk = [e for e in enq if base_name(e.callee) == 'igris::dlist_base::move_back']
        ok = (len(fr) == 1 and len(bk) == 1 and len(prio_bb.preds) == 1 and len(norm_bb.preds) == 1 and
              f.dominates_block(prio_bb, fr[0].block) and f.dominates_block(norm_bb, bk[0].block))
        why = ('priority != 0 must enqueue with move_front (the end unwait_one takes from), priority == 0 with move_back; '
               'found move_front in %s, move_back in %s' % ([e.block.name for e in fr], [e.block.name for e in bk]))
    rep.inst('R-ORDER', name, 'priority-front-else-back', ok, fn_where(f), None if ok else why)
    rets = f.returns()
    okr = all(r.ops and r.ops[0].k == 'ci' and r.ops[0].ival == 0 for r in rets)
    rep.inst('R-ENQBLOCK', name, 'returns-0', okr, fn_where(f), None if okr else 'a successful wake-up must return 0 (callers '
             'treat non-zero as failure and skip re-acquiring)')

    # other wakers in this unit: event::signal reached from a waiter pointer
    handlers = set()
    for g in mod.defined():
        for i in g.all_insts():
            if i.op == 'store' and i.ops[0].k == 'func' and gep_field(g, mod, i.ops[1]) == ('class.waiter', 'func'):
                handlers.add(i.ops[0].name)
    if not handlers:
        raise AnalysisBroken('no wake callback is registered in waiter.func (anchor vanished?)')
    lw = mod.structs.get('struct.linux_waiter')
    if lw is None:
        raise AnalysisBroken('struct linux_waiter not found')
    off_w = mod.field_off('struct.linux_waiter', 'w')
    off_ev = mod.field_off('struct.linux_waiter', 'event')
    off_lnk = mod.field_off('class.waiter', 'lnk')
    if None in (off_w, off_ev, off_lnk):
        raise AnalysisBroken('linux_waiter{w,event} / waiter.lnk members not found in debug info')
    n = 0
    for g in unit_functions(mod, rep.repo, 'igris/osinter/wait-linux.cpp'):
        if g.name in handlers or g.name == f.name:
            continue
        for sgn in calls_to(g, lambda b, i: b == 'igris::event::signal'):
            n += 1
            fl_g = flows[g.name]
            r, o = trace(g, sgn.ops[0])
            want = None if o is None else o - off_ev + off_w + off_lnk
            unl = [c for c in g.all_insts() if c.op == 'call' and base_name(c.callee or '') == 'igris::dlist_node::unlink'
                   and trace(g, c.ops[0])[0].key() == r.key() and trace(g, c.ops[0])[1] == want and g.dominates(c, sgn)]
            s = fl_g.at(sgn)
            ok = bool(unl) and s is not None and s.holds('syslock') and all(fl_g.at(c).holds('syslock') for c in unl)
            rep.inst('R-WAKE', qn(g), 'unlink-before-wake-in-critical-section', ok, sgn.where(),
                     None if ok else ('the waiter\'s event is signalled without first unlinking its list node under the system '
                                      'lock: the woken thread destroys its stack record while the node is still queued, so its '
                                      'destructor edits the shared list unlocked and a later unwait_one signals a dead record'))
    rep.extra['direct_wakers_in_wait_linux'] = n


def semproto_rules(rep, mod, flows):
    """fallback semaphore: sem_post hands the unit to a waiter when there is one; a successful sem_wait took a unit"""
    f = one(mod, 'sem_post')
    wk = f.calls('unwait_one')
    ok = len(wk) == 1
    why = '%d calls of unwait_one in sem_post' % len(wk)
    if ok:
        w = wk[0]
        r, off = trace(f, w.ops[0])
        st_, fld = gep_field(f, mod, w.ops[0])
        ok = r.k == 'arg' and r.argno == 0 and fld == 'wait_list'
        why = 'unwait_one is not applied to sem->wait_list'
        if ok:
            # unconditional, or on the non-empty edge of dlist_empty(&sem->wait_list)
            cond = [b for b in f.blocks if len(b.succs) == 2 and any(empty_edge(f, b, s_) is not None for s_ in b.succs)]
            if f.dominates_block(w.block, f.returns()[0].block):
                ok = True
            else:
                ok, why = nonempty_edge_dominates(f, w)
                why = 'unwait_one(&sem->wait_list) is not called on the branch where the wait list is non-empty: waiters are ' \
                      'never woken by sem_post'
            incs = [i for i in f.all_insts() if i.op == 'store' and gep_field(f, mod, i.ops[1]) == ('struct.semaphore', 'count')]
            if ok and not (incs and all(f.dominates(i, w) for i in incs)):
                ok = False
                why = 'the count must be incremented before the waiter is woken (it re-tests the count)'
    rep.inst('R-WAKE', qn(f), 'wakes-one-waiter-when-list-nonempty', ok, fn_where(f), None if ok else why)
    f = one(mod, 'sem_wait')
    decs = []
    for i in f.all_insts():
        if i.op == 'store' and gep_field(f, mod, i.ops[1]) == ('struct.semaphore', 'count'):
            v = f.inst_of(i.ops[0])
            if v is not None and v.op == 'add' and any(o.k == 'ci' and o.ival == -1 for o in v.ops):
                decs.append(i)
    ok = bool(decs)
    why = 'sem_wait never decrements the count'
    n = 0
    for r in f.returns():
        if not r.ops:
            continue
        v = r.ops[0]
        srcs = []
        if v.k == 'ci':
            srcs = [(r.block, v)]
        elif v.k == 'inst' and f.insts[v.id].op == 'phi':
            srcs = [(f.bmap[bn], vv) for (bn, vv) in f.insts[v.id].incoming]
        for (b, vv) in srcs:
            if vv.k == 'ci' and vv.ival == 0:
                n += 1
                if not any(f.dominates_block(d.block, b) for d in decs):
                    ok = False
                    why = 'a path returns 0 (success) without having decremented the count under the lock'
    if n == 0:
        ok = False
        why = 'no success return found'
    rep.inst('R-SEMCOUNT', qn(f), 'success-return-takes-one-unit', ok, fn_where(f), None if ok else why)


def atomicpark_rule(rep, mod, flows):
    """fallback semaphore: the decision to park and the enqueue must be one critical section"""
    for f in mod.defined():
        fl = flows.get(f.name)
        if fl is None:
            continue
        parks = f.calls('wait_current_schedee')
        if not parks:
            continue
        reads = [i for i in f.all_insts() if i.op == 'load' and gep_field(f, mod, i.ops[0]) == ('struct.semaphore', 'count')]
        for p in parks:
            s = fl.at(p)
            ok = not reads or (s is not None and s.holds('syslock'))
            rep.inst('R-ATOMICPARK', qn(f), 'count-test-and-enqueue-in-one-critical-section', ok, p.where(),
                     None if ok else ('the system lock is released between the test of sem->count and the enqueue inside '
                                      'wait_current_schedee: a sem_post in that window increments the count, finds the wait '
                                      'list empty and wakes nobody; the thread then parks although count > 0 (lost wake-up)'))


# ----------------------------------------------------------------------------------------------
# event
# ----------------------------------------------------------------------------------------------
def this_arg(f):
    for n, p in enumerate(f.params):
        if p['name'] == 'this':
            return n
    raise AnalysisBroken('%s has no this parameter' % qn(f))


def event_rules(rep, mod):
    members = need(mod, lambda f: f.scope == 'igris::event::', 'members of igris::event')
    names = set(f.srcname.split('<')[0] for f in members)
    for w in ('wait', 'signal', 'reset', 'isset'):
        if w not in names:
            raise AnalysisBroken('igris::event::%s not instantiated by the witness' % w)
    M = 'this.m_mutex'
    est = mod.structs.get('class.igris::event')
    foff = mod.field_off('class.igris::event', 'm_bFlag')
    if est is None or foff is None or mod.field_off('class.igris::event', 'm_mutex') is None or \
            mod.field_off('class.igris::event', 'm_condition') is None:
        raise AnalysisBroken('igris::event no longer has the members m_bFlag / m_mutex / m_condition')
    fty = [x['ty'] for x in est['fields'] if x['off'] == foff]
    if not fty or fty[0].get('k') != 'int':
        raise AnalysisBroken('igris::event::m_bFlag is no longer a plain bool (rules R-LATCH/R-PREDWAIT need re-anchoring)')
    pred_links = {}     # lambda function name -> True when passed as predicate under the guard of m_mutex
    for f in members:
        if f.srcname in ('event', '~event'):
            continue
        ta = this_arg(f)
        fl = Flow(f, mod)
        if M in fl.locks:
            lockbal(rep, fl)
        lock_insts = set(fl.events)
        der = derived(f, {('a', ta)})
        n_flag = 0
        for (i, desc) in uses_of(f, mod, der, skip=lock_insts):
            s = fl.at(i)
            if s is None:
                continue
            st, fld = (gep_field(f, mod, i.ops[0] if i.op == 'load' else i.ops[1]) if i.op in ('load', 'store') else (None, None))
            if i.op in ('call', 'invoke') and i.callee and base_name(i.callee).startswith(('std::atomic', 'std::__atomic')):
                continue        # atomic operations are race-free whatever the lockset
            if st == 'class.igris::event' and fld == 'm_bFlag':
                n_flag += 1
                guarded(rep, fl, i, M, 'flag:%s m_bFlag' % i.op, '%s of the event flag' % i.op)
            else:
                if not s.holds(M) and M in s.released:
                    rep.inst('R-NOTIFYHELD', qn(f), 'after-release:%s' % desc, False, i.where(),
                             '%s touches the event after m_mutex was released: a waiter that observes the flag may return and '
                             'destroy the event (it lives on the stack of wait_current_schedee) before this access' % desc)
                elif s.holds(M):
                    rep.inst('R-NOTIFYHELD', qn(f), 'under-lock:%s' % desc, True, i.where())
                else:
                    rep.inst('R-GUARDED', qn(f), 'this:%s' % desc, False, i.where(),
                             '%s accesses the event without holding m_mutex' % desc)
        # predicate wait
        if f.srcname.split('<')[0] == 'wait':
            cw = [i for i in f.all_insts() if i.op in ('call', 'invoke') and i.callee and
                  'std::condition_variable::wait' in dem(i.callee)]
            rep.inst('R-PREDWAIT', qn(f), 'blocks-on-condition-variable', len(cw) == 1, fn_where(f),
                     None if len(cw) == 1 else '%d condition_variable wait calls' % len(cw))
            for c in cw:
                d = dem(c.callee)
                timed = 'condition_variable::wait_for' in d or 'condition_variable::wait_until' in d
                has_pred = len(c.ops) == (4 if timed else 3)
                looped = (not has_pred) and flag_loop(f, mod, c)
                rep.inst('R-PREDWAIT', qn(f), 'predicate-overload', has_pred or looped, c.where(),
                         None if has_pred or looped else 'condition_variable::%s is called without a predicate (and not in a '
                         'loop re-testing m_bFlag): a spurious wake-up, or a signal that arrived before the wait, is not '
                         're-checked against the flag' % ('wait_for' if timed else 'wait'))
                cvn = ptr_name(f, mod, c.ops[0])
                groot, goff = trace(f, c.ops[1])
                glk = fl.guards.get((groot.key(), goff))
                ok = cvn == 'this.m_condition' and glk == M
                rep.inst('R-PREDWAIT', qn(f), 'waits-on-m_condition-with-guard-of-m_mutex', ok, c.where(),
                         None if ok else 'waits on %s with a lock on %s; signal() uses m_condition and m_mutex' % (cvn, glk))
                if not has_pred:
                    rep.inst('R-PREDWAIT', qn(f), 'predicate-is-the-latched-flag-of-this', looped, c.where(),
                             None if looped else 'no predicate is passed to the condition variable wait')
                else:
                    pv = resolve(f, c.ops[-1])
                    captured = pv.k == 'arg' and pv.argno == ta
                    callee = mod.fn(c.callee)
                    lam = None
                    # the predicate is invoked by the instantiated library template (wait_for -> wait_until -> pred)
                    frontier = [callee] if callee is not None and not callee.decl else []
                    seen = set()
                    for _depth in range(4):
                        nxt = []
                        for cf in frontier:
                            for k in cf.all_insts():
                                if k.op not in ('call', 'invoke') or not k.callee:
                                    continue
                                tg = mod.fn(k.callee)
                                if tg is None or tg.decl or tg.name in seen:
                                    continue
                                seen.add(tg.name)
                                if tg.srcname == 'operator()' and tg.scope.startswith('igris::event::wait'):
                                    lam = tg
                                elif 'condition_variable' in tg.scope:
                                    nxt.append(tg)
                        frontier = nxt
                    okp = False
                    why = 'predicate function not found in the instantiated wait'
                    if lam is not None:
                        okp, why = lambda_returns_flag(lam, mod)
                        pred_links[lam.name] = captured and ok and s_holds(fl, c, M)
                    rep.inst('R-PREDWAIT', qn(f), 'predicate-is-the-latched-flag-of-this', okp and captured, c.where(),
                             None if okp and captured else (why if not okp else 'the predicate does not capture this'))
            if cw and f.ret.get('k') == 'int' and f.ret.get('bits') == 1:
                pol = ret_polarity(f, cw[0])
                if pol is not None:
                    rep.inst('R-PREDWAIT', qn(f), 'returns-true-iff-flag-seen', pol is True, fn_where(f),
                             None if pol else 'the timed wait must return the result of wait_for (true: flag set, false: timed '
                             'out); it returns the opposite')
        if f.srcname == 'signal':
            latch_rule(rep, f, mod, fl, M, 1)
        if f.srcname == 'reset':
            latch_rule(rep, f, mod, fl, M, 0)
    # predicates: evaluated by condition_variable::wait(lock, pred) with the lock held
    for f in [f for f in mod.defined() if f.srcname == 'operator()' and f.scope.startswith('igris::event::wait')]:
        linked = pred_links.get(f.name, False)
        for i in f.all_insts():
            if i.op in ('load', 'store'):
                st, fld = gep_field(f, mod, i.ops[0] if i.op == 'load' else i.ops[1])
                if st == 'class.igris::event':
                    rep.inst('R-GUARDED', qn(f), 'flag:%s %s (predicate, evaluated under the guard)' % (i.op, fld),
                             linked and i.op == 'load', i.where(),
                             None if linked and i.op == 'load' else 'the predicate is not evaluated under a guard of m_mutex '
                             '(or writes the event)')


def ret_polarity(f, call):
    """True when the function returns the i1 result of 'call' unchanged, False when negated, None when the shape is
    not recognised"""
    rets = f.returns()
    if len(rets) != 1 or not rets[0].ops:
        return None
    v = rets[0].ops[0]
    neg = False
    for _ in range(8):
        if v.k == 'inst' and v.id == call.id:
            return not neg
        i = f.inst_of(v)
        if i is None:
            return None
        if i.op == 'select' and i.ops[1].k == 'ci' and i.ops[2].k == 'ci':
            t, e = i.ops[1].ival & 1, i.ops[2].ival & 1
            if t == e:
                return None
            if t == 0:
                neg = not neg
            v = i.ops[0]
        elif i.op == 'xor' and any(o.k == 'ci' and (o.ival & 1) for o in i.ops):
            neg = not neg
            v = [o for o in i.ops if o.k != 'ci'][0]
        elif i.op in ('zext', 'trunc'):
            v = i.ops[0]
        elif i.op == 'phi':
            # phi [c1, bb1], [c2, bb2] chosen by a branch on the call result
            inc = i.incoming
            if len(inc) != 2 or any(x[1].k != 'ci' for x in inc):
                return None
            for b in f.blocks:
                t = b.term
                if t.op == 'br' and 'f' in t.d and t.ops[0].k == 'inst':
                    cpol = True
                    cv = t.ops[0]
                    ci = f.insts[cv.id]
                    if ci.op == 'xor':
                        cpol = False
                        cv = [o for o in ci.ops if o.k != 'ci'][0]
                    if cv.k == 'inst' and cv.id == call.id:
                        tb, fb = f.bmap[t.d['t']], f.bmap[t.d['f']]
                        val = {}
                        for (bn, vv) in inc:
                            ib = f.bmap[bn]
                            if ib is tb or f.dominates_block(tb, ib) and not f.dominates_block(fb, ib):
                                val[True] = vv.ival & 1
                            elif ib is fb or f.dominates_block(fb, ib):
                                val[False] = vv.ival & 1
                            elif ib is b:
                                # direct edge from the branching block
                                val[t.d['t'] != i.block.name] = vv.ival & 1
                        if set(val) == {True, False} and val[True] != val[False]:
                            same = (val[True] == 1)
                            return (same == cpol) != neg
            return None
        else:
            return None
    return None


def flag_loop(f, mod, c):
    """the plain wait call sits in a loop that is left only on a test of m_bFlag re-read inside the loop"""
    for L in f.loops:
        if c.block not in L['blocks']:
            continue
        exits = [(a, b) for (a, b) in L['exits'] if b.term.op != 'unreachable']
        if not exits:
            continue
        good = True
        for (a, b) in exits:
            t = a.term
            v = t.ops[0] if t.op == 'br' and 'f' in t.d else None
            found = False
            for _ in range(8):
                i = f.inst_of(v) if v is not None else None
                if i is None:
                    break
                if i.op in ('trunc', 'zext'):
                    v = i.ops[0]
                elif i.op in ('icmp', 'xor') and any(o.k == 'ci' for o in i.ops):
                    v = [o for o in i.ops if o.k != 'ci'][0]
                elif i.op == 'load':
                    found = gep_field(f, mod, i.ops[0]) == ('class.igris::event', 'm_bFlag') and i.block in L['blocks']
                    break
                else:
                    break
            good = good and found
        # the flag is tested BEFORE the first block (while-form): in a do { wait } while (!flag) loop a signal that arrived
        # before the wait is never noticed and the thread sleeps on a notification that was already sent
        tested_first = any(f.dominates(a.term, c) for (a, b) in exits)
        if good and tested_first:
            return True
    return False


def s_holds(fl, i, lk):
    s = fl.at(i)
    return s is not None and s.holds(lk)


def lambda_returns_flag(lam, mod):
    rets = lam.returns()
    if len(rets) != 1 or not rets[0].ops:
        return False, 'predicate has no single return value'
    v = rets[0].ops[0]
    for _ in range(6):
        i = lam.inst_of(v)
        if i is None:
            return False, 'predicate does not return a loaded value'
        if i.op in ('trunc', 'zext'):
            v = i.ops[0]
            continue
        if i.op == 'icmp' and i.pred == 'ne' and any(o.k == 'ci' and o.ival == 0 for o in i.ops):
            v = [o for o in i.ops if o.k != 'ci'][0]
            continue
        if i.op == 'load':
            st, fld = gep_field(lam, mod, i.ops[0])
            if (st, fld) == ('class.igris::event', 'm_bFlag'):
                return True, None
            return False, 'predicate returns %s.%s, not the flag m_bFlag' % (st, fld)
        return False, 'predicate returns the result of %s (e.g. a negation), not the flag itself' % i.op
    return False, 'predicate too complex'


def latch_rule(rep, f, mod, fl, M, value):
    sts = [i for i in f.all_insts() if i.op == 'store' and gep_field(f, mod, i.ops[1]) == ('class.igris::event', 'm_bFlag')]
    ok = len(sts) == 1 and sts[0].ops[0].k == 'ci' and (sts[0].ops[0].ival & 1) == value and s_holds(fl, sts[0], M)
    rep.inst('R-LATCH', qn(f), 'stores-%s-under-lock' % ('true' if value else 'false'), ok,
             sts[0].where() if sts else fn_where(f),
             None if ok else '%s() must store %s into m_bFlag exactly once while holding m_mutex (found %s)' % (
                 f.srcname, 'true' if value else 'false', [repr(s.ops[0]) for s in sts]))
    # returned value is computed from the flag as it was before the store
    lds = [i for i in f.all_insts() if i.op == 'load' and gep_field(f, mod, i.ops[0]) == ('class.igris::event', 'm_bFlag')]
    okr = False
    if len(sts) == 1 and f.returns() and f.returns()[0].ops:
        v = f.returns()[0].ops[0]
        neg = False
        for _ in range(8):
            i = f.inst_of(v)
            if i is None:
                break
            if i.op in ('trunc', 'zext'):
                v = i.ops[0]
            elif i.op == 'icmp' and any(o.k == 'ci' and o.ival == 0 for o in i.ops) and i.pred in ('eq', 'ne'):
                if i.pred == 'eq':
                    neg = not neg
                v = [o for o in i.ops if o.k != 'ci'][0]
            elif i.op == 'xor' and any(o.k == 'ci' for o in i.ops):
                neg = not neg
                v = [o for o in i.ops if o.k != 'ci'][0]
            elif i.op == 'load':
                okr = i in lds and f.dominates(i, sts[0]) and s_holds(fl, i, M) and neg == bool(value)
                break
            else:
                break
    rep.inst('R-LATCH', qn(f), 'returns-%s' % ('was-not-signalled' if value else 'was-signalled'), okr, fn_where(f),
             None if okr else 'the result must be derived from the flag read under the lock before it is overwritten')
    if value:
        nt = [i for i in f.all_insts() if i.op in ('call', 'invoke') and i.callee and
              base_name(i.callee).startswith('std::condition_variable::notify_')]
        okn = len(nt) == 1 and base_name(nt[0].callee) == 'std::condition_variable::notify_all' and \
            ptr_name(f, mod, nt[0].ops[0]) == 'this.m_condition' and len(sts) == 1 and f.dominates(sts[0], nt[0])
        rep.inst('R-LATCH', qn(f), 'notify_all-after-flag-store', okn, nt[0].where() if nt else fn_where(f),
                 None if okn else 'signal() must call m_condition.notify_all() exactly once after setting the flag '
                 '(notify_one leaves other waiters of the event asleep)')


# ----------------------------------------------------------------------------------------------
# safe_queue / semaphore wrapper / syslock wrappers
# ----------------------------------------------------------------------------------------------
def safe_queue_rules(rep, mod):
    classes = sorted(set(f.scope for f in mod.defined() if f.scope.startswith('igris::safe_queue<')))
    if len(classes) < 2:
        raise AnalysisBroken('safe_queue<int> and safe_queue<VTr> are not both instantiated by the witness')
    for cls in classes:
        ms = [f for f in mod.defined() if f.scope == cls]
        have = set(f.srcname for f in ms)
        for w in ('push', 'pop', 'size', 'safe_queue'):
            if w not in have:
                raise AnalysisBroken('%s%s not instantiated' % (cls, w))
        for f in ms:
            ta = this_arg(f)
            if f.srcname == 'safe_queue':
                ctor = calls_to(f, lambda b, i: b == 'igris::semaphore::semaphore')
                ok = len(ctor) == 1 and ptr_name(f, mod, ctor[0].ops[0]) == 'this.sem' and len(ctor[0].ops) == 2 and \
                    ctor[0].ops[1].k == 'ci' and ctor[0].ops[1].ival == 1
                rep.inst('R-SEMWRAP', qn(f) + sig_suffix(f), 'sem-initialised-to-1', ok, fn_where(f),
                         None if ok else 'the semaphore guarding the queue must start at 1 (binary): 0 blocks every operation '
                         'forever, 2 admits two threads into std::queue at once')
                continue
            if f.srcname.startswith('~'):
                continue
            fl = Flow(f, mod)
            S = 'this.sem'
            if S not in fl.locks:
                rep.inst('R-LOCKBAL', qn(f), 'balanced:%s' % S, False, fn_where(f),
                         'the member never takes the semaphore that guards the queue')
            else:
                lockbal(rep, fl)
            der = derived(f, {('a', ta)})
            for (i, desc) in uses_of(f, mod, der, skip=set(fl.events)):
                guarded(rep, fl, i, S, 'queue:%s' % desc, '%s on the queue (or an element reference obtained from it)' % desc)


SEM_FORWARD = {'wait': 'sem_wait', 'post': 'sem_post', 'trywait': 'sem_trywait', 'getvalue': 'sem_getvalue',
               'semaphore': 'sem_init', '~semaphore': 'sem_destroy'}


def semwrap_rules(rep, mod):
    ms = need(mod, lambda f: f.scope == 'igris::semaphore::', 'members of igris::semaphore')
    have = set(f.srcname for f in ms)
    for w in SEM_FORWARD:
        if w not in have:
            raise AnalysisBroken('igris::semaphore::%s not instantiated' % w)
    for f in ms:
        want = SEM_FORWARD.get(f.srcname)
        if want is None:
            continue
        cs = [i for i in f.all_insts() if i.op in ('call', 'invoke') and i.callee and i.callee.startswith('sem_')]
        ok = len(cs) == 1 and cs[0].callee == want and ptr_name(f, mod, cs[0].ops[0]) == 'this.sem' and not f.loops
        detail = None if ok else '%s must forward to %s(&sem) exactly once; it calls %s' % (
            qn(f), want, [(c.callee, ptr_name(f, mod, c.ops[0]) if c.ops else None) for c in cs])
        if ok and f.srcname == 'semaphore':
            a = cs[0].ops
            ok = len(a) == 3 and a[1].k == 'ci' and a[1].ival == 0 and a[2].k == 'arg' and a[2].argno == 1
            detail = None if ok else 'sem_init must receive pshared = 0 and the initial value given to the constructor'
        rep.inst('R-SEMWRAP', qn(f), 'forwards-to-%s' % want, ok, fn_where(f), detail)


SYSLOCK_WRAP = {('igris::syslock::', 'lock'): 'system_lock', ('igris::syslock::', 'unlock'): 'system_unlock',
                ('igris::syslock_guard::', 'syslock_guard'): 'system_lock',
                ('igris::syslock_guard::', '~syslock_guard'): 'system_unlock'}


def syslock_wrap_rules(rep, mod):
    for (scope, name), want in SYSLOCK_WRAP.items():
        f = one(mod, name, scope)
        cs = [i for i in f.all_insts() if i.op in ('call', 'invoke') and i.callee in
              ('system_lock', 'system_unlock', 'system_lock_save', 'system_lock_restore')]
        ok = len(cs) == 1 and cs[0].callee == want and not f.loops
        rep.inst('R-LOCKBAL', qn(f), 'calls-%s-exactly-once' % want, ok, fn_where(f),
                 None if ok else '%s calls %s' % (qn(f), [c.callee for c in cs]))


# ----------------------------------------------------------------------------------------------
# R-DEPTH (syslock_mutex.cpp)
# ----------------------------------------------------------------------------------------------
class DepthRun(ContractRun):
    """binds the final values of the depth counter and of the ghost lock/unlock counters"""

    def check_return(self, fn, spec, env, struct_params, T, rv, posts=None):
        def cell(o, off):
            v = T.mem.get((o, off, 4))
            return T.as_s(v) if isinstance(v, IntVal) else None
        dv = T.mem.get((T.ghost['cnt'], 0, 4))
        T.ghost['depth'] = T.force_s(dv) if isinstance(dv, IntVal) else None
        T.ghost['locks'] = cell(T.ghost['cells'], 0)
        T.ghost['unlocks'] = cell(T.ghost['cells'], 4)
        return ContractRun.check_return(self, fn, spec, env, struct_params, T, rv, posts)


def depth_rules(rep, mod, repo):
    lock = one(mod, 'system_lock')
    unlock = one(mod, 'system_unlock')
    save = one(mod, 'system_lock_save')
    restore = one(mod, 'system_lock_restore')
    # the depth counter: the global incremented by system_lock
    ctr = None
    for i in lock.all_insts():
        if i.op == 'store' and i.ops[1].k == 'global':
            v = lock.inst_of(i.ops[0])
            if v is not None and v.op == 'add' and any(o.k == 'ci' and o.ival == 1 for o in v.ops):
                ld = [lock.inst_of(o) for o in v.ops if o.k == 'inst']
                if ld and ld[0] is not None and ld[0].op == 'load' and ld[0].ops[0].key() == i.ops[1].key():
                    ctr = i.ops[1].name
    if ctr is None:
        raise AnalysisBroken('system_lock does not increment a global depth counter (anchor changed)')
    g = mod.globals[ctr]
    rep.inst('R-DEPTH', 'system_lock', 'depth-counter-is-thread-local', bool(g.get('tls')), fn_where(lock),
             None if g.get('tls') else 'the nesting depth %s is shared between threads: thread B\'s lock/unlock changes the '
             'depth thread A relies on' % dem(ctr))
    # the mutex
    mtxs = {}
    lock_fns, unlock_fns = set(), set()
    for f in (lock, unlock, save, restore):
        for i in f.all_insts():
            if i.op in ('call', 'invoke') and i.callee:
                b = base_name(i.callee)
                if b.endswith('::lock') or b.endswith('::unlock') or b.endswith('::try_lock'):
                    r, _ = trace(f, i.ops[0])
                    mtxs.setdefault((r.name if r.k == 'global' else repr(r)), set()).add(b.rsplit('::', 1)[0])
                    (unlock_fns if b.endswith('::unlock') else lock_fns).add(i.callee)
    ok = len(mtxs) == 1 and list(mtxs.values())[0] == {'std::recursive_mutex'} and list(mtxs)[0] in mod.globals
    rep.inst('R-DEPTH', 'system_lock', 'one-global-recursive-mutex', ok, fn_where(lock),
             None if ok else 'system lock operations use %s; owner re-entry needs one std::recursive_mutex shared by '
             'lock/unlock/save/restore (with std::mutex the second system_lock of the owner deadlocks)' % mtxs)
    if not mtxs or not lock_fns or not unlock_fns:
        raise AnalysisBroken('no mutex lock/unlock calls in system_lock/system_unlock (anchor changed)')
    mname = sorted(mtxs)[0]
    I32 = {'k': 'int', 'bits': 32, 'size': 4, 's': 'i32'}

    def bump(off):
        def ext(interp, st, i, args):
            p = PtrVal(st.ghost['cells'], Lin(off))
            v = interp.load(st, p, I32, i)
            interp.store(st, p, IntVal(32, None, st.as_s(v) + 1), 4, i)
            return [(st, None)]
        return ext

    def setup(run, st, env, names, args, sps):
        gp = run.interp.global_ptr(st, ctr)
        x = st.fresh_int(32, True, 'depth')
        st.mem[(gp.obj, 0, 4)] = x
        env.bind('depth', x.s)
        o = st.new_obj('param', Lin(8), 'ghostcells', {'desc': 'ghost counters of mutex lock/unlock calls'})
        st.mem[(o.id, 0, 4)] = IntVal(32, None, Lin(0))
        st.mem[(o.id, 4, 4)] = IntVal(32, None, Lin(0))
        st.ghost['cells'] = o.id
        st.ghost['cnt'] = gp.obj
    exts = {'getpid': ext_pure}
    for nme in lock_fns:
        exts[nme] = bump(0)
    for nme in unlock_fns:
        exts[nme] = bump(4)
    it = Interp(mod, externals=exts, opaque=lock_fns | unlock_fns)

    def saved_depth_hook(interp, st, i, p, v):
        # precondition of system_lock_restore: the pair comes from system_lock_save() of a thread that held the lock,
        # i.e. 1 <= save.count <= 9.  It is stated where the value is installed as the depth (independent of how the
        # by-value struct argument is lowered).
        if i.fn is restore and isinstance(p, PtrVal) and p.obj == st.ghost.get('cnt') and isinstance(v, IntVal):
            sv = st.force_s(v)
            st.cons.add_le(1, sv)
            st.cons.add_le(sv, 9)
    it.store_hook = saved_depth_hook
    run = DepthRun(it, [])
    specs = {
        'system_lock': FnSpec(setup=setup, pre=['depth >= 0', 'depth <= 8'], post=[
            dict(name='one-more-hold', then=['ghost_depth == depth + 1', 'ghost_locks == 1', 'ghost_unlocks == 0'])]),
        'system_unlock': FnSpec(setup=setup, pre=['depth >= 1', 'depth <= 9'], post=[
            dict(name='one-hold-less', then=['ghost_depth == depth - 1', 'ghost_locks == 0', 'ghost_unlocks == 1'])]),
        'system_lock_save': FnSpec(setup=setup, pre=['depth >= 1', 'depth <= 9'], post=[
            dict(name='releases-every-hold', then=['ghost_unlocks == depth', 'ghost_locks == 0']),
            dict(name='depth-is-zero-when-nothing-is-held', then=['ghost_depth == 0'])]),
        'system_lock_restore': FnSpec(setup=setup, pre=['depth == 0'], post=[
            dict(name='reacquires-depth-holds', then=['ghost_locks == ghost_depth', 'ghost_unlocks == 0', 'ghost_depth >= 1'])]),
    }
    for k, s in specs.items():
        run.run(k, s)
    n0 = len(rep.instances)
    rep.add_absint('R-DEPTH', [o for o in summarize(it, run) if o['kind'] in ('post', 'returns')])
    hints = {
        'one-more-hold': 'system_lock() must lock the recursive mutex exactly once and raise the thread-local depth by one',
        'one-hold-less': 'system_unlock() must lower the depth by one and unlock the recursive mutex exactly once',
        'releases-every-hold': 'system_lock_save() must unlock the mutex once per nested hold (depth times)',
        'depth-is-zero-when-nothing-is-held': 'after system_lock_save() released every hold the depth must read 0; e.g. '
        '"while (count--)" leaves -1, so system_lock(); system_unlock() between save and restore trips assert(count >= 0) '
        'and syslock_counter() reports -1',
        'reacquires-depth-holds': 'system_lock_restore() must lock the mutex exactly as many times as the depth it installs',
    }
    for ins in rep.instances[n0:]:
        if not ins['ok']:
            for k, h in hints.items():
                if k in ins['key']:
                    ins['detail'] = '%s [%s]' % (h, ins['detail'])
    if it.unknown_calls:
        raise AnalysisBroken('R-DEPTH: unsummarised calls %s' % sorted(it.unknown_calls))
    # saved pair: count field = depth on entry; restore installs that field
    sv_ok = False
    why = 'the count member of the returned pair is not the depth read on entry'
    for i in save.all_insts():
        if i.op == 'store' and gep_field(save, mod, i.ops[1]) == ('struct.syslock_save_pair', 'count'):
            ld = save.inst_of(i.ops[0])
            if ld is not None and ld.op == 'load' and ld.ops[0].k == 'global' and ld.ops[0].name == ctr:
                stores = [s for s in save.all_insts() if s.op == 'store' and s.ops[1].k == 'global' and s.ops[1].name == ctr]
                sv_ok = all(save.dominates(ld, s) for s in stores)
    rep.inst('R-DEPTH', 'system_lock_save', 'saves-entry-depth', sv_ok, fn_where(save), None if sv_ok else why)
    rs_ok = False
    for i in restore.all_insts():
        if i.op == 'store' and i.ops[1].k == 'global' and i.ops[1].name == ctr:
            ld = restore.inst_of(i.ops[0])
            if ld is not None and ld.op == 'load' and gep_field(restore, mod, ld.ops[0]) == ('struct.syslock_save_pair', 'count'):
                root, off = trace(restore, ld.ops[0])
                locks_before = [c for c in restore.all_insts() if c.op in ('call', 'invoke') and c.callee in lock_fns
                                and restore.dominates(c, i)]
                rs_ok = is_alloca(restore, root) and bool(locks_before)
    rep.inst('R-DEPTH', 'system_lock_restore', 'installs-saved-depth-after-locking', rs_ok, fn_where(restore),
             None if rs_ok else 'the depth must be set from save.count after the first mtx.lock()')
    # shared (non thread-local) globals written by lock/unlock only while the mutex is held
    M = '@' + dem(mname)
    for f, entry, exit_ in ((lock, 0, 1), (unlock, 1, 0)):
        fl = Flow(f, mod, entry={M: entry})
        lockbal(rep, fl, expect_exit={M: exit_}, rule='R-DEPTH')
        for i in f.all_insts():
            if i.op == 'store' and i.ops[1].k == 'global':
                gg = mod.globals.get(i.ops[1].name, {})
                if not gg.get('tls') and not gg.get('const'):
                    guarded(rep, fl, i, M, 'shared-global:store %s' % dem(i.ops[1].name),
                            'store to the shared global %s' % dem(i.ops[1].name))


# ----------------------------------------------------------------------------------------------
# R-SEMCOUNT (fallback semaphore)
# ----------------------------------------------------------------------------------------------
def semcount_rules(rep, mod):
    SEM = StructSpec('struct.semaphore', inv=['count >= 0'])

    def ext_block(interp, st, i, args):
        # the thread sleeps: other threads change the count, preserving the invariant
        a = args[0]
        if isinstance(a, PtrVal) and a.obj is not None:
            x = st.fresh_int(32, True, 'count_after_sleep')
            st.cons.add_le(0, x.s)
            st.mem[(a.obj, 16, 4)] = x
            if st.written is not None:
                st.written.add((a.obj, 16, 4))
        return [(st, None)]
    off = mod.field_off('struct.semaphore', 'count')
    if off != 16:
        raise AnalysisBroken('struct semaphore layout changed (count at %s)' % off)
    ext = {'system_lock': ext_pure, 'system_unlock': ext_pure, 'unwait_one': ext_pure, 'wait_current_schedee': ext_block}
    specs = {
        'sem_init': FnSpec(ctor=True, pre=['val >= 0'], post=[dict(name='count=val', then=['count_post == val'])]),
        'sem_trywait': FnSpec(post=[
            dict(name='available', when=['count >= 1'], then=['ret == 0', 'count_post == count - 1']),
            dict(name='unavailable', when=['count == 0'], then=['ret == -1', 'count_post == count'])]),
        'sem_post': FnSpec(pre=['count <= 2147483646'], post=[dict(name='increments', then=['ret == 0', 'count_post == count + 1'])]),
        'sem_getvalue': FnSpec(extents={'arg1': '4'}, post=[dict(name='reads', then=['ret == 0', 'count_post == count'])]),
        'sem_wait': FnSpec(post=[
            dict(name='fast-path', when=['count >= 1'], then=['ret == 0', 'count_post == count - 1'])]),
    }
    for k in specs:
        if mod.fn(k) is None or mod.fn(k).decl:
            raise AnalysisBroken('fallback %s not compiled (the __has_include override no longer selects it)' % k)
    it, run = run_contracts(rep, 'R-SEMCOUNT', mod, [SEM], specs, externals=ext)
    if it.unknown_calls:
        raise AnalysisBroken('R-SEMCOUNT: unsummarised calls %s' % sorted(it.unknown_calls))


# ----------------------------------------------------------------------------------------------
def run(rep, repo, tier):
    rep.explanation = (
        'Static, per-path reasoning on LLVM IR; libstdc++/pthread members are opaque calls. A forward lockset dataflow over '
        'each CFG (nesting depth interval per lock, meet = intersection for must-hold; RAII guards are ctor/dtor call pairs) '
        'decides: every acquisition of the system lock / event mutex / safe_queue semaphore is matched by exactly one '
        'release on every path to every return (R-LOCKBAL); every access to wait lists, waiter records, the fallback '
        'semaphore count, the event flag, the std::queue inside safe_queue and element references obtained from it happens '
        'with the guarding lock in the must-hold set (R-GUARDED); event members touch nothing of the event after releasing '
        'm_mutex (R-NOTIFYHELD). Dominance/ordering rules decide: condition_variable::wait(_for) is the predicate overload on '
        'the latched flag, on m_condition with the guard of m_mutex (R-PREDWAIT, R-LATCH); wait_current_schedee registers '
        'callback+object, enqueues its own node under the lock on every path and only then blocks on its own event without '
        'the lock (R-ENQBLOCK); wakers unlink the node before waking it, inside the critical section; unwait_one wakes one '
        'node iff the list is non-empty, unwait_all loops until empty (R-WAKE); queue ends pair up FIFO with priority at the '
        'dequeue end (R-ORDER); the park decision and the enqueue are one critical section (R-ATOMICPARK). Abstract '
        'interpretation with ghost counters proves the closed forms of system_lock/unlock/save/restore: thread-local depth '
        '+-1 with exactly one recursive_mutex operation, save performs depth unlocks and leaves depth 0, restore performs '
        'save.count locks (R-DEPTH); and the fallback semaphore keeps count >= 0 with +-1 closed forms (R-SEMCOUNT). '
        'NOT decided: anything that quantifies over thread schedules (mutual exclusion as such, absence of lost wake-ups in '
        'general, FIFO histories of safe_queue, deadlock freedom, data races outside the listed guarded state); these rules '
        'are necessary conditions whose violation gives a concrete bad schedule.')
    rep.assumptions += [
        'std::mutex, std::recursive_mutex, std::unique_lock, std::condition_variable and POSIX sem_* behave as specified '
        '(opaque calls)',
        'functions other than the recognised lock operations leave the lockset unchanged (each analysed callee is itself '
        'checked balanced)',
        'objects under construction/destruction and a function\'s own stack record before it is enqueued are not shared',
        'the fallback semaphore (igris/sync/semaphore.cpp, compiled only where <semaphore.h> is missing) is analysed with '
        '__has_include forced to 0; on Linux igris::semaphore wraps POSIX sem_t',
        'waiter_unwait is entered with the system lock held (checked at every call site of the analysed units)']
    rep.trusted = ['clang 14 front end + mem2reg/simplifycfg lowering to LLVM IR', 'bin/irdump IR->JSON',
                   'checks/c20.py, checks/c20_lockflow.py, checks/absint.py, checks/contracts.py', 'libstdc++ / glibc semantics']

    jobs = [dict(src=repo + '/igris/osinter/wait.cpp', name='c20_wait'),
            dict(src=repo + '/igris/osinter/wait-linux.cpp', name='c20_wait_linux'),
            dict(src=repo + '/igris/sync/syslock_mutex.cpp', name='c20_syslock_mutex'),
            dict(src=repo + '/igris/sync/semaphore.cpp', name='c20_semaphore_fallback', flags=NO_HAS_INCLUDE),
            dict(src=os.path.join(WIT, 'w_c20_sync.cpp'), name='c20_witness')]
    for j in jobs:
        if not os.path.exists(j['src']):
            raise AnalysisBroken('unit %s missing' % j['src'])
    from irlib import keep_all_but_new_helpers
    for j in jobs[:4]:
        # file-local helpers (e.g. a static function factored out of unwait_one/unwait_all) are folded into their callers,
        # so that the lockset of the helper's body is the lockset at its call sites
        j['inline'] = keep_all_but_new_helpers()
    # member helpers a refactoring may add to the witness classes (safe_queue::acquire()/release() around the semaphore) are
    # folded into the members that call them
    from irlib import keep_known_members
    jobs[4]['inline'] = keep_known_members(('igris::safe_queue<',), ('safe_queue', '~safe_queue', 'push', 'pop', 'size'))
    mw, ml, ms, mf, mx = compile_many(jobs, repo)
    rep.units += ['igris/osinter/wait.cpp', 'igris/osinter/wait-linux.cpp', 'igris/sync/syslock_mutex.cpp',
                  'igris/sync/semaphore.cpp (fallback branch, -D__has_include(x)=0)',
                  'witness/w_c20_sync.cpp -> igris/syncxx/event.h, igris/event/safe_queue.h, igris/sync/semaphore.h, '
                  'igris/sync/syslock.h']

    # wait.cpp
    flows = waitlist_rules(rep, mw, repo, 'igris/osinter/wait.cpp', 3)
    wake_rules(rep, mw, flows)
    # wait-linux.cpp
    flows = waitlist_rules(rep, ml, repo, 'igris/osinter/wait-linux.cpp', 3)
    enqblock_rules(rep, ml, flows)
    # fallback semaphore
    flows = waitlist_rules(rep, mf, repo, 'igris/sync/semaphore.cpp', 5)
    atomicpark_rule(rep, mf, flows)
    semproto_rules(rep, mf, flows)
    semcount_rules(rep, mf)
    # event / safe_queue / wrappers
    event_rules(rep, mx)
    safe_queue_rules(rep, mx)
    semwrap_rules(rep, mx)
    syslock_wrap_rules(rep, mx)
    # system lock
    depth_rules(rep, ms, repo)

    rep.floor('R-LOCKBAL', 20)
    rep.floor('R-GUARDED', 30)
    rep.floor('R-NOTIFYHELD', 3)
    rep.floor('R-PREDWAIT', 8)
    rep.floor('R-LATCH', 5)
    rep.floor('R-ENQBLOCK', 8)
    rep.floor('R-ORDER', 3)
    rep.floor('R-WAKE', 10)
    rep.floor('R-ATOMICPARK', 1)
    rep.floor('R-DEPTH', 14)
    rep.floor('R-SEMWRAP', 8)
    rep.floor('R-SEMCOUNT:post', 8)
    rep.floor('R-SEMCOUNT:invariant', 4)
