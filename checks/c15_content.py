"""C15 extension: CONTENT clauses of the line editor (called at the end of c15.run as run_ext).

c15.py decides where the cursor and the length go and that no access leaves the buffers; it does not decide WHICH
characters are in the line.  This module decides that, by a byte-identity analysis on small concrete configurations:

  * a configuration fixes the capacity (4..8), the length and the cursor (every admissible pair), for the history the
    depth, the write index, the browse index and the lengths of the stored lines - so every offset, every copy length
    and every loop bound of the code under analysis is a constant and the abstract interpreter (checks/absint.py) runs
    the code path without abstraction;
  * every byte of every buffer is its own SYMBOL before the call (t0, t1, .. for the text, j4, .. for the bytes behind
    it, h0_0, .. for the history slots, d0, .. for an inserted block, c for the typed character).  Bytes are only moved,
    never computed, so "the buffer holds the prescribed sequence" is equality of symbol sequences at every return;
  * memmove / memcpy / memset / strlen / strncmp / strcmp / memcmp are summarised BY THEIR DEFINITION on the cells
    (byte i of the destination is the old byte i of the source, overlap allowed for memmove; memcpy with overlapping
    ranges is undefined behaviour and reported); a copy loop written by hand is simply interpreted (constant bounds);
  * the reference is a few lines of python list surgery on the entry sequence (insert, delete, clamp).

The vterm clauses (c15_content_vt.py) use the same symbols: the bytes handed to the write callback are collected as
a sequence over symbols and constants and replayed on a one-line VT100 screen model; the clause is "the screen shows
the prompt, the line and the cursor of the editor after the key", which does not depend on which of the many equivalent
escape sequences the code emits.

Nothing is executed, no solver is involved: the only decision procedure is the linear domain's entailment, which on
these states decides equalities of symbols and constants.

A form the analysis does not recognise (an offset or a length that is not a constant in a concrete configuration, an
undecided terminator) raises AnalysisBroken - never a verdict."""
import os

from common import *
from absint import Interp
from absval import IntVal, PtrVal, CondVal, State, NULL, TOP, mk_const
from contracts import Env
from lin import Lin, Cons

I8 = {'k': 'int', 'bits': 8, 'size': 1, 's': 'i8'}
ONLY = os.environ.get('C15_CONTENT_ONLY')          # developer aid: run only the functions whose name contains this text
CAPS_QUICK = (4, 5, 6, 7, 8)
CAPS_HIST = (4, 5)
UINT_MAX = 0xffffffff
_RANGED = {}


# ----------------------------------------------------------------------------------------------------------------------
# result collection: one rule instance per (function, clause), decided over all configurations
# ----------------------------------------------------------------------------------------------------------------------
class Agg:
    def __init__(self, rep, rule):
        self.rep = rep
        self.rule = rule
        self.items = {}
        self.cases = 0

    def add(self, function, clause, ok, detail=None, where=''):
        k = (function, clause)
        it = self.items.get(k)
        if it is None:
            it = self.items[k] = {'ok': True, 'n': 0, 'bad': 0, 'detail': None, 'where': where}
        it['n'] += 1
        if not ok:
            it['bad'] += 1
            if it['ok']:
                it['ok'] = False
                it['detail'] = detail

    def flush(self):
        for (function, clause), it in self.items.items():
            d = it['detail']
            if d is not None and it['bad'] > 1:
                d += '  (%d of %d configurations fail)' % (it['bad'], it['n'])
            self.rep.inst(self.rule, function, clause, it['ok'], it['where'], d,
                          fact='%d configuration(s) decided' % it['n'])


# ----------------------------------------------------------------------------------------------------------------------
# one concrete configuration of one function
# ----------------------------------------------------------------------------------------------------------------------
def show(T, v):
    """human-readable name of a byte value: its symbol, a character constant or '?'"""
    if isinstance(v, IntVal):
        c = v.const()
        if c is not None:
            return repr(chr(c)) if 32 <= c < 127 else '\\x%02x' % c
        for l in (v.u, v.s):
            if l is not None and len(l.t) == 1 and l.c == 0 and list(l.t.values())[0] == 1:
                return str(list(l.t.keys())[0])
        if T is not None:
            u = T.force_u(v)
            if len(u.t) == 1 and u.c == 0 and list(u.t.values())[0] == 1:
                return str(list(u.t.keys())[0])
    return '?'


def shows(T, vs):
    return '[' + ' '.join(show(T, v) for v in vs) + ']'


def same_byte(T, got, want):
    """the byte `got` provably equals the byte `want` (a symbol or a constant)"""
    if isinstance(want, int):
        want = mk_const(8, want)
    if not isinstance(got, IntVal) or got.w != 8:
        return False
    gc, wc = got.const(), want.const()
    if gc is not None and wc is not None:
        return gc == wc
    for a, b in ((got.u, want.u), (got.s, want.s)):
        if a is not None and b is not None and T.cons.entails_eq(a, b):
            return True
    return T.cons.entails_eq(T.force_u(got), T.force_u(want))


def same_seq(T, got, want):
    return len(got) == len(want) and all(same_byte(T, g, w) for g, w in zip(got, want))


class Case:
    """state builder + runner for one configuration"""

    def __init__(self, mod, fname, label):
        self.mod = mod
        self.fname = fname
        self.label = label
        self.fn = mod.fn(fname)
        if self.fn is None or self.fn.decl:
            raise AnalysisBroken('function %s not found in %s (anchor vanished?)' % (fname, mod.path))
        self.st = State()
        self.env = Env()
        self.faults = []            # accesses outside an object, undefined behaviour: the path is abandoned there
        self.emitted = None         # vterm: what the callbacks received
        self.it = Interp(mod)
        self.it.max_peel = 64       # loops run on constant bounds: they are executed, not abstracted
        self.it.max_peel_states = 8
        self.it.access_hook = self.on_access
        self.it.call_hook = self.on_call
        self.crun = ContractRun(self.it, [])
        self.callbacks = {}         # object id of a callback 'function' -> handler(case, st, inst, args)

    # ---- state construction -----------------------------------------------------------------------------------------
    def ranged(self, name, lo, hi):
        """the symbol `name` with lo <= name <= hi (the two normalised constraints are built once per name and range)"""
        ent = _RANGED.get((name, lo, hi))
        if ent is None:
            c = Cons()
            x = Lin.sym(name)
            c.add_le(lo, x)
            c.add_le(x, hi)
            ent = _RANGED[(name, lo, hi)] = (x, [(l.key(), l) for l in c.items])
        cons = self.st.cons
        for k, l in ent[1]:
            if k not in cons.keys:
                cons.keys.add(k)
                cons.items.append(l)
        return ent[0]

    def byte(self, name, lo=0, hi=255):
        return IntVal(8, self.ranged(name, lo, hi), None)

    def schar(self, name, lo, hi):
        """a char argument in the signed range lo..hi (char is signed on the analysed target)"""
        x = self.ranged(name, lo, hi)
        return IntVal(8, None, x) if lo < 0 else IntVal(8, x, x)

    def buffer(self, name, values, desc, kind='param'):
        o = self.st.new_obj(kind, Lin(len(values)), name, {'desc': desc})
        self.fill(o.id, 0, values)
        return o.id

    def fill(self, oid, off, values):
        for k, v in enumerate(values):
            self.st.mem[(oid, off + k, 1)] = mk_const(8, v) if isinstance(v, int) else v

    def struct(self, pname, sname, fixed, owns):
        """an object of struct `sname` whose integer fields have the given constant values; pointer fields listed in
        `owns` point to fresh blocks of that many bytes. -> (object id, {pointer field: block id}, field table)"""
        fields = {m['name']: m for m in self.mod.flat_fields(sname)}
        if not fields:
            raise AnalysisBroken('struct %s (or its debug info) not found in %s' % (sname, self.mod.path))
        for n in list(fixed) + list(owns):
            if n not in fields:
                raise AnalysisBroken('field %s of %s not found (anchor vanished?)' % (n, sname))
        spec = StructSpec(sname, fixed=dict(fixed), owns={k: str(v) for k, v in owns.items()})
        o, _fs = self.crun.make_struct_obj(self.st, self.env, pname, sname, spec, True)
        blocks = {}
        for n in owns:
            m = fields[n]
            blocks[n] = self.st.mem[(o.id, m['off'], m['ty']['size'])].obj
        return o.id, blocks, fields

    # ---- hooks ------------------------------------------------------------------------------------------------------
    def fault(self, st, text):
        self.faults.append(text)
        st.bottom = True

    def on_access(self, interp, st, inst, p, size, kind):
        if not isinstance(p, PtrVal) or p.is_null:
            return
        o = st.objs.get(p.obj)
        if o is None or o.size is None:
            return
        size = size if isinstance(size, Lin) else Lin(size)
        if not (p.off.is_const() and size.is_const() and o.size.is_const()):
            raise AnalysisBroken('%s [%s]: %s at an offset / of a size that is not a constant in a concrete configuration '
                                 '(offset %r, size %r)' % (self.fname, self.label, kind, p.off, size))
        lo, hi = 0, o.size.c
        if p.lo is not None and p.lo.is_const() and p.hi is not None and p.hi.is_const():
            lo, hi = p.lo.c, p.hi.c
        if p.off.c < lo or p.off.c + size.c > hi:
            self.fault(st, '%s of %d byte(s) at offset %d of %s (%d bytes)'
                       % (kind, size.c, p.off.c, interp.describe_obj(st, p.obj), o.size.c))

    def cint(self, st, v, what):
        if isinstance(v, IntVal):
            c = v.const()
            if c is not None:
                return c
        raise AnalysisBroken('%s [%s]: %s is not a constant in a concrete configuration (%r)'
                             % (self.fname, self.label, what, v))

    def cptr(self, st, p, what):
        if isinstance(p, PtrVal) and p.is_null:
            return p
        if not isinstance(p, PtrVal) or not p.off.is_const():
            raise AnalysisBroken('%s [%s]: %s is not a pointer at a constant offset (%r)' % (self.fname, self.label, what, p))
        return p

    def rd(self, st, p, k, inst):
        """byte k behind pointer p (bounds-checked through the engine's load)"""
        return self.it.load(st, PtrVal(p.obj, p.off + k, p.lo, p.hi, p.nonnull), I8, inst)

    def wr(self, st, p, k, v, inst):
        self.it.store(st, PtrVal(p.obj, p.off + k, p.lo, p.hi, p.nonnull), v, 1, inst)

    def span_ok(self, st, p, n, inst, kind):
        """whole-range bounds test before a bulk operation (a wrapped length is reported once, not byte by byte)"""
        if n == 0:
            return True
        if p.is_null:
            self.fault(st, '%s through a null pointer' % kind)
            return False
        self.on_access(self.it, st, inst, p, n, kind)
        return not st.bottom

    def zero_or_not(self, st, v, what):
        """True: the byte is provably 0, False: provably not 0"""
        if isinstance(v, IntVal):
            c = v.const()
            if c is not None:
                return c == 0
            u = st.force_u(v)
            if st.cons.entails_le(1, u):
                return False
            if st.cons.entails_eq(u, 0):
                return True
        raise AnalysisBroken('%s [%s]: %s: cannot tell whether byte %s is the terminator' % (self.fname, self.label, what, show(st, v)))

    def on_call(self, interp, st, i, callee, args):
        if callee is None:
            fp = interp.val(st, i.callee_v, i.fn)
            if isinstance(fp, PtrVal) and fp.obj in self.callbacks:
                return self.callbacks[fp.obj](self, st, i, args)
            if isinstance(fp, PtrVal) and fp.is_null:
                self.fault(st, 'call through a null function pointer')
                return []
            raise AnalysisBroken('%s [%s]: indirect call to an unknown target' % (self.fname, self.label))
        base = callee
        for pre in ('llvm.memmove.', 'llvm.memcpy.', 'llvm.memset.'):
            if callee.startswith(pre):
                base = pre[5:-1]
        if base.startswith('__') and base.endswith('_chk'):
            base = base[2:-4]
        target = self.mod.functions.get(callee)
        if target is not None and not target.decl:
            return None             # defined in the unit: interpreted in place
        h = getattr(self, 'lib_' + base, None)
        if h is None:
            if callee.startswith('llvm.'):
                return None
            raise AnalysisBroken('%s [%s]: call of %s, which has no summary by definition' % (self.fname, self.label, callee))
        return h(st, i, args)

    # ---- libc by definition -----------------------------------------------------------------------------------------
    def lib_memmove(self, st, i, args, overlap_ok=True, name='memmove'):
        d, s = self.cptr(st, args[0], name + ' destination'), self.cptr(st, args[1], name + ' source')
        n = self.cint(st, args[2], name + ' length')
        if n == 0:
            return [(st, d)]
        if not self.span_ok(st, s, n, i, name + '-src') or not self.span_ok(st, d, n, i, name + '-dst'):
            return []
        if not overlap_ok and d.obj == s.obj and d.off.c != s.off.c and d.off.c < s.off.c + n and s.off.c < d.off.c + n:
            self.fault(st, 'memcpy of %d byte(s) between overlapping ranges (offsets %d and %d of %s): undefined behaviour, '
                           'memmove is needed' % (n, d.off.c, s.off.c, self.it.describe_obj(st, d.obj)))
            return []
        vals = [self.rd(st, s, k, i) for k in range(n)]
        for k, v in enumerate(vals):
            self.wr(st, d, k, v, i)
        return [(st, d)]

    def lib_memcpy(self, st, i, args):
        return self.lib_memmove(st, i, args, overlap_ok=False, name='memcpy')

    def lib_memset(self, st, i, args):
        d = self.cptr(st, args[0], 'memset destination')
        v = self.cint(st, args[1], 'memset value') & 0xff
        n = self.cint(st, args[2], 'memset length')
        if n and not self.span_ok(st, d, n, i, 'memset-dst'):
            return []
        for k in range(n):
            self.wr(st, d, k, mk_const(8, v), i)
        return [(st, d)]

    def lib_strlen(self, st, i, args):
        p = self.cptr(st, args[0], 'strlen argument')
        if p.is_null:
            self.fault(st, 'strlen of a null pointer')
            return []
        k = 0
        while True:
            v = self.rd(st, p, k, i)
            if st.bottom:
                self.faults[-1] += ' - strlen runs over a text without terminator'
                return []
            if self.zero_or_not(st, v, 'strlen'):
                return [(st, mk_const(i.ty.get('bits', 64), k))]
            k += 1

    def _cmp(self, st, i, a, b, n, stop_at_nul, name):
        """lexicographic comparison by definition; undecided byte pairs split the state"""
        a, b = self.cptr(st, a, name + ' operand'), self.cptr(st, b, name + ' operand')
        w = i.ty.get('bits', 32)
        out = []
        work = [(st, 0)]
        while work:
            s, k = work.pop()
            while True:
                if n is not None and k >= n:
                    out.append((s, mk_const(w, 0)))
                    break
                x = self.rd(s, a, k, i)
                if s.bottom:
                    break
                y = self.rd(s, b, k, i)
                if s.bottom:
                    break
                xu, yu = s.force_u(x), s.force_u(y)
                if s.cons.entails_eq(xu, yu):
                    if stop_at_nul and self.zero_or_not(s, x, name):
                        out.append((s, mk_const(w, 0)))
                        break
                    k += 1
                    continue
                if s.known_diseq(xu, yu) or s.cons.entails_lt(xu, yu) or s.cons.entails_lt(yu, xu):
                    r = s.fresh_int(w, True, name)
                    if s.cons.entails_lt(xu, yu):
                        s.cons.add_le(r.s, -1)
                    elif s.cons.entails_lt(yu, xu):
                        s.cons.add_le(1, r.s)
                    else:
                        s.add_diseq(r.s, 0)
                    out.append((s, r))
                    break
                s2 = s.fork()
                s2.add_diseq(xu, yu)
                r = s2.fresh_int(w, True, name)
                s2.add_diseq(r.s, 0)
                out.append((s2, r))
                s.cons.add_eq(xu, yu)
        return out

    def lib_strncmp(self, st, i, args):
        return self._cmp(st, i, args[0], args[1], self.cint(st, args[2], 'strncmp length'), True, 'strncmp')

    def lib_strcmp(self, st, i, args):
        return self._cmp(st, i, args[0], args[1], None, True, 'strcmp')

    def lib_memcmp(self, st, i, args):
        return self._cmp(st, i, args[0], args[1], self.cint(st, args[2], 'memcmp length'), False, 'memcmp')

    def lib_bcmp(self, st, i, args):
        return self.lib_memcmp(st, i, args)

    def lib_strnlen(self, st, i, args):
        p = self.cptr(st, args[0], 'strnlen argument')
        n = self.cint(st, args[1], 'strnlen bound')
        k = 0
        while k < n:
            v = self.rd(st, p, k, i)
            if st.bottom:
                return []
            if self.zero_or_not(st, v, 'strnlen'):
                break
            k += 1
        return [(st, mk_const(i.ty.get('bits', 64), k))]

    def lib_strcpy(self, st, i, args, bound=None, pad=False):
        """strcpy / strncpy by definition (strncpy pads with NUL up to n and does not terminate a longer source)"""
        d, s = self.cptr(st, args[0], 'strcpy destination'), self.cptr(st, args[1], 'strcpy source')
        k = 0
        while bound is None or k < bound:
            v = self.rd(st, s, k, i)
            if st.bottom:
                return []
            self.wr(st, d, k, v, i)
            if st.bottom:
                return []
            k += 1
            if self.zero_or_not(st, v, 'strcpy'):
                break
        while pad and k < bound:
            self.wr(st, d, k, mk_const(8, 0), i)
            if st.bottom:
                return []
            k += 1
        return [(st, d)]

    def lib_strncpy(self, st, i, args):
        return self.lib_strcpy(st, i, args, bound=self.cint(st, args[2], 'strncpy length'), pad=True)

    def lib_igris_i32toa(self, st, i, args):
        """igris_i32toa(num, buf, base) by definition for base 10 (the renderer itself is the subject of C07): the decimal
        digits, the terminator, result = address of the terminator"""
        num = args[0].sconst() if isinstance(args[0], IntVal) else None
        base = self.cint(st, args[2], 'i32toa base')
        if num is None or base != 10:
            raise AnalysisBroken('%s [%s]: igris_i32toa of a value / base that is not a constant' % (self.fname, self.label))
        buf = self.cptr(st, args[1], 'i32toa buffer')
        txt = [ord(ch) for ch in str(num)] + [0]
        if not self.span_ok(st, buf, len(txt), i, 'i32toa-dst'):
            return []
        for k, v in enumerate(txt):
            self.wr(st, buf, k, mk_const(8, v), i)
        return [(st, PtrVal(buf.obj, buf.off + (len(txt) - 1), buf.lo, buf.hi, True))]

    # ---- run --------------------------------------------------------------------------------------------------------
    def run(self, args):
        n0 = len(self.st.cons.items)
        self.it.stack = [(self.fn.name, 'entry')]
        rets = self.it.run_function(self.fn, self.st, list(args))
        self.it.stack = []
        if self.it.unknown_calls:
            raise AnalysisBroken('%s [%s]: call(s) with unknown effects: %s' % (self.fname, self.label, sorted(self.it.unknown_calls)))
        for ob in self.it.obligs.values():
            if not ob.ok and not self.faults:
                self.faults.append(ob.detail or ob.kind)
        for (T, rv) in rets:
            # a constant contradiction is visible at once; the full test is only needed when the path added constraints
            # (byte comparisons): the entry constraints are independent ranges of distinct symbols
            bad = any(not l.t and l.c > 0 for l in T.cons.items)
            if not bad and len(T.cons.items) != n0:
                bad = T.cons.unsat()
            if bad:
                raise AnalysisBroken('%s [%s]: contradictory state at a return' % (self.fname, self.label))
        return rets

    # ---- reading a return state ---------------------------------------------------------------------------------------
    def byte_at(self, T, oid, off):
        v = T.mem.get((oid, off, 1))
        if v is not None:
            return v
        for (o, coff, sz), w in T.mem.items():
            if o == oid and coff <= off < coff + sz and isinstance(w, IntVal) and w.const() is not None:
                return mk_const(8, (w.const() >> (8 * (off - coff))) & 0xff)
        return None

    def bytes_at(self, T, oid, off, n):
        return [self.byte_at(T, oid, off + k) for k in range(n)]

    def field(self, T, oid, m, want=None):
        """constant value of an integer field at a return"""
        v = T.mem.get((oid, m['off'], m['ty']['size']))
        if isinstance(v, IntVal):
            c = v.sconst() if m.get('signed') == 1 else v.const()
            if c is not None:
                return c
        raise AnalysisBroken('%s [%s]: field %s is not a constant at a return (%r)' % (self.fname, self.label, m['name'], v))

    def ret_int(self, rv, signed=True):
        if isinstance(rv, IntVal):
            c = rv.sconst() if signed else rv.const()
            if c is not None:
                return c
        if isinstance(rv, CondVal) and rv.k == 'const':
            return 1 if rv.args[0] else 0
        return None


# ----------------------------------------------------------------------------------------------------------------------
# struct sline
# ----------------------------------------------------------------------------------------------------------------------
class Sline:
    """an sline in a configuration (cap, len, cursor): text symbols t0.. in [0, len), other symbols behind"""

    def __init__(self, case, sname, prefix, cap, ln, cur, pname='sl', struct=None):
        self.case = case
        self.cap, self.len, self.cur = cap, ln, cur
        self.prefix = prefix
        if struct is None:
            fixed = {prefix + 'cap': cap, prefix + 'len': ln, prefix + 'cursor': cur}
            self.obj, blocks, self.fields = case.struct(pname, sname, fixed, {prefix + 'buf': cap})
            self.buf = blocks[prefix + 'buf']
        else:
            self.obj, blocks, self.fields = struct
            self.buf = blocks[prefix + 'buf']
        case.st.objs[self.buf].info['desc'] = 'line buffer (%d bytes)' % cap
        self.text = [case.byte('t%d' % k, 1, 255) for k in range(ln)]
        self.junk = [case.byte('j%d' % k, 0, 255) for k in range(ln, cap)]
        case.fill(self.buf, 0, self.text + self.junk)

    def f(self, name):
        return self.fields[self.prefix + name]

    def ptr(self):
        return PtrVal(self.obj, Lin(self.f('buf')['off']))

    def check(self, T, out, tag, text, ln=None, cur=None, frame=True):
        """clauses about the sline at the return state T: out(clause, ok, detail)"""
        c = self.case
        ln = len(text) if ln is None else ln
        got_len = c.field(T, self.obj, self.f('len'))
        got_cur = c.field(T, self.obj, self.f('cursor'))
        out(tag + ': len', got_len == ln, 'len is %d, expected %d' % (got_len, ln))
        if cur is not None:
            out(tag + ': cursor', got_cur == cur, 'cursor is %d, expected %d' % (got_cur, cur))
        if got_len == ln:
            got = c.bytes_at(T, self.buf, 0, min(ln, self.cap))
            ok = ln <= self.cap and same_seq(T, got, text)
            out(tag + ': text', ok, 'the line holds %s, expected %s' % (shows(T, got), shows(T, text)))
        if frame:
            bp = T.mem.get((self.obj, self.f('buf')['off'], 8))
            cp = c.field(T, self.obj, self.f('cap'))
            ok = isinstance(bp, PtrVal) and bp.obj == self.buf and bp.off.is_const() and bp.off.c == 0 and cp == self.cap
            out(tag + ': buf and cap untouched', ok, 'buf / cap changed (cap %d, expected %d)' % (cp, self.cap))


def configs(caps):
    for cap in caps:
        for ln in range(cap):
            for cur in range(ln + 1):
                yield cap, ln, cur


def run_case(agg, case, args, checker):
    """run one configuration; checker(T, rv, out) states the clauses of one return"""
    rets = case.run(args)
    agg.cases += 1
    where = '%s:%d' % (case.fn.file, case.fn.line)

    def out(clause, ok, detail=None):
        agg.add(case.fname, clause, ok, None if ok else '[%s] %s' % (case.label, detail), where)
    out('every access stays inside its object', not case.faults,
        case.faults[0] if case.faults else None)
    if not rets and not case.faults:
        raise AnalysisBroken('%s [%s]: no return reached' % (case.fname, case.label))
    for (T, rv) in rets:
        checker(T, rv, out)
    return rets


def run_variants(agg, new_case, make):
    """new_case() -> (case, subject, label of the configuration); make(case, subject) -> [(label, build)] where build()
    prepares the variant in the state of the case and returns (arguments, checker).  Every variant runs in a state of
    its own (make itself must not touch the state)."""
    case, subj, label0 = new_case()
    vs = make(case, subj)
    for n in range(len(vs)):
        if n:
            case, subj, label0 = new_case()
            vs = make(case, subj)
        label, build = vs[n]
        args, chk = build()
        case.label = label0 + label
        run_case(agg, case, args, chk)


def is_ptr(rv, obj, off):
    return isinstance(rv, PtrVal) and not rv.is_null and rv.obj == obj and rv.off.is_const() and rv.off.c == off


def sline_rules(rep, repo, caps):
    mod = witness('w_sline.c', repo)
    agg = Agg(rep, 'R-TEXT')
    S = 'struct.sline'

    def each(fname, make):
        if ONLY and ONLY not in fname:
            return
        for cap, ln, cur in configs(caps):
            def new_case():
                case = Case(mod, fname, '')
                return case, Sline(case, S, '', cap, ln, cur), 'cap %d, len %d, cursor %d' % (cap, ln, cur)
            run_variants(agg, new_case, make)

    # -- sline_putchar(sl, c): insert c at the cursor, nothing when full
    def putchar(case, sl):
        def build():
            c = case.schar('c', -128, 127)

            def chk(T, rv, out):
                r = case.ret_int(rv)
                if sl.len >= sl.cap - 1:
                    out('full: result 0', r == 0, 'returns %r' % r)
                    sl.check(T, out, 'full: nothing changes', sl.text, cur=sl.cur)
                else:
                    out('room: result 1', r == 1, 'returns %r' % r)
                    sl.check(T, out, 'room: c inserted at the cursor', sl.text[:sl.cur] + [c] + sl.text[sl.cur:], cur=sl.cur + 1)
            return [PtrVal(sl.obj), c], chk
        return [('', build)]
    each('sline_putchar', putchar)

    # -- sline_backspace(sl, n) / sline_delete(sl, n)
    def counts(room):
        return sorted(set([0, 1, 2, room, room + 1, UINT_MAX]))

    def backspace(case, sl):
        def variant(n):
            def build():
                k = min(n, sl.cur)

                def chk(T, rv, out):
                    r = case.ret_int(rv)
                    out('result is the number of characters removed', r == k, 'returns %r, expected %d' % (r, k))
                    sl.check(T, out, 'the n characters before the cursor are removed', sl.text[:sl.cur - k] + sl.text[sl.cur:],
                             cur=sl.cur - k)
                return [PtrVal(sl.obj), mk_const(32, n)], chk
            return (', count %d' % n, build)
        return [variant(n) for n in counts(sl.cur)]
    each('sline_backspace', backspace)

    def delete(case, sl):
        def variant(n):
            def build():
                k = min(n, sl.len - sl.cur)

                def chk(T, rv, out):
                    r = case.ret_int(rv)
                    out('result is the number of characters removed', r == k, 'returns %r, expected %d' % (r, k))
                    sl.check(T, out, 'the n characters at the cursor are removed', sl.text[:sl.cur] + sl.text[sl.cur + k:],
                             cur=sl.cur)
                return [PtrVal(sl.obj), mk_const(32, n)], chk
            return (', count %d' % n, build)
        return [variant(n) for n in counts(sl.len - sl.cur)]
    each('sline_delete', delete)

    # -- cursor movement: only the cursor moves
    def mover(delta):
        def make(case, sl):
            def build():
                new = sl.cur + delta
                moved = 0 <= new <= sl.len

                def chk(T, rv, out):
                    r = case.ret_int(rv)
                    out('result tells whether the cursor moved', r == (1 if moved else 0), 'returns %r' % r)
                    sl.check(T, out, 'only the cursor moves', sl.text, cur=new if moved else sl.cur)
                return [PtrVal(sl.obj)], chk
            return [('', build)]
        return make
    each('sline_left', mover(-1))
    each('sline_right', mover(+1))

    # -- sline_newdata(sl, data, n): the block (as much of it as fits) inserted at the cursor
    def newdata(case, sl):
        room = sl.cap - 1 - sl.len

        def variant(n):
            def build():
                data = [case.byte('d%d' % k, 1, 255) for k in range(n)]
                blk = case.buffer('data', data, 'inserted block (%d bytes)' % n)
                k = min(n, room)

                def chk(T, rv, out):
                    r = case.ret_int(rv)
                    out('result is the number of characters inserted', r == k, 'returns %r, expected %d' % (r, k))
                    sl.check(T, out, 'the block is inserted at the cursor', sl.text[:sl.cur] + data[:k] + sl.text[sl.cur:],
                             cur=sl.cur + k)
                    out('the block itself is not modified', same_seq(T, case.bytes_at(T, blk, 0, n), data), 'block changed')
                return [PtrVal(sl.obj), PtrVal(blk), mk_const(32, n)], chk
            return (', block of %d' % n, build)
        return [variant(n) for n in sorted(set([0, 1, 2, room, room + 1, sl.cap + 1]))]
    each('sline_newdata', newdata)

    # -- accessors: terminate / describe the text without disturbing it
    def getline(case, sl):
        def build():
            def chk(T, rv, out):
                out('result is the start of the buffer', is_ptr(rv, sl.buf, 0), 'returns %r' % (rv,))
                sl.check(T, out, 'the text is not disturbed', sl.text, cur=sl.cur)
                z = case.byte_at(T, sl.buf, sl.len)
                out('terminator behind the text', z is not None and same_byte(T, z, 0), 'buf[len] holds %s' % show(T, z))
            return [PtrVal(sl.obj)], chk
        return [('', build)]
    each('sline_getline', getline)

    def rightpart(case, sl):
        def build():
            def chk(T, rv, out):
                out('result is the address of the character at the cursor', is_ptr(rv, sl.buf, sl.cur), 'returns %r' % (rv,))
                sl.check(T, out, 'the text is not disturbed', sl.text, cur=sl.cur)
            return [PtrVal(sl.obj)], chk
        return [('', build)]
    each('sline_rightpart', rightpart)

    def scalar(value, what, truth=False):
        def make(case, sl):
            def build():
                def chk(T, rv, out):
                    r = case.ret_int(rv)
                    want = value(sl)
                    ok = r is not None and ((r != 0) == bool(want) if truth else r == want)
                    out('result is ' + what, ok, 'returns %r, expected %r' % (r, want))
                    sl.check(T, out, 'the text is not disturbed', sl.text, cur=sl.cur)
                return [PtrVal(sl.obj)], chk
            return [('', build)]
        return make
    each('sline_rightsize', scalar(lambda sl: sl.len - sl.cur, 'the number of characters from the cursor on'))
    each('sline_in_rightpos', scalar(lambda sl: sl.len == sl.cur, 'true exactly at the end of the text', True))
    each('sline_size', scalar(lambda sl: sl.len, 'the number of characters'))
    each('sline_empty', scalar(lambda sl: sl.len == 0, 'true exactly for the empty line', True))
    each('sline_avail', scalar(lambda sl: sl.cap - sl.len, 'the room left (capacity - length)'))

    def reset(case, sl):
        def build():
            def chk(T, rv, out):
                sl.check(T, out, 'the line is empty', [], cur=0)
            return [PtrVal(sl.obj)], chk
        return [('', build)]
    each('sline_reset', reset)

    def init(case, sl):
        def variant(ncap):
            def build():
                nb = case.buffer('buffer', [case.byte('n%d' % k) for k in range(ncap)], 'new buffer (%d bytes)' % ncap)

                def chk(T, rv, out):
                    bp = T.mem.get((sl.obj, sl.f('buf')['off'], 8))
                    out('buf is the buffer handed in', is_ptr(bp, nb, 0), 'buf is %r' % (bp,))
                    cp = case.field(T, sl.obj, sl.f('cap'))
                    out('cap is the capacity handed in', cp == ncap, 'cap is %d, expected %d' % (cp, ncap))
                    ln, cu = case.field(T, sl.obj, sl.f('len')), case.field(T, sl.obj, sl.f('cursor'))
                    out('the line is empty', ln == 0 and cu == 0, 'len %d, cursor %d' % (ln, cu))
                return [PtrVal(sl.obj), PtrVal(nb), mk_const(32, ncap)], chk
            return (', new capacity %d' % ncap, build)
        return [variant(2), variant(sl.cap + 3)]
    each('sline_init', init)

    # -- sline_equal(sl, str): true exactly when str is the len characters of the line
    def equal(case, sl):
        def variant(label, chars_of, want):
            def build():
                chars = chars_of()
                s = case.buffer('str', chars + [0], 'C string (%d characters)' % len(chars))

                def chk(T, rv, out):
                    r = case.ret_int(rv)
                    ok = r is not None and (r != 0) == want
                    out('true exactly when the text is the line: ' + label.split(':')[0], ok,
                        'returns %r for %s against the line %s' % (r, shows(T, chars), shows(T, sl.text)))
                    sl.check(T, out, 'the text is not disturbed', sl.text, cur=sl.cur)
                return [PtrVal(sl.obj), PtrVal(s)], chk
            return (', ' + label, build)

        def differs(k):
            def f():
                x = case.byte('x%d' % k, 1, 255)
                case.st.add_diseq(x.u, sl.text[k].u)
                return sl.text[:k] + [x] + sl.text[k + 1:]
            return f
        vs = [variant('same text', lambda: list(sl.text), True)]
        if sl.len >= 1:
            vs.append(variant('proper prefix of the line', lambda: list(sl.text[:-1]), False))
            for k in sorted(set([0, sl.len - 1])):
                vs.append(variant('one character differs: position %d' % k, differs(k), False))
        vs.append(variant('line is a proper prefix of the text', lambda: sl.text + [case.byte('x', 1, 255)], False))
        return vs
    each('sline_equal', equal)

    agg.flush()
    return agg


# ----------------------------------------------------------------------------------------------------------------------
# struct readline: the history and the keys
# ----------------------------------------------------------------------------------------------------------------------
RL = 'struct.readline'
KEY_CLASSES = [(-128, -1), (1, 7), (9, 9), (11, 12), (14, 26), (28, 127)]     # every char that is not NUL, BS, LF, CR, ESC


def slot_lengths(pattern, hs, cap):
    if pattern == 0:
        return [(j + 1) % cap for j in range(hs)]
    return [(cap - 1 - j) % cap for j in range(hs)]


class Readline:
    """a struct readline in a concrete configuration; the line as in Sline, history slot j holds a terminated line of
    lens[j] characters h<j>_<k> followed by arbitrary bytes g<j>_<k>"""

    def __init__(self, case, sname, prefix, cap, ln, cur, hs, head, curhist, lens, state=0, last=0, lastsize=0,
                 no_history=False, extra_fixed=None, extra_owns=None, pname='rl'):
        self.case = case
        self.prefix = prefix
        self.cap, self.hs, self.head, self.curhist = cap, hs, head, curhist
        self.state, self.last = state, last
        fixed = {prefix + 'line.cap': cap, prefix + 'line.len': ln, prefix + 'line.cursor': cur, prefix + 'state': state,
                 prefix + 'last': last, prefix + 'lastsize': lastsize, prefix + 'history_size': hs,
                 prefix + 'headhist': head, prefix + 'curhist': curhist}
        fixed.update(extra_fixed or {})
        owns = {prefix + 'line.buf': cap, prefix + 'history_space': hs * cap}
        owns.update(extra_owns or {})
        self.obj, self.blocks, self.fields = st = case.struct(pname, sname, fixed, owns)
        self.line = Sline(case, sname, prefix + 'line.', cap, ln, cur, struct=st)
        self.hist = self.blocks[prefix + 'history_space']
        case.st.objs[self.hist].info['desc'] = 'history buffer (%d lines of %d bytes)' % (hs, cap)
        self.no_history = no_history
        self.lens = list(lens)
        self.slots = []
        for j in range(hs):
            L = self.lens[j]
            row = [case.byte('h%d_%d' % (j, k), 1, 255) for k in range(L)] + [mk_const(8, 0)] + \
                  [case.byte('g%d_%d' % (j, k), 0, 255) for k in range(L + 1, cap)]
            self.slots.append(row)
            case.fill(self.hist, j * cap, row)
        if no_history:
            case.st.mem[(self.obj, self.f('history_space')['off'], 8)] = NULL

    def f(self, name):
        return self.fields[self.prefix + name]

    def stored(self, j):
        return self.slots[j][:self.lens[j]]

    def set_slot(self, j, chars):
        """replace the content of slot j by the given line (before the run)"""
        row = list(chars) + [mk_const(8, 0)] + \
            [self.case.byte('q%d_%d' % (j, k), 0, 255) for k in range(len(chars) + 1, self.cap)]
        self.slots[j] = row
        self.lens[j] = len(chars)
        self.case.fill(self.hist, j * self.cap, row)

    def recent(self, num):
        """slot index of the num-th most recent line (1 = the last one stored)"""
        return (self.head - num) % self.hs

    def get(self, T, name):
        return self.case.field(T, self.obj, self.f(name))

    def check_hist(self, T, out, tag, head=None, written=None):
        """every history byte is what it was, except slot written[0], which holds the line written[1] and its terminator"""
        c = self.case
        bad = None
        for j in range(self.hs):
            got = c.bytes_at(T, self.hist, j * self.cap, self.cap)
            if written is not None and j == written[0]:
                want = list(written[1]) + [mk_const(8, 0)]
                ok = len(want) <= self.cap and same_seq(T, got[:len(want)], want)
                out(tag + ': the slot at headhist holds exactly the line and a terminator', ok,
                    'slot %d holds %s, expected %s' % (j, shows(T, got), shows(T, want)))
                continue
            if not same_seq(T, got, self.slots[j]) and bad is None:
                bad = 'slot %d holds %s, it held %s' % (j, shows(T, got), shows(T, self.slots[j]))
        out(tag + (': the other history lines are untouched' if written is not None else ': the history is untouched'),
            bad is None, bad)
        hp = T.mem.get((self.obj, self.f('history_space')['off'], 8))
        if self.no_history:
            ok = isinstance(hp, PtrVal) and hp.is_null
        else:
            ok = is_ptr(hp, self.hist, 0)
        ok = ok and self.get(T, 'history_size') == self.hs
        out(tag + ': history_space and history_size untouched', ok,
            'history_space is %r, history_size %d' % (hp, self.get(T, 'history_size')))
        if head is not None:
            out(tag + ': headhist', self.get(T, 'headhist') == head,
                'headhist is %d, expected %d' % (self.get(T, 'headhist'), head))


def hist_configs(caps, depths=(1, 2, 3), patterns=(0, 1)):
    for cap in caps:
        for hs in depths:
            for head in range(hs):
                for pat in patterns:
                    yield cap, hs, head, slot_lengths(pat, hs, cap)


def recent_variants(case, rl):
    """relations between the line and the most recent history entry: (label, characters of the entry, same?)"""
    t = rl.line.text

    def differs():
        k = len(t) - 1
        x = case.byte('x%d' % k, 1, 255)
        case.st.add_diseq(x.u, t[k].u)
        return t[:k] + [x]
    vs = [('the most recent entry is the line', lambda: list(t), True)]
    if len(t) >= 1:
        vs.append(('the most recent entry is a proper prefix of the line', lambda: list(t[:-1]), False))
        vs.append(('the most recent entry differs from the line in the last character', differs, False))
    if len(t) + 1 <= rl.cap - 1:
        vs.append(('the line is a proper prefix of the most recent entry', lambda: t + [case.byte('x', 1, 255)], False))
    return vs


def readline_rules(rep, repo, caps):
    mod = witness('w_readline.c', repo)
    agg = Agg(rep, 'R-HISTORY')
    keys = Agg(rep, 'R-KEYTEXT')

    H_ALL = list(hist_configs(caps))                            # both patterns of stored lengths
    H_P0 = list(hist_configs(caps, patterns=(0,)))
    H_ONE = [(cap, 2, 1, slot_lengths(0, 2, cap)) for cap in caps]
    H_NL = [h for h in H_P0 if h[0] == caps[0]] + [h for h in H_ONE if h[0] != caps[0]]

    def L_FULL(cap):
        return [(ln, cur) for ln in range(cap) for cur in range(ln + 1)]

    def L_FEW(cap):
        return sorted(set([(0, 0), (cap - 1, 0), (cap - 1, cap - 1), (cap - 2, 1), (1, 1), (2, 1)]))

    def L_ENDS(cap):
        return sorted(set((ln, cur) for ln in (0, 1, cap - 2, cap - 1) for cur in (0, ln)))

    def L_ONE(cap):
        return [(2, 1)]

    def each(fname, make, hists=None, lines=L_FEW, curhists=None, target=None, **kw):
        if ONLY and ONLY not in fname:
            return
        for cap, hs, head, lens in (H_P0 if hists is None else hists):
            for ln, cur in lines(cap):
                for ch in (curhists(hs) if curhists else (0,)):
                    def new_case():
                        case = Case(mod, fname, '')
                        rl = Readline(case, RL, '', cap, ln, cur, hs, head, ch, lens, **kw)
                        return case, rl, 'cap %d, len %d, cursor %d, history of %d (stored lengths %s), headhist %d, curhist %d' % (
                            cap, ln, cur, hs, lens, head, ch)
                    run_variants(target or agg, new_case, make)

    def line_same(rl, T, out, tag='the edited line is not disturbed'):
        rl.line.check(T, out, tag, rl.line.text, cur=rl.line.cur)

    def nothing(rl, T, out, tag):
        rl.line.check(T, out, tag + ': the line stays', rl.line.text, cur=rl.line.cur)
        rl.check_hist(T, out, tag, head=rl.head)
        out(tag + ': curhist', rl.get(T, 'curhist') == rl.curhist, 'curhist is %d, expected %d' % (rl.get(T, 'curhist'), rl.curhist))

    # -- the three push functions: the line and a terminator into slot headhist, nothing else
    def push_n(case, rl):
        def variant(n):
            def build():
                src = [case.byte('s%d' % k, 1, 255) for k in range(n)]
                blk = case.buffer('str', src + [case.byte('s_behind')], 'line to store (%d characters)' % n)

                def chk(T, rv, out):
                    rl.check_hist(T, out, 'store', head=(rl.head + 1) % rl.hs, written=(rl.head, src))
                    out('store: curhist untouched', rl.get(T, 'curhist') == rl.curhist, 'curhist %d' % rl.get(T, 'curhist'))
                    line_same(rl, T, out)
                return [PtrVal(rl.obj), PtrVal(blk), mk_const(64, n)], chk
            return (', storing %d characters' % n, build)
        return [variant(n) for n in sorted(set([0, 1, rl.cap - 2, rl.cap - 1]))]
    each('_readline_push_line_to_history', push_n)

    def push_str(case, rl):
        def variant(n):
            def build():
                src = [case.byte('s%d' % k, 1, 255) for k in range(n)]
                blk = case.buffer('str', src + [0], 'C string to store (%d characters)' % n)

                def chk(T, rv, out):
                    rl.check_hist(T, out, 'store', head=(rl.head + 1) % rl.hs, written=(rl.head, src))
                    line_same(rl, T, out)
                return [PtrVal(rl.obj), PtrVal(blk)], chk
            return (', storing the string of %d characters' % n, build)
        return [variant(n) for n in sorted(set([0, 1, rl.cap - 1]))]
    each('readline_push_line_to_history', push_str, lines=L_ONE)

    def push_cur(case, rl):
        def build():
            def chk(T, rv, out):
                rl.check_hist(T, out, 'store', head=(rl.head + 1) % rl.hs, written=(rl.head, rl.line.text))
                line_same(rl, T, out)
            return [PtrVal(rl.obj)], chk
        return [('', build)]
    each('readline_push_current_line_to_history', push_cur, lines=L_FULL)

    # -- recall: the stored line of slot (headhist - curhist) mod history_size, cursor at its end
    def expect_loaded(rl, T, out, curhist, tag):
        if curhist == 0:
            rl.line.check(T, out, tag + ': position 0 is the empty line', [], cur=0)
        else:
            want = rl.stored(rl.recent(curhist))
            rl.line.check(T, out, tag + ': the line is the stored line, cursor at its end', want, cur=len(want))
        rl.check_hist(T, out, tag, head=rl.head)
        out(tag + ': curhist', rl.get(T, 'curhist') == curhist, 'curhist is %d, expected %d' % (rl.get(T, 'curhist'), curhist))

    def load(case, rl):
        def build():
            def chk(T, rv, out):
                expect_loaded(rl, T, out, rl.curhist, 'recall')
            return [PtrVal(rl.obj)], chk
        return [('', build)]
    each('readline_load_history_line', load, hists=H_ALL, curhists=lambda hs: range(hs + 1))

    def updown(delta):
        def make(case, rl):
            def build():
                new = rl.curhist + delta
                moves = 0 <= new <= rl.hs and not rl.no_history

                def chk(T, rv, out):
                    r = case.ret_int(rv)
                    out('result tells whether a line was recalled', r == (1 if moves else 0), 'returns %r' % r)
                    if moves:
                        expect_loaded(rl, T, out, new, 'recall')
                    else:
                        nothing(rl, T, out, 'at the end of the history' if not rl.no_history else 'without a history')
                return [PtrVal(rl.obj)], chk
            return [('', build)]
        return make
    for fname, d in (('readline_history_up', 1), ('readline_history_down', -1)):
        each(fname, updown(d), hists=H_ALL, curhists=lambda hs: range(hs + 1))
        each(fname, updown(d), hists=H_ONE, curhists=lambda hs: (0, 1), no_history=True)

    # -- history pointers: the start of slot (headhist - num) mod history_size
    def hptr(case, rl):
        def variant(num):
            def build():
                def chk(T, rv, out):
                    want = rl.recent(num) * rl.cap
                    out('result is the start of slot (headhist - num) mod history_size', is_ptr(rv, rl.hist, want),
                        'returns %r, expected offset %d' % (rv, want))
                return [PtrVal(rl.obj), mk_const(32, num)], chk
            return (', num %d' % num, build)
        return [variant(num) for num in range(rl.hs + 1)]
    each('readline_history_pointer', hptr, lines=L_ONE)

    def hcur(case, rl):
        def build():
            def chk(T, rv, out):
                want = rl.recent(rl.curhist) * rl.cap
                out('result is the start of slot (headhist - curhist) mod history_size', is_ptr(rv, rl.hist, want),
                    'returns %r, expected offset %d' % (rv, want))
            return [PtrVal(rl.obj)], chk
        return [('', build)]
    each('readline_current_history_pointer', hcur, lines=L_ONE, curhists=lambda hs: range(hs + 1))

    # -- comparison with the most recent entry
    def notsame(case, rl):
        def variant(label, chars_of, same):
            def build():
                rl.set_slot(rl.recent(1), chars_of())

                def chk(T, rv, out):
                    r = case.ret_int(rv)
                    out('true exactly when the line differs from the most recent entry', r is not None and (r != 0) == (not same),
                        'returns %r although %s' % (r, label))
                    nothing(rl, T, out, 'comparison')
                return [PtrVal(rl.obj)], chk
            return (', ' + label, build)
        return [variant(*v) for v in recent_variants(case, rl)]
    each('readline_is_not_same_as_last', notsame, lines=L_ENDS)

    # -- readline_putchar, CR / LF in the normal state: the line is stored once
    def newline(c):
        def make(case, rl):
            def variant(label, chars_of, same):
                def build():
                    rl.set_slot(rl.recent(1), chars_of())
                    paired = rl.last in (10, 13) and rl.last != c
                    stores = rl.line.len > 0 and not same and not rl.no_history

                    def chk(T, rv, out):
                        r = case.ret_int(rv)
                        if paired:
                            out('second half of a CR LF pair: result', r == 0, 'returns %r' % r)
                            nothing(rl, T, out, 'second half of a CR LF pair: nothing happens')
                            return
                        out('newline: result READLINE_NEWLINE', r == 2, 'returns %r' % r)
                        line_same(rl, T, out, 'newline: the line stays for the caller')
                        if stores:
                            rl.check_hist(T, out, 'newline: a new non-empty line is stored', head=(rl.head + 1) % rl.hs,
                                          written=(rl.head, rl.line.text))
                        elif rl.line.len == 0:
                            rl.check_hist(T, out, 'newline: an empty line is not stored', head=rl.head)
                        elif rl.no_history:
                            rl.check_hist(T, out, 'newline: without a history nothing is stored', head=rl.head)
                        else:
                            rl.check_hist(T, out, 'newline: a line equal to the most recent entry is not stored twice', head=rl.head)
                        out('newline: curhist back to 0', rl.get(T, 'curhist') == 0, 'curhist is %d' % rl.get(T, 'curhist'))
                    return [PtrVal(rl.obj), mk_const(8, c)], chk
                return (', key %d after %d, %s' % (c, rl.last, label), build)
            return [variant(*v) for v in recent_variants(case, rl)]
        return make
    for c in (13, 10):
        for last in (0, 97, 23 - c):
            each('readline_putchar', newline(c), hists=H_NL, lines=L_ENDS, target=keys, last=last,
                 curhists=(lambda hs: (0, hs)) if last == 0 else None)
        each('readline_putchar', newline(c), hists=H_ONE, lines=L_ENDS, target=keys, no_history=True)

    # -- readline_putchar, the editing keys: same text surgery as the sline primitives, history untouched
    def edit_keys(state):
        def make(case, rl):
            sl = rl.line
            t, cur, ln, cap = sl.text, sl.cur, sl.len, sl.cap
            vs = []

            def add(label, c_of, tag, text_of, ncur, ret, nstate):
                def build():
                    c = c_of()

                    def chk(T, rv, out):
                        r = case.ret_int(rv)
                        out(tag + ': result', r == ret, 'returns %r, expected %d' % (r, ret))
                        sl.check(T, out, tag, text_of(c), cur=ncur)
                        rl.check_hist(T, out, tag, head=rl.head)
                        out(tag + ': state', rl.get(T, 'state') == nstate, 'state is %d, expected %d' % (rl.get(T, 'state'), nstate))
                    return [PtrVal(rl.obj), c], chk
                vs.append((', ' + label, build))

            def k(v):
                return lambda: mk_const(8, v)

            def same(c):
                return t
            if state == 0:
                for (lo, hi) in KEY_CLASSES:
                    c_of = (lambda lo=lo, hi=hi: case.schar('c', lo, hi))
                    if ln >= cap - 1:
                        add('key in %d..%d' % (lo, hi), c_of, 'character when the line is full: refused', same, cur, -1, 0)
                    else:
                        add('key in %d..%d' % (lo, hi), c_of, 'character: inserted at the cursor',
                            lambda c: t[:cur] + [c] + t[cur:], cur + 1, 1, 0)
                if cur >= 1:
                    add('backspace', k(8), 'backspace: the character before the cursor is removed',
                        lambda c: t[:cur - 1] + t[cur:], cur - 1, 3, 0)
                else:
                    add('backspace', k(8), 'backspace at the start: nothing', same, cur, 0, 0)
                add('ESC', k(27), 'ESC: nothing but the state', same, cur, 0, 1)
            elif state == 1:
                add('[', k(0x5b), 'ESC [: nothing but the state', same, cur, 0, 2)
                add('other', lambda: case.schar('c', 0x5c, 127), 'ESC other: nothing', same, cur, 0, 0)
            elif state == 2:
                if cur < ln:
                    add('ESC [ 3', k(0x33), 'delete: the character at the cursor is removed', lambda c: t[:cur] + t[cur + 1:], cur, 4, 3)
                    add('ESC [ C', k(0x43), 'right: only the cursor moves', same, cur + 1, 9, 0)
                else:
                    add('ESC [ 3', k(0x33), 'delete at the end: nothing', same, cur, 0, 3)
                    add('ESC [ C', k(0x43), 'right at the end: nothing', same, cur, 0, 0)
                if cur >= 1:
                    add('ESC [ D', k(0x44), 'left: only the cursor moves', same, cur - 1, 8, 0)
                else:
                    add('ESC [ D', k(0x44), 'left at the start: nothing', same, cur, 0, 0)
                add('ESC [ other', lambda: case.schar('c', 0x45, 127), 'unknown sequence: nothing', same, cur, 0, 0)
            else:
                add('~', lambda: case.schar('c', -128, 127), 'closing byte of ESC [ 3 ~: nothing', same, cur, 0, 0)
            return vs
        return make
    for state in (0, 1, 2, 3):
        each('readline_putchar', edit_keys(state), hists=H_ONE, lines=L_FULL, target=keys, state=state)

    # -- readline_putchar, ESC [ A / ESC [ B: recall
    def arrows(case, rl):
        def variant(c, d, name):
            def build():
                new = rl.curhist + d
                moves = 0 <= new <= rl.hs

                def chk(T, rv, out):
                    r = case.ret_int(rv)
                    out('%s: result' % name, r == (7 if moves else 0), 'returns %r' % r)
                    if moves:
                        expect_loaded(rl, T, out, new, name)
                    else:
                        nothing(rl, T, out, name + ' at the end of the history')
                    out('%s: state' % name, rl.get(T, 'state') == 0, 'state %d' % rl.get(T, 'state'))
                return [PtrVal(rl.obj), mk_const(8, c)], chk
            return (', ESC [ %s' % chr(c), build)
        return [variant(0x41, 1, 'up'), variant(0x42, -1, 'down')]
    each('readline_putchar', arrows, hists=H_ALL, lines=L_ENDS, target=keys, curhists=lambda hs: range(hs + 1), state=2)

    # -- readline_linecpy(rl, out, maxlen): the first min(maxlen - 1, len) characters and a terminator
    def linecpy(case, rl):
        def variant(m):
            def build():
                ob = case.buffer('out', [case.byte('o%d' % k) for k in range(m)], 'destination (%d bytes)' % m)
                k = min(m - 1, rl.line.len)

                def chk(T, rv, out):
                    r = case.ret_int(rv)
                    out('result is the number of characters copied', r == k, 'returns %r, expected %d' % (r, k))
                    got = case.bytes_at(T, ob, 0, k + 1)
                    want = rl.line.text[:k] + [mk_const(8, 0)]
                    out('destination holds the start of the line and a terminator', same_seq(T, got, want),
                        'destination holds %s, expected %s' % (shows(T, got), shows(T, want)))
                    line_same(rl, T, out)
                return [PtrVal(rl.obj), PtrVal(ob), mk_const(64, m)], chk
            return (', destination of %d bytes' % m, build)
        return [variant(m) for m in sorted(set([1, 2, max(1, rl.line.len), rl.line.len + 1, rl.line.len + 2]))]
    each('readline_linecpy', linecpy, hists=H_ONE, lines=L_FULL)

    # -- set-up functions
    def newline_reset(case, rl):
        def build():
            def chk(T, rv, out):
                rl.line.check(T, out, 'the line is empty', [], cur=0)
                rl.check_hist(T, out, 'reset', head=rl.head)
                out('curhist back to 0', rl.get(T, 'curhist') == 0, 'curhist %d' % rl.get(T, 'curhist'))
            return [PtrVal(rl.obj)], chk
        return [('', build)]
    each('readline_newline_reset', newline_reset, curhists=lambda hs: (0, hs))

    def hinit(case, rl):
        def variant(n):
            def build():
                nb = case.buffer('hs', [case.byte('n%d' % k) for k in range(n * rl.cap)],
                                 'new history buffer (%d bytes)' % (n * rl.cap))

                def chk(T, rv, out):
                    hp = T.mem.get((rl.obj, rl.f('history_space')['off'], 8))
                    out('history_space is the buffer handed in', is_ptr(hp, nb, 0), 'history_space is %r' % (hp,))
                    out('history_size is the depth handed in', rl.get(T, 'history_size') == n,
                        'history_size %d' % rl.get(T, 'history_size'))
                    got = case.bytes_at(T, nb, 0, n * rl.cap)
                    out('every history line is empty (all bytes zero)', all(g is not None and same_byte(T, g, 0) for g in got),
                        'buffer holds %s' % shows(T, got))
                    line_same(rl, T, out)
                return [PtrVal(rl.obj), PtrVal(nb), mk_const(32, n)], chk
            return (', depth %d' % n, build)
        return [variant(1), variant(3)]
    each('readline_history_init', hinit)

    def rinit(case, rl):
        def build():
            n = rl.cap + 2
            nb = case.buffer('buf', [case.byte('n%d' % k) for k in range(n)], 'new line buffer (%d bytes)' % n)

            def chk(T, rv, out):
                bp = T.mem.get((rl.obj, rl.f('line.buf')['off'], 8))
                out('the line uses the buffer handed in', is_ptr(bp, nb, 0) and rl.get(T, 'line.cap') == n,
                    'buf %r, cap %d' % (bp, rl.get(T, 'line.cap')))
                out('the line is empty', rl.get(T, 'line.len') == 0 and rl.get(T, 'line.cursor') == 0, 'len / cursor not 0')
                hp = T.mem.get((rl.obj, rl.f('history_space')['off'], 8))
                out('no history, normal state', isinstance(hp, PtrVal) and hp.is_null and rl.get(T, 'state') == 0 and
                    rl.get(T, 'curhist') == 0 and rl.get(T, 'headhist') == 0, 'history_space %r' % (hp,))
            return [PtrVal(rl.obj), PtrVal(nb), mk_const(64, n)], chk
        return [('', build)]
    each('readline_init', rinit, hists=H_ONE, curhists=lambda hs: (hs,), state=2)

    agg.flush()
    keys.flush()
    return agg, keys


# ----------------------------------------------------------------------------------------------------------------------
EXPLANATION = (
    ' CONTENT (c15_content.py): every sline / readline function and the vterm automaton are interpreted in small concrete '
    'configurations (line capacity 4..8, every length and cursor position; history depth 1..3, every write index and browse '
    'index, two patterns of stored line lengths) in which every byte of the line, of the history and of the arguments is '
    'its own symbol; mem*/str* calls are summarised by their definition on the cells.  Decided at every return, as equality '
    'of symbol sequences with a reference built by list surgery: sline_putchar / newdata insert at the cursor (as much as '
    'fits), backspace / delete remove exactly the clamped n characters before / at the cursor, left / right and the '
    'accessors leave the text alone, getline terminates it, sline_equal is true exactly for the same text (R-TEXT); the push '
    'functions store exactly the line and a terminator into slot headhist and advance it modulo the depth, recall brings '
    'back exactly the line of slot (headhist - curhist) mod depth with the cursor at its end, position 0 is the empty line '
    '(R-HISTORY); per key of readline_putchar the same text surgery, CR / LF stores a non-empty line that differs from the '
    'most recent entry exactly once, nothing for an empty or repeated line, the second half of a CR LF pair or without a '
    'history (R-KEYTEXT); the bytes vterm hands to the write callback, replayed on a VT100 line model, leave the screen '
    'showing prompt + line with the cursor at the editor cursor after every key (R-SCREEN), the execute callback receives '
    'exactly the line, its length and a terminator (R-EXECUTE).  Not decided: capacities beyond the analysed ones (the code '
    'is uniform in the capacity, the clauses of R-SLINE / R-READLINE are symbolic in it), the C++ twins.')


def run_ext(rep, repo, tier):
    thorough = tier == 'thorough'
    rep.explanation = (rep.explanation or '') + EXPLANATION
    rep.assumptions += ['content clauses: the characters of a line are not NUL and occupy one screen column each',
                        'content clauses: memmove/memcpy/memset/strlen/strncmp/strcmp/memcmp behave as ISO C defines them '
                        '(the implementations in compat/libc are the subject of C08); igris_i32toa renders base 10 (C07)']
    agg = sline_rules(rep, repo, CAPS_QUICK + ((9, 12) if thorough else ()))
    rep.units.append('witness/w_sline.c -> igris/datastruct/sline.h (content clauses, concrete configurations)')
    rep.floor('R-TEXT', 90)
    rep.extra.setdefault('content', {})['sline_configurations'] = agg.cases
    caps = CAPS_HIST + ((6,) if thorough else ())
    hist, keys = readline_rules(rep, repo, caps)
    rep.units.append('witness/w_readline.c -> igris/shell/readline.h (content clauses, concrete configurations)')
    rep.floor('R-HISTORY', 90)
    rep.floor('R-KEYTEXT', 150)
    rep.extra['content']['history_configurations'] = hist.cases
    rep.extra['content']['key_configurations'] = keys.cases
    from c15_content_vt import vterm_rules
    scr, exe = vterm_rules(rep, repo, caps)
    rep.units.append('igris/shell/vterm.c (terminal output replayed on a VT100 line model, concrete configurations)')
    rep.floor('R-SCREEN', 80)
    rep.floor('R-EXECUTE', 3)
    rep.extra['content']['vterm_configurations'] = scr.cases
    for name, a, least in (('R-TEXT', agg, 3000), ('R-HISTORY', hist, 2000), ('R-KEYTEXT', keys, 2000), ('R-SCREEN', scr, 700)):
        if a.cases < least and not ONLY:
            raise AnalysisBroken('%s: only %d configurations were analysed (floor %d)' % (name, a.cases, least))
